use std::time::Duration;
use bevy::{input::{InputPlugin, InputSystem, keyboard::{KeyboardInput, Key}, ButtonState}, prelude::*, time::TimeUpdateStrategy, ecs::schedule::NodeId};
use bevy_enhanced_input::prelude::*;

#[derive(Debug, Component)]
struct Ctx;
impl InputContext for Ctx {
    fn context_instance(_w: &World, _e: Entity) -> ContextInstance {
        let mut ctx = ContextInstance::default();
        ctx.bind::<Act>().to(KeyCode::KeyA);
        ctx
    }
}
#[derive(Debug, InputAction)]
#[input_action(output = bool)]
struct Act;

#[derive(Resource, Default)]
struct Log(Vec<String>);

#[test]
fn schedule_graph() {
    let mut app = App::new();
    app.add_plugins((MinimalPlugins, InputPlugin, EnhancedInputPlugin))
        .add_input_context::<Ctx>().init_resource::<Log>();
    app.add_observer(|_t: Trigger<Started<Act>>, mut log: ResMut<Log>| log.0.push("Started".into()));
    app.add_systems(PreUpdate, (|mut log: ResMut<Log>| log.0.push("probe-preupdate".into())).after(EnhancedInputSystem));
    app.add_systems(Update, |mut log: ResMut<Log>| log.0.push("probe-update".into()));
    let e = app.world_mut().spawn(Ctx).id();
    app.insert_resource(TimeUpdateStrategy::ManualDuration(Duration::from_millis(250)));
    app.update();
    // inject a window-style keyboard event
    app.world_mut().send_event(KeyboardInput { key_code: KeyCode::KeyA, logical_key: Key::Character("a".into()), state: ButtonState::Pressed, repeat: false, window: Entity::PLACEHOLDER });
    app.update();
    println!("log: {:?}", app.world().resource::<Log>().0);
    let t = app.world().resource::<Time<Virtual>>();
    println!("virtual delta {:?} speed {}", t.delta(), t.relative_speed());
    let _ = e;
    // graph
    let schedules = app.world().resource::<Schedules>();
    let sched = schedules.get(PreUpdate).unwrap();
    let g = sched.graph();
    let mut names = std::collections::HashMap::new();
    for (id, set, _) in g.system_sets() { names.insert(id, format!("{set:?}")); }
    for (id, sys, _) in g.systems() { names.insert(id, sys.name().to_string()); }
    let dep = g.dependency().graph();
    for (a, b, _) in dep.all_edges() {
        let (na, nb) = (names.get(&a).cloned().unwrap_or(format!("{a:?}")), names.get(&b).cloned().unwrap_or(format!("{b:?}")));
        if na.contains("Input") || nb.contains("Input") || na.contains("probe") || nb.contains("scratch") { println!("dep {na} -> {nb}"); }
    }
    let hier = g.hierarchy().graph();
    for (a, b, _) in hier.all_edges() {
        let (na, nb) = (names.get(&a).cloned().unwrap_or(format!("{a:?}")), names.get(&b).cloned().unwrap_or(format!("{b:?}")));
        if na.contains("Enhanced") || nb.contains("enhanced") { println!("hier {na} -> {nb}"); }
    }
    let _ : Option<NodeId> = None;
}
