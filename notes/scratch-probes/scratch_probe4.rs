use std::time::Duration;

use bevy::{input::InputPlugin, prelude::*, time::TimeUpdateStrategy, ui::Interaction};
use bevy_enhanced_input::prelude::*;

#[derive(Resource, Default)]
struct Log(Vec<String>);

fn log_all<A: InputAction>(app: &mut App, name: &'static str) {
    app.add_observer(move |t: Trigger<Started<A>>, mut log: ResMut<Log>| {
        log.0.push(format!("{name}.S@{}", t.entity().index()));
    });
    app.add_observer(move |t: Trigger<Ongoing<A>>, mut log: ResMut<Log>| {
        log.0.push(format!("{name}.O@{} el={}", t.entity().index(), t.event().elapsed_secs));
    });
    app.add_observer(move |t: Trigger<Fired<A>>, mut log: ResMut<Log>| {
        log.0.push(format!("{name}.F@{} el={} fi={}", t.entity().index(), t.event().elapsed_secs, t.event().fired_secs));
    });
    app.add_observer(move |t: Trigger<Canceled<A>>, mut log: ResMut<Log>| {
        log.0.push(format!("{name}.Cn@{} el={}", t.entity().index(), t.event().elapsed_secs));
    });
    app.add_observer(move |t: Trigger<Completed<A>>, mut log: ResMut<Log>| {
        log.0.push(format!("{name}.Cm@{} el={} fi={}", t.entity().index(), t.event().elapsed_secs, t.event().fired_secs));
    });
}

fn frame(app: &mut App, label: &str) {
    app.world_mut().resource_mut::<Log>().0.clear();
    app.update();
    println!("  [{label}] {:?}", app.world().resource::<Log>().0);
}
fn drain(app: &mut App, label: &str) {
    println!("  [{label}] {:?}", app.world().resource::<Log>().0);
    app.world_mut().resource_mut::<Log>().0.clear();
}

#[derive(Debug, Component)]
struct Sh;
impl InputContext for Sh {
    const MODE: ContextMode = ContextMode::Shared;
    fn context_instance(_w: &World, e: Entity) -> ContextInstance {
        println!("  (build Sh for {})", e.index());
        let mut ctx = ContextInstance::default();
        ctx.bind::<ShA>().to(KeyCode::KeyA);
        ctx
    }
}
#[derive(Debug, InputAction)]
#[input_action(output = bool)]
struct ShA;

#[derive(Debug, Component)]
struct Ex;
impl InputContext for Ex {
    fn context_instance(_w: &World, e: Entity) -> ContextInstance {
        println!("  (build Ex for {})", e.index());
        let mut ctx = ContextInstance::default();
        ctx.bind::<ExA>().to(KeyCode::KeyB);
        ctx
    }
}
#[derive(Debug, InputAction)]
#[input_action(output = bool, consume_input = false)]
struct ExA;

fn new_app() -> App {
    let mut app = App::new();
    app.add_plugins((MinimalPlugins, InputPlugin, EnhancedInputPlugin))
        .init_resource::<Log>()
        .insert_resource(TimeUpdateStrategy::ManualDuration(Duration::from_millis(125)));
    app
}

#[test]
fn a_shared_lifecycle() {
    println!("== shared lifecycle");
    let mut app = new_app();
    app.add_input_context::<Sh>().add_input_context::<Ex>();
    log_all::<ShA>(&mut app, "ShA");
    log_all::<ExA>(&mut app, "ExA");
    let e1 = app.world_mut().spawn((Sh, Ex)).id();
    let e2 = app.world_mut().spawn((Sh, Ex)).id();
    frame(&mut app, "idle");
    let mut keys = app.world_mut().resource_mut::<ButtonInput<KeyCode>>();
    keys.press(KeyCode::KeyA);
    keys.press(KeyCode::KeyB);
    frame(&mut app, "press A,B");
    frame(&mut app, "hold");
    let e3 = app.world_mut().spawn((Sh, Ex)).id();
    drain(&mut app, "after spawn e3 (late joiner)");
    frame(&mut app, "hold with e3");
    app.world_mut().entity_mut(e1).remove::<Sh>();
    drain(&mut app, "after remove Sh from e1");
    frame(&mut app, "hold after e1 left Sh");
    app.world_mut().despawn(e2);
    drain(&mut app, "after despawn e2");
    frame(&mut app, "hold after e2 despawned");
    app.world_mut().trigger(RebuildInputContexts);
    drain(&mut app, "after rebuild");
    frame(&mut app, "hold after rebuild (should be ignored)");
    app.world_mut().resource_mut::<ButtonInput<KeyCode>>().release(KeyCode::KeyA);
    app.world_mut().resource_mut::<ButtonInput<KeyCode>>().release(KeyCode::KeyB);
    frame(&mut app, "release");
    app.world_mut().resource_mut::<ButtonInput<KeyCode>>().press(KeyCode::KeyA);
    app.world_mut().resource_mut::<ButtonInput<KeyCode>>().press(KeyCode::KeyB);
    frame(&mut app, "press again");
    let inst = app.world().resource::<ContextInstances>();
    for e in [e1, e3] {
        println!("  get Sh {} = {} ; get Ex {} = {}", e.index(), inst.get::<Sh>(e).is_some(), e.index(), inst.get::<Ex>(e).is_some());
    }
    // remove the last holders and re-add: fresh
    app.world_mut().entity_mut(e3).remove::<Sh>();
    drain(&mut app, "after remove Sh from e3 (last holder)");
    app.world_mut().entity_mut(e1).insert(Sh);
    frame(&mut app, "after re-adding Sh to e1 while A held");
    // insert again (already present)
    app.world_mut().entity_mut(e1).insert(Sh);
    frame(&mut app, "after re-inserting present Sh");
}

// priorities
macro_rules! prio_ctx {
    ($c:ident, $a:ident, $p:expr) => {
        #[derive(Debug, Component)]
        struct $c;
        impl InputContext for $c {
            const PRIORITY: isize = $p;
            fn context_instance(_w: &World, _e: Entity) -> ContextInstance {
                let mut ctx = ContextInstance::default();
                ctx.bind::<$a>().to(KeyCode::KeyZ);
                ctx
            }
        }
        #[derive(Debug, InputAction)]
        #[input_action(output = bool)]
        struct $a;
    };
}
prio_ctx!(P0, A0, 0);
prio_ctx!(P5, A5, 5);
prio_ctx!(Pm3, Am3, -3);
prio_ctx!(P2, A2, 2);

#[test]
fn b_priorities() {
    println!("== priorities, non-monotone insertion");
    let mut app = new_app();
    app.add_input_context::<P0>().add_input_context::<P5>().add_input_context::<Pm3>().add_input_context::<P2>();
    let e = app.world_mut().spawn(P0).id();
    app.world_mut().entity_mut(e).insert(Pm3);
    let e2 = app.world_mut().spawn(P2).id();
    app.update();
    app.world_mut().resource_mut::<ButtonInput<KeyCode>>().press(KeyCode::KeyZ);
    app.update();
    let show = |app: &App, l: &str| {
        let inst = app.world().resource::<ContextInstances>();
        let s = |o: Option<&ContextInstance>, f: &dyn Fn(&ContextInstance) -> ActionState| o.map(f);
        println!("  [{l}] P5={:?} P2={:?} P0={:?} Pm3={:?}",
            s(inst.get::<P5>(e2), &|c| c.action::<A5>().unwrap().state()),
            s(inst.get::<P2>(e2), &|c| c.action::<A2>().unwrap().state()),
            s(inst.get::<P0>(e), &|c| c.action::<A0>().unwrap().state()),
            s(inst.get::<Pm3>(e), &|c| c.action::<Am3>().unwrap().state()));
    };
    show(&app, "press Z: winner should be P2");
    app.world_mut().resource_mut::<ButtonInput<KeyCode>>().release(KeyCode::KeyZ);
    app.update();
    app.world_mut().entity_mut(e2).insert(P5);
    app.world_mut().entity_mut(e2).remove::<P2>();
    app.update();
    app.world_mut().resource_mut::<ButtonInput<KeyCode>>().press(KeyCode::KeyZ);
    app.update();
    show(&app, "winner should be P5");
    app.world_mut().resource_mut::<ButtonInput<KeyCode>>().release(KeyCode::KeyZ);
    app.world_mut().entity_mut(e2).remove::<P5>();
    app.world_mut().entity_mut(e2).insert(P2);
    app.update();
    app.world_mut().resource_mut::<ButtonInput<KeyCode>>().press(KeyCode::KeyZ);
    app.update();
    show(&app, "winner should be P2 again");
}

// reader: modifiers, UI, gamepads
#[derive(Debug, Component)]
struct Rd;
impl InputContext for Rd {
    fn context_instance(_w: &World, _e: Entity) -> ContextInstance {
        let mut ctx = ContextInstance::default();
        ctx.bind::<R1>().to(KeyCode::KeyS.with_mod_keys(ModKeys::CONTROL | ModKeys::SHIFT));
        ctx.bind::<R2>().to(MouseButton::Left.with_mod_keys(ModKeys::ALT));
        ctx.bind::<R3>().to(KeyCode::KeyD.with_mod_keys(ModKeys::CONTROL)); // shares CONTROL with R1
        ctx.bind::<R4>().to(KeyCode::KeyD); // plain D
        ctx.bind::<R5>().to(GamepadAxis::LeftStickX);
        ctx.bind::<R6>().to(Input::mouse_motion());
        ctx
    }
}
macro_rules! act { ($n:ident, $o:ty, $c:expr) => {
    #[derive(Debug, InputAction)]
    #[input_action(output = $o, consume_input = $c)]
    struct $n;
}; }
act!(R1, bool, true);
act!(R2, bool, false);
act!(R3, bool, false);
act!(R4, bool, false);
act!(R5, f32, false);
act!(R6, Vec2, false);

#[test]
fn c_reader() {
    println!("== reader");
    let mut app = new_app();
    app.add_input_context::<Rd>();
    let e = app.world_mut().spawn(Rd).id();
    app.update();
    let show = |app: &App, l: &str| {
        let inst = app.world().resource::<ContextInstances>();
        let c = inst.get::<Rd>(e).unwrap();
        println!("  [{l}] R1={:?} R2={:?} R3={:?} R4={:?} R5={:?} R6={:?}",
            c.action::<R1>().unwrap().state(), c.action::<R2>().unwrap().state(), c.action::<R3>().unwrap().state(),
            c.action::<R4>().unwrap().state(), c.action::<R5>().unwrap().value(), c.action::<R6>().unwrap().value());
    };
    {
        let mut k = app.world_mut().resource_mut::<ButtonInput<KeyCode>>();
        k.press(KeyCode::ControlRight); k.press(KeyCode::ShiftLeft); k.press(KeyCode::SuperLeft); k.press(KeyCode::KeyS); k.press(KeyCode::KeyD);
    }
    app.update();
    show(&app, "CtrlR+ShiftL+Super+S+D: R1 Fired (consumes S + CTRL,SHIFT) => R3 (Ctrl+D) None, R4 (D) Fired");
    app.world_mut().resource_mut::<ButtonInput<KeyCode>>().release(KeyCode::KeyS);
    app.update();
    show(&app, "S released: R1 None => R3 Fired, R4 Fired");
    {
        let mut k = app.world_mut().resource_mut::<ButtonInput<KeyCode>>();
        k.press(KeyCode::AltRight);
    }
    app.world_mut().resource_mut::<ButtonInput<MouseButton>>().press(MouseButton::Left);
    app.update();
    show(&app, "AltR+LMB: R2 Fired");
    let ui = app.world_mut().spawn(Interaction::Hovered).id();
    app.update();
    show(&app, "UI hovered: R2 None, keyboard unaffected");
    app.world_mut().entity_mut(ui).insert(Interaction::None);
    app.update();
    show(&app, "UI none: R2 Fired again");
    let mut g1 = Gamepad::default();
    g1.analog_mut().set(GamepadAxis::LeftStickX, 0.0);
    let mut g2 = Gamepad::default();
    g2.analog_mut().set(GamepadAxis::LeftStickX, -0.5);
    app.world_mut().spawn(g1);
    let g2e = app.world_mut().spawn(g2).id();
    app.update();
    show(&app, "two pads, only second non-zero: R5 = -0.5");
    app.world_mut().despawn(g2e);
    app.update();
    show(&app, "second pad gone: R5 = 0");
}

// durations, pause, speed
#[derive(Debug, Component)]
struct Du;
impl InputContext for Du {
    fn context_instance(_w: &World, _e: Entity) -> ContextInstance {
        let mut ctx = ContextInstance::default();
        ctx.bind::<DuA>().to(KeyCode::KeyA).with_conditions(Hold::new(0.25));
        ctx.bind::<DuB>().to(KeyCode::KeyA).with_conditions(Hold::new(0.25).relative_speed(true));
        ctx
    }
}
act!(DuA, bool, false);
act!(DuB, bool, false);

#[test]
fn d_durations() {
    println!("== durations");
    let mut app = new_app();
    app.add_input_context::<Du>();
    log_all::<DuA>(&mut app, "A");
    log_all::<DuB>(&mut app, "B");
    app.world_mut().spawn(Du);
    frame(&mut app, "idle");
    app.world_mut().resource_mut::<ButtonInput<KeyCode>>().press(KeyCode::KeyA);
    app.world_mut().resource_mut::<Time<Virtual>>().set_relative_speed(0.5);
    frame(&mut app, "press, speed .5 (vdelta .0625)");
    frame(&mut app, "f2");
    frame(&mut app, "f3: A (real) fires at .25 real => after 2 frames; B (virtual) needs 4");
    app.world_mut().resource_mut::<Time<Virtual>>().pause();
    frame(&mut app, "paused");
    app.world_mut().resource_mut::<Time<Virtual>>().unpause();
    frame(&mut app, "unpaused");
    frame(&mut app, "f6");
    app.world_mut().resource_mut::<ButtonInput<KeyCode>>().release(KeyCode::KeyA);
    frame(&mut app, "release");
    frame(&mut app, "rest");
}
