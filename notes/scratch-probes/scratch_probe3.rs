use bevy::{input::InputPlugin, prelude::*};
use bevy_enhanced_input::prelude::*;

#[derive(Debug, Component)]
struct Abc;
impl InputContext for Abc {
    fn context_instance(_w: &World, _e: Entity) -> ContextInstance {
        let mut ctx = ContextInstance::default();
        ctx.bind::<Act1>().to((
            KeyCode::KeyA,
            KeyCode::KeyB.with_modifiers(Negate::all()),
            KeyCode::KeyC.with_conditions(Hold::new(1.0)),
        ));
        ctx.bind::<Act2>().to((
            KeyCode::KeyC.with_conditions(Hold::new(1.0)),
            KeyCode::KeyA,
            KeyCode::KeyB.with_modifiers(Negate::all()),
        ));
        ctx
    }
}
#[derive(Debug, InputAction)]
#[input_action(output = f32, consume_input = false)]
struct Act1;
#[derive(Debug, InputAction)]
#[input_action(output = f32, consume_input = false)]
struct Act2;

#[test]
fn cancel_then_lower_state() {
    let mut app = App::new();
    app.add_plugins((MinimalPlugins, InputPlugin, EnhancedInputPlugin)).add_input_context::<Abc>();
    let e = app.world_mut().spawn(Abc).id();
    app.update();
    let mut keys = app.world_mut().resource_mut::<ButtonInput<KeyCode>>();
    keys.press(KeyCode::KeyA); keys.press(KeyCode::KeyB); keys.press(KeyCode::KeyC);
    app.update();
    let inst = app.world().resource::<ContextInstances>();
    let ctx = inst.get::<Abc>(e).unwrap();
    let a1 = ctx.action::<Act1>().unwrap();
    let a2 = ctx.action::<Act2>().unwrap();
    println!("order A,B,C: {:?} {:?}", a1.state(), a1.value());
    println!("order C,A,B: {:?} {:?}", a2.state(), a2.value());
}
