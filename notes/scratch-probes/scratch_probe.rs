use std::time::Duration;

use bevy::{input::InputPlugin, prelude::*};
use bevy_enhanced_input::prelude::*;
use bevy_enhanced_input::input_context::context_instance::ActionsData;

#[test]
fn hold_and_release_spurious() {
    let mut c = HoldAndRelease::new(0.1);
    let actions = ActionsData::default();
    let mut time = Time::<Virtual>::default();
    time.advance_by(Duration::from_millis(250));
    let s = c.evaluate(&actions, &time, 0.0.into());
    println!("HoldAndRelease never actuated, delta 0.25 >= hold 0.1 -> {s:?}");
}

#[test]
fn timer_speed_zero() {
    let mut time = Time::<Virtual>::default();
    time.set_relative_speed(0.0);
    time.advance_by(Duration::ZERO);
    let mut t = ConditionTimer::default();
    t.update(&time);
    println!("timer at speed 0: {}", t.duration());
    let mut h = Hold::new(0.5);
    let actions = ActionsData::default();
    println!("hold: {:?}", h.evaluate(&actions, &time, 1.0.into()));
    time.set_relative_speed(1.0);
    time.advance_by(Duration::from_secs(1));
    println!("hold after 1s: {:?}", h.evaluate(&actions, &time, 1.0.into()));
}

#[test]
fn delta_lerp_overshoot() {
    let mut m = DeltaLerp::default();
    let actions = ActionsData::default();
    let mut time = Time::<Virtual>::default();
    time.advance_by(Duration::from_millis(250));
    let v = m.apply(&actions, &time, 1.0.into());
    println!("DeltaLerp speed 8 delta .25 prev 0 target 1 -> {v:?}");
}

#[test]
fn exp_zero() {
    let mut m = ExponentialCurve::splat(0.0);
    let actions = ActionsData::default();
    let time = Time::<Virtual>::default();
    println!("exp0 of 0 -> {:?}", m.apply(&actions, &time, 0.0.into()));
}

#[derive(Debug, Clone)]
struct Scripted {
    kind: u8,
    script: Vec<ActionState>,
    i: usize,
}

impl InputCondition for Scripted {
    fn evaluate(&mut self, _a: &ActionsData, _t: &Time<Virtual>, _v: ActionValue) -> ActionState {
        let s = self.script[self.i % self.script.len()];
        self.i += 1;
        s
    }
    fn kind(&self) -> ConditionKind {
        match self.kind {
            0 => ConditionKind::Explicit,
            1 => ConditionKind::Implicit,
            2 => ConditionKind::Blocker { events_only: false },
            _ => ConditionKind::Blocker { events_only: true },
        }
    }
}

#[derive(Debug, Component)]
struct TwoBlockers;

impl InputContext for TwoBlockers {
    fn context_instance(_world: &World, _entity: Entity) -> ContextInstance {
        let mut ctx = ContextInstance::default();
        ctx.bind::<ActA>().to(KeyCode::KeyA).with_conditions((
            Scripted { kind: 2, script: vec![ActionState::None], i: 0 },
            Scripted { kind: 2, script: vec![ActionState::Fired], i: 0 },
        ));
        ctx.bind::<ActB>().to(KeyCode::KeyA).with_conditions((
            Scripted { kind: 3, script: vec![ActionState::None], i: 0 },
            Scripted { kind: 3, script: vec![ActionState::Fired], i: 0 },
        ));
        ctx
    }
}

#[derive(Debug, InputAction)]
#[input_action(output = bool, consume_input = false)]
struct ActA;
#[derive(Debug, InputAction)]
#[input_action(output = bool, consume_input = false)]
struct ActB;

#[derive(Resource, Default)]
struct Log(Vec<String>);

#[test]
fn two_blockers() {
    let mut app = App::new();
    app.add_plugins((MinimalPlugins, InputPlugin, EnhancedInputPlugin))
        .add_input_context::<TwoBlockers>()
        .init_resource::<Log>();
    app.add_observer(|t: Trigger<Started<ActB>>, mut log: ResMut<Log>| {
        log.0.push(format!("StartedB {:?}", t.entity()));
    });
    let entity = app.world_mut().spawn(TwoBlockers).id();
    app.update();
    app.world_mut().resource_mut::<ButtonInput<KeyCode>>().press(KeyCode::KeyA);
    app.update();
    let instances = app.world().resource::<ContextInstances>();
    let ctx = instances.get::<TwoBlockers>(entity).unwrap();
    println!("two blockers [fail, pass]: state {:?} (law says None)", ctx.action::<ActA>().unwrap().state());
    println!("two events-only blockers [fail, pass]: log {:?} (law says no events)", app.world().resource::<Log>().0);
}

#[derive(Debug, Component)]
struct CardCtx;
impl InputContext for CardCtx {
    fn context_instance(_world: &World, _entity: Entity) -> ContextInstance {
        let mut ctx = ContextInstance::default();
        ctx.bind::<Move>().to(Cardinal {
            north: KeyCode::KeyI,
            east: KeyCode::KeyL,
            south: KeyCode::KeyK,
            west: KeyCode::KeyJ,
        });
        ctx
    }
}
#[derive(Debug, InputAction)]
#[input_action(output = Vec2)]
struct Move;

#[test]
fn cardinal_custom() {
    let mut app = App::new();
    app.add_plugins((MinimalPlugins, InputPlugin, EnhancedInputPlugin))
        .add_input_context::<CardCtx>();
    let entity = app.world_mut().spawn(CardCtx).id();
    app.update();
    for (name, key) in [("north", KeyCode::KeyI), ("east", KeyCode::KeyL), ("south", KeyCode::KeyK), ("west", KeyCode::KeyJ)] {
        app.world_mut().resource_mut::<ButtonInput<KeyCode>>().press(key);
        app.update();
        let instances = app.world().resource::<ContextInstances>();
        let ctx = instances.get::<CardCtx>(entity).unwrap();
        println!("cardinal {name}: {:?}", ctx.action::<Move>().unwrap().value());
        app.world_mut().resource_mut::<ButtonInput<KeyCode>>().release(key);
        app.update();
    }
}

// C08: consumption clears the ignore flag
#[derive(Debug, Component)]
struct High;
impl InputContext for High {
    const PRIORITY: isize = 1;
    fn context_instance(_world: &World, _entity: Entity) -> ContextInstance {
        let mut ctx = ContextInstance::default();
        ctx.bind::<HighAct>().to(KeyCode::KeyA).with_conditions(JustPress::default());
        ctx
    }
}
#[derive(Debug, Component)]
struct Low;
impl InputContext for Low {
    fn context_instance(_world: &World, _entity: Entity) -> ContextInstance {
        let mut ctx = ContextInstance::default();
        ctx.bind::<LowAct>().to(KeyCode::KeyA);
        ctx
    }
}
#[derive(Debug, InputAction)]
#[input_action(output = bool)]
struct HighAct;
#[derive(Debug, InputAction)]
#[input_action(output = bool)]
struct LowAct;

#[test]
fn ignore_cleared_by_consumption() {
    let mut app = App::new();
    app.add_plugins((MinimalPlugins, InputPlugin, EnhancedInputPlugin))
        .add_input_context::<High>()
        .add_input_context::<Low>();
    let entity = app.world_mut().spawn(High).id();
    app.update();
    // frame: key pressed; High fires (JustPress) and consumes
    app.world_mut().resource_mut::<ButtonInput<KeyCode>>().press(KeyCode::KeyA);
    // Low is inserted while the key is already held (same gap, after press)
    app.world_mut().entity_mut(entity).insert(Low);
    for f in 0..4 {
        app.update();
        let instances = app.world().resource::<ContextInstances>();
        let h = instances.get::<High>(entity).unwrap().action::<HighAct>().unwrap().state();
        let l = instances.get::<Low>(entity).unwrap().action::<LowAct>().unwrap().state();
        println!("frame {f}: high {h:?} low {l:?} (key held continuously since before Low was created)");
    }
}

// C02: deactivate from inside an observer; despawn
#[derive(Debug, Component)]
struct Sw;
impl InputContext for Sw {
    fn context_instance(_world: &World, _entity: Entity) -> ContextInstance {
        let mut ctx = ContextInstance::default();
        ctx.bind::<SwAct>().to(KeyCode::KeyA);
        ctx.bind::<SwAct2>().to(KeyCode::KeyB);
        ctx
    }
}
#[derive(Debug, InputAction)]
#[input_action(output = bool)]
struct SwAct;
#[derive(Debug, InputAction)]
#[input_action(output = bool)]
struct SwAct2;

fn log_all<A: InputAction>(app: &mut App, name: &'static str) {
    app.add_observer(move |t: Trigger<Started<A>>, mut log: ResMut<Log>| {
        log.0.push(format!("{name}.Started {:?} {:?}", t.entity(), t.event()));
    });
    app.add_observer(move |t: Trigger<Ongoing<A>>, mut log: ResMut<Log>| {
        log.0.push(format!("{name}.Ongoing {:?} {:?}", t.entity(), t.event()));
    });
    app.add_observer(move |t: Trigger<Fired<A>>, mut log: ResMut<Log>| {
        log.0.push(format!("{name}.Fired {:?} {:?}", t.entity(), t.event()));
    });
    app.add_observer(move |t: Trigger<Canceled<A>>, mut log: ResMut<Log>| {
        log.0.push(format!("{name}.Canceled {:?} {:?}", t.entity(), t.event()));
    });
    app.add_observer(move |t: Trigger<Completed<A>>, mut log: ResMut<Log>| {
        log.0.push(format!("{name}.Completed {:?} {:?}", t.entity(), t.event()));
    });
}

#[test]
fn deactivate_in_observer() {
    for mode in 0..3 {
        let mut app = App::new();
        app.add_plugins((MinimalPlugins, InputPlugin, EnhancedInputPlugin))
            .add_input_context::<Sw>()
            .init_resource::<Log>();
        log_all::<SwAct>(&mut app, "A");
        log_all::<SwAct2>(&mut app, "B");
        app.add_observer(move |t: Trigger<Started<SwAct>>, mut commands: Commands| {
            match mode {
                0 => { commands.entity(t.entity()).remove::<Sw>(); }
                1 => { commands.entity(t.entity()).despawn(); }
                _ => { commands.trigger(RebuildInputContexts); }
            }
        });
        let entity = app.world_mut().spawn(Sw).id();
        app.update();
        let mut keys = app.world_mut().resource_mut::<ButtonInput<KeyCode>>();
        keys.press(KeyCode::KeyA);
        keys.press(KeyCode::KeyB);
        app.update();
        app.update();
        app.update();
        println!("mode {mode} entity {entity:?}");
        for l in &app.world().resource::<Log>().0 {
            println!("   {l}");
        }
    }
}

#[test]
fn despawn_between_frames() {
    let mut app = App::new();
    app.add_plugins((MinimalPlugins, InputPlugin, EnhancedInputPlugin))
        .add_input_context::<Sw>()
        .init_resource::<Log>();
    log_all::<SwAct>(&mut app, "A");
    let entity = app.world_mut().spawn(Sw).id();
    app.update();
    app.world_mut().resource_mut::<ButtonInput<KeyCode>>().press(KeyCode::KeyA);
    app.update();
    app.world_mut().despawn(entity);
    println!("after despawn, before next frame: {:?}", app.world().resource::<Log>().0);
    app.update();
    println!("after next frame: {:?}", app.world().resource::<Log>().0);
}
