namespace BEI

inductive St | none | ongoing | fired
deriving DecidableEq, Repr

def St.rank : St → Nat | .none => 0 | .ongoing => 1 | .fired => 2

structure Ev where
  s : St
  x : Rat

structure MAcc where
  r : Nat := 0          -- rank of the most significant state so far (the D7 fix keeps this explicitly)
  x : Rat := 0

/-- the fixed loop body (cumulative accumulation, one axis shown) -/
def MAcc.step (a : MAcc) (e : Ev) : MAcc :=
  if e.s.rank = 0 then a
  else if e.s.rank < a.r then a
  else if e.s.rank = a.r then { a with x := a.x + e.x }
  else { r := e.s.rank, x := e.x }

def maxRank : List Ev → Nat
  | [] => 0
  | e :: es => max e.s.rank (maxRank es)

def sumAt (k : Nat) : List Ev → Rat
  | [] => 0
  | e :: es => (if e.s.rank = k then e.x else 0) + sumAt k es

theorem merge_general (es : List Ev) (a : MAcc) :
    (es.foldl MAcc.step a).r = max a.r (maxRank es) ∧
    ((es.foldl MAcc.step a).r ≠ 0 →
      (es.foldl MAcc.step a).x = (if a.r = max a.r (maxRank es) then a.x else 0) + sumAt (max a.r (maxRank es)) es) := by
  induction es generalizing a with
  | nil => simp [maxRank, sumAt]; grind
  | cons e es ih =>
    have h := ih (a.step e)
    simp only [List.foldl, maxRank, sumAt]
    obtain ⟨h1, h2⟩ := h
    unfold MAcc.step at h1 h2 ⊢
    constructor
    · split at h1 <;> grind
    · intro hne
      have h2' := h2 hne
      split at h2' <;> grind

end BEI
