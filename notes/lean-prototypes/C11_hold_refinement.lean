import Lp.Basic

structure HoldCfg where
  T : Rat
  oneShot : Bool

structure HoldSt where
  dur : Rat := 0
  fired : Bool := false

/-- mirror of Hold::evaluate; `inc` is the timer increment of this frame -/
def holdStep (c : HoldCfg) (s : HoldSt) (x : Bool × Rat) : HoldSt × St :=
  let dur := if x.1 then s.dur + x.2 else 0
  let first := !s.fired
  let fired := decide (dur ≥ c.T)
  let out := if fired then (if first || !c.oneShot then St.fired else St.none)
             else if x.1 then St.ongoing else St.none
  ({ dur := dur, fired := fired }, out)

/-- held duration of the maximal trailing run of actuated frames; history newest-first -/
def held : List (Bool × Rat) → Rat
  | [] => 0
  | (a, d) :: rest => if a then held rest + d else 0

/-- declarative spec of the output at the newest frame; history newest-first, non-empty -/
def holdSpec (c : HoldCfg) : List (Bool × Rat) → St
  | [] => .none
  | (a, d) :: rest =>
    let h := held ((a, d) :: rest)
    if h ≥ c.T then (if !c.oneShot || held rest < c.T then .fired else .none)
    else if a then .ongoing else .none

def runHold (c : HoldCfg) : List (Bool × Rat) → HoldSt × St   -- history newest-first
  | [] => ({}, .none)
  | x :: rest => holdStep c (runHold c rest).1 x

theorem runHold_state (c : HoldCfg) (hT : 0 < c.T) (h : List (Bool × Rat)) :
    (runHold c h).1.dur = held h ∧ (runHold c h).1.fired = decide (held h ≥ c.T) := by
  induction h with
  | nil => simp [runHold, held]; grind
  | cons x rest ih =>
    obtain ⟨a, d⟩ := x
    simp only [runHold, holdStep, held, ih.1]
    cases a <;> simp

theorem hold_refines (c : HoldCfg) (hT : 0 < c.T) (h : List (Bool × Rat)) :
    (runHold c h).2 = holdSpec c h := by
  cases h with
  | nil => rfl
  | cons x rest =>
    obtain ⟨a, d⟩ := x
    have ih := runHold_state c hT rest
    simp only [runHold, holdStep, holdSpec, held, ih.1, ih.2]
    cases a <;> cases hc : c.oneShot <;> simp <;> grind

theorem hold_never_actuated (c : HoldCfg) (hT : 0 < c.T) (h : List (Bool × Rat)) (hn : ∀ x ∈ h, x.1 = false) :
    (runHold c h).2 = .none := by
  rw [hold_refines c hT]
  cases h with
  | nil => rfl
  | cons x rest =>
    obtain ⟨a, d⟩ := x
    have : a = false := hn (a, d) (by simp)
    subst this
    simp [holdSpec, held]; grind

theorem held_nonneg (h : List (Bool × Rat)) (hd : ∀ x ∈ h, 0 ≤ x.2) : 0 ≤ held h := by
  induction h with
  | nil => simp [held]
  | cons x rest ih =>
    obtain ⟨a, d⟩ := x
    have := ih (fun y hy => hd y (by simp [hy]))
    have hd0 := hd (a, d) (by simp)
    simp [held]; split <;> grind

#print axioms hold_refines
