inductive St | none | ongoing | fired
deriving DecidableEq, Repr

inductive Kind | explicit | implicit | blocker | evBlocker
deriving DecidableEq, Repr

structure Tr where
  nonzero : Bool          -- value.as_bool()
  foundExplicit : Bool := false
  anyExplicitFired : Bool := false
  foundActive : Bool := false
  foundImplicit : Bool := false
  allImplicitsFired : Bool := true
  blocked : Bool := false
  eventsBlocked : Bool := false
deriving Repr

def Tr.step (t : Tr) (r : Kind × St) : Tr :=
  match r.1 with
  | .explicit => { t with foundExplicit := true, anyExplicitFired := t.anyExplicitFired || r.2 == .fired,
                          foundActive := t.foundActive || r.2 != .none }
  | .implicit => { t with foundImplicit := true, allImplicitsFired := t.allImplicitsFired && r.2 == .fired,
                          foundActive := t.foundActive || r.2 != .none }
  | .blocker => { t with blocked := t.blocked || r.2 == .none }
  | .evBlocker => { t with eventsBlocked := t.eventsBlocked || r.2 == .none }

def Tr.state (t : Tr) : St :=
  if t.blocked then .none
  else if !t.foundExplicit && !t.foundImplicit then (if t.nonzero then .fired else .none)
  else if (!t.foundExplicit || t.anyExplicitFired) && t.allImplicitsFired then .fired
  else if t.foundActive then .ongoing else .none

/-- the law, transcribed from the property statement -/
def lawState (rs : List (Kind × St)) (nonzero : Bool) : St :=
  let expl := rs.filter (·.1 == .explicit)
  let impl := rs.filter (·.1 == .implicit)
  if rs.any (fun r => r.1 == .blocker && r.2 == .none) then .none
  else if expl.isEmpty && impl.isEmpty then (if nonzero then .fired else .none)
  else if impl.all (·.2 == .fired) && (expl.isEmpty || expl.any (·.2 == .fired)) then .fired
  else if (expl ++ impl).any (·.2 != .none) then .ongoing
  else .none

def lawEvBlocked (rs : List (Kind × St)) : Bool := rs.any (fun r => r.1 == .evBlocker && r.2 == .none)

/-- flags describe the processed prefix -/
structure TInv (t : Tr) (rs : List (Kind × St)) : Prop where
  fe : t.foundExplicit = !(rs.filter (·.1 == .explicit)).isEmpty
  ae : t.anyExplicitFired = (rs.filter (·.1 == .explicit)).any (·.2 == .fired)
  fi : t.foundImplicit = !(rs.filter (·.1 == .implicit)).isEmpty
  ai : t.allImplicitsFired = (rs.filter (·.1 == .implicit)).all (·.2 == .fired)
  fa : t.foundActive = ((rs.filter (·.1 == .explicit)).any (·.2 != .none) || (rs.filter (·.1 == .implicit)).any (·.2 != .none))
  bl : t.blocked = rs.any (fun r => r.1 == .blocker && r.2 == .none)
  eb : t.eventsBlocked = rs.any (fun r => r.1 == .evBlocker && r.2 == .none)

theorem inv_step (t : Tr) (rs : List (Kind × St)) (r : Kind × St) (h : TInv t rs) : TInv (t.step r) (rs ++ [r]) := by
  obtain ⟨k, s⟩ := r
  cases k <;> cases s <;> constructor <;> simp [Tr.step, List.filter_append, h.fe, h.ae, h.fi, h.ai, h.fa, h.bl, h.eb, Bool.or_comm] <;> grind

theorem inv_foldl (t : Tr) (pre rs : List (Kind × St)) (h : TInv t pre) : TInv (rs.foldl Tr.step t) (pre ++ rs) := by
  induction rs generalizing t pre with
  | nil => simpa using h
  | cons r rs ih =>
    have := ih (t.step r) (pre ++ [r]) (inv_step t pre r h)
    simpa [List.append_assoc] using this

theorem inv_new (nz : Bool) : TInv { nonzero := nz } [] := by constructor <;> simp

theorem state_of_inv (t : Tr) (rs) (h : TInv t rs) : t.state = lawState rs t.nonzero := by
  unfold Tr.state lawState
  simp only [h.fe, h.ae, h.fi, h.ai, h.fa, h.bl, List.any_append]
  grind


theorem step_nonzero (t : Tr) (r) : (t.step r).nonzero = t.nonzero := by
  obtain ⟨k, s⟩ := r; cases k <;> rfl

theorem foldl_nonzero (t : Tr) (rs : List (Kind × St)) : (rs.foldl Tr.step t).nonzero = t.nonzero := by
  induction rs generalizing t with
  | nil => rfl
  | cons r rs ih => simp [List.foldl, ih, step_nonzero]

theorem tracker_fold_law (nz : Bool) (rs : List (Kind × St)) :
    (rs.foldl Tr.step { nonzero := nz }).state = lawState rs nz ∧
    (rs.foldl Tr.step { nonzero := nz }).eventsBlocked = lawEvBlocked rs := by
  have h := inv_foldl { nonzero := nz } [] rs (inv_new nz)
  simp only [List.nil_append] at h
  refine ⟨?_, h.eb⟩
  rw [state_of_inv _ _ h, foldl_nonzero]

-- the pinned (pre-fix) fold: assignment instead of accumulation
def Tr.stepLegacy (t : Tr) (r : Kind × St) : Tr :=
  match r.1 with
  | .blocker => { t with blocked := r.2 == .none }
  | .evBlocker => { t with eventsBlocked := r.2 == .none }
  | _ => t.step r

theorem legacy_counterexample :
    ([(Kind.blocker, St.none), (Kind.blocker, St.fired)].foldl Tr.stepLegacy { nonzero := true }).state
      ≠ lawState [(Kind.blocker, St.none), (Kind.blocker, St.fired)] true := by decide

#print axioms tracker_fold_law
#print axioms legacy_counterexample
