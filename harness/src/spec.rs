//! Batch-file parser (PROTOCOL.md §3 and §5).
//!
//! The whole batch is parsed up front; the first malformed line aborts the run.

use std::collections::{HashMap, HashSet};
use std::sync::Arc;

use bevy_enhanced_input::prelude::*;

use crate::num::*;

#[derive(Clone, Debug)]
pub enum InputSpec {
    Key(usize, u8),
    MBtn(usize, u8),
    Motion(u8),
    Wheel(u8),
    PadBtn(usize),
    PadAxis(usize),
}

#[derive(Clone, Debug)]
pub enum ModSpec {
    Negate(bool, bool, bool),
    Scale(f32, f32, f32),
    Swizzle(usize),
    DzAxial(f32, f32),
    DzRadial(f32, f32),
    Exp(f32, f32, f32),
    DScale,
    DLerp(f32),
    AccBy(usize),
    SConv(ActionValueDim),
    SAdd(ActionValueDim, f32, f32, f32),
}

#[derive(Clone, Debug)]
pub enum CondSpec {
    Press(f32),
    JustPress(f32),
    Release(f32),
    Hold {
        time: f32,
        one_shot: bool,
        act: f32,
        rel: bool,
    },
    HoldRel {
        time: f32,
        act: f32,
        rel: bool,
    },
    Tap {
        time: f32,
        act: f32,
        rel: bool,
    },
    Pulse {
        interval: f32,
        limit: u32,
        on_start: bool,
        act: f32,
        rel: bool,
    },
    Chord(usize),
    BlockBy(usize, bool),
    SScript(u8, Vec<ActionState>),
    SAct(u8, ActionState, ActionState),
}

#[derive(Clone, Debug)]
pub struct InputCfg {
    pub spec: InputSpec,
    pub mods: Vec<(u64, ModSpec)>,
    pub conds: Vec<(u64, CondSpec)>,
}

/// `<key index>:<mod mask>`.
pub type KeyMod = (usize, u8);

/// A field of a preset: `<k>:<m>` key, `y<k>:<m>` key carrying its own `SwizzleAxis::YXZ`, `s0|s1` nested stick preset,
/// `x<axis>` gamepad axis, `b<button>` gamepad button.
#[derive(Clone, Copy, Debug)]
pub enum Field {
    Key(KeyMod),
    KeyY(KeyMod),
    Stick(u8),
    Axis(usize),
    Btn(usize),
}

/// One item of an `act` block handed to `ActionBind::to`.
#[derive(Clone, Debug)]
pub enum Item {
    In(InputCfg),
    /// north east south west
    Cardinal([Field; 4]),
    /// positive negative
    Bidir([Field; 2]),
    /// 0 = left, 1 = right
    Stick(u8),
    /// `Cardinal::wasd_keys()`
    Wasd,
    /// `Cardinal::dpad_buttons()`
    Dpad,
}

/// The lines from one `act <a>` line up to the next `act`/`ctx`/first op.
#[derive(Clone, Debug)]
pub struct ActBlock {
    pub a: usize,
    /// How the items are handed to the API (0..5).
    pub route: u8,
    pub emods: Vec<(u64, ModSpec)>,
    pub econds: Vec<(u64, CondSpec)>,
    pub amods: Vec<(u64, ModSpec)>,
    pub aconds: Vec<(u64, CondSpec)>,
    pub items: Vec<Item>,
}

#[derive(Clone, Debug, Default)]
pub struct CtxCfg {
    /// `None` = any gamepad, `Some(g)` = gamepad handle.
    pub pad: Option<u32>,
    pub blocks: Vec<ActBlock>,
}

#[derive(Debug, Default)]
pub struct ScnCfg {
    pub ctxs: HashMap<(usize, u8), CtxCfg>,
}

/// Lifecycle operation usable directly, from `react` and from `post`.
#[derive(Clone, Debug)]
pub enum LifeOp {
    Insert(u32, usize, u8),
    Remove(u32, usize),
    Despawn(u32),
    Rebuild,
}

#[derive(Clone, Copy, Debug, PartialEq)]
pub enum InjectMode {
    /// `ButtonInput::press/release` at the op line.
    Direct,
    /// `KeyboardInput` / `MouseButtonInput` events sent before the next frame.
    Events,
    /// `ButtonInput::press/release` from a system in `First` of the next frame.
    First,
}

#[derive(Clone, Copy, Debug, PartialEq)]
pub enum UiState {
    None,
    Hovered,
    Pressed,
    Gone,
}

#[derive(Clone, Debug)]
pub enum Op {
    Spawn(u32),
    Life(LifeOp),
    Key(usize, bool),
    Mb(usize, bool),
    Motion(f32, f32),
    Wheel(f32, f32),
    PadAdd(u32),
    PadDel(u32),
    PadBtn(u32, usize, bool),
    PadAxis(u32, usize, f32),
    Ui(u32, UiState),
    Dt(f64),
    Speed(f32),
    Pause(bool),
    Inject(InjectMode),
    React(u64, u64, LifeOp),
    /// `reactev <frame> <e> <a> <kind> <op>`: issued when the observer first sees that event in that frame.
    ReactEv(u64, u32, usize, String, LifeOp),
    Post(LifeOp),
    Frame,
}

#[derive(Clone, Debug)]
pub enum UOp {
    Convert(ActionValue, ActionValueDim),
    AsBool(ActionValue),
    Actuated(ActionValue, f32),
    As1(ActionValue),
    As2(ActionValue),
    As3(ActionValue),
    Zero(ActionValueDim),
    Mod(ModSpec),
    Cond(CondSpec),
    Act(usize, ActionState),
    Tick(f32, f32),
    Apply(ActionValue),
    Eval(ActionValue),
}

#[derive(Debug)]
pub enum Body {
    App {
        cfg: Arc<ScnCfg>,
        /// `(canonical line, op)`.
        ops: Vec<(String, Op)>,
    },
    Unit(Vec<UOp>),
}

#[derive(Debug)]
pub struct Scenario {
    pub name: String,
    pub body: Body,
}

#[derive(Debug)]
pub struct ParseError {
    pub lineno: usize,
    pub text: String,
}

fn handle(s: &str) -> Option<u32> {
    let v = parse_uint(s)?;
    u32::try_from(v).ok()
}

fn qf(s: &str) -> Option<f32> {
    parse_q(s).map(Q::f32)
}

fn state(s: &str) -> Option<ActionState> {
    Some(match s {
        "0" => ActionState::None,
        "1" => ActionState::Ongoing,
        "2" => ActionState::Fired,
        _ => return None,
    })
}

fn kind(s: &str) -> Option<u8> {
    parse_idx(s, 3).map(|k| k as u8)
}

pub const MAX_KEY: u64 = 17;
pub const MAX_MODMASK: u64 = 15;
pub const MAX_MBTN: u64 = 2;
pub const MAX_PADBTN: u64 = 7;
pub const MAX_PADAXIS: u64 = 3;
pub const MAX_CTX: u64 = 5;
pub const MAX_VARIANT: u64 = 3;
pub const MAX_ACT: u64 = 31;

fn parse_input(t: &[&str]) -> Option<InputSpec> {
    Some(match t {
        ["key", k, m] => InputSpec::Key(parse_idx(k, MAX_KEY)?, parse_idx(m, MAX_MODMASK)? as u8),
        ["mbtn", b, m] => {
            InputSpec::MBtn(parse_idx(b, MAX_MBTN)?, parse_idx(m, MAX_MODMASK)? as u8)
        }
        ["motion", m] => InputSpec::Motion(parse_idx(m, MAX_MODMASK)? as u8),
        ["wheel", m] => InputSpec::Wheel(parse_idx(m, MAX_MODMASK)? as u8),
        ["padbtn", b] => InputSpec::PadBtn(parse_idx(b, MAX_PADBTN)?),
        ["padaxis", x] => InputSpec::PadAxis(parse_idx(x, MAX_PADAXIS)?),
        _ => return None,
    })
}

fn key_mod(s: &str) -> Option<KeyMod> {
    let (k, m) = s.split_once(':')?;
    Some((parse_idx(k, MAX_KEY)?, parse_idx(m, MAX_MODMASK)? as u8))
}

fn field(s: &str) -> Option<Field> {
    Some(if let Some(rest) = s.strip_prefix('y') {
        Field::KeyY(key_mod(rest)?)
    } else if s == "s0" {
        Field::Stick(0)
    } else if s == "s1" {
        Field::Stick(1)
    } else if let Some(rest) = s.strip_prefix('x') {
        Field::Axis(parse_idx(rest, MAX_PADAXIS)?)
    } else if let Some(rest) = s.strip_prefix('b') {
        Field::Btn(parse_idx(rest, MAX_PADBTN)?)
    } else {
        Field::Key(key_mod(s)?)
    })
}

fn parse_preset(t: &[&str]) -> Option<Item> {
    Some(match t {
        ["cardinal", n, e, s, w] => Item::Cardinal([field(n)?, field(e)?, field(s)?, field(w)?]),
        ["bidir", p, n] => Item::Bidir([field(p)?, field(n)?]),
        ["wasd"] => Item::Wasd,
        ["dpad"] => Item::Dpad,
        ["stick", "0"] => Item::Stick(0),
        ["stick", "1"] => Item::Stick(1),
        _ => return None,
    })
}

fn parse_mod(t: &[&str]) -> Option<ModSpec> {
    Some(match t {
        ["negate", x, y, z] => ModSpec::Negate(parse_flag(x)?, parse_flag(y)?, parse_flag(z)?),
        ["scale", x, y, z] => ModSpec::Scale(qf(x)?, qf(y)?, qf(z)?),
        ["swizzle", s] => ModSpec::Swizzle(parse_idx(s, 4)?),
        ["dzaxial", lo, hi] => ModSpec::DzAxial(qf(lo)?, qf(hi)?),
        ["dzradial", lo, hi] => ModSpec::DzRadial(qf(lo)?, qf(hi)?),
        ["exp", x, y, z] => ModSpec::Exp(qf(x)?, qf(y)?, qf(z)?),
        ["dscale"] => ModSpec::DScale,
        ["dlerp", s] => ModSpec::DLerp(qf(s)?),
        ["accby", a] => ModSpec::AccBy(parse_idx(a, MAX_ACT)?),
        ["sconv", d] => ModSpec::SConv(parse_dim(d)?),
        ["sadd", d, x, y, z] => ModSpec::SAdd(parse_dim(d)?, qf(x)?, qf(y)?, qf(z)?),
        _ => return None,
    })
}

fn parse_cond(t: &[&str]) -> Option<CondSpec> {
    Some(match t {
        ["press", a] => CondSpec::Press(qf(a)?),
        ["justpress", a] => CondSpec::JustPress(qf(a)?),
        ["release", a] => CondSpec::Release(qf(a)?),
        ["hold", time, one_shot, act, rel] => CondSpec::Hold {
            time: qf(time)?,
            one_shot: parse_flag(one_shot)?,
            act: qf(act)?,
            rel: parse_flag(rel)?,
        },
        ["holdrel", time, act, rel] => CondSpec::HoldRel {
            time: qf(time)?,
            act: qf(act)?,
            rel: parse_flag(rel)?,
        },
        ["tap", time, act, rel] => CondSpec::Tap {
            time: qf(time)?,
            act: qf(act)?,
            rel: parse_flag(rel)?,
        },
        ["pulse", interval, limit, on_start, act, rel] => CondSpec::Pulse {
            interval: qf(interval)?,
            limit: u32::try_from(parse_uint(limit)?).ok()?,
            on_start: parse_flag(on_start)?,
            act: qf(act)?,
            rel: parse_flag(rel)?,
        },
        ["chord", a] => CondSpec::Chord(parse_idx(a, MAX_ACT)?),
        ["blockby", a, eo] => CondSpec::BlockBy(parse_idx(a, MAX_ACT)?, parse_flag(eo)?),
        ["sscript", k, rest @ ..] if !rest.is_empty() => CondSpec::SScript(
            kind(k)?,
            rest.iter().map(|r| state(r)).collect::<Option<Vec<_>>>()?,
        ),
        ["sact", k, rt, rf] => CondSpec::SAct(kind(k)?, state(rt)?, state(rf)?),
        _ => return None,
    })
}

fn parse_life(t: &[&str]) -> Option<LifeOp> {
    Some(match t {
        ["insert", e, c, v] => LifeOp::Insert(
            handle(e)?,
            parse_idx(c, MAX_CTX)?,
            parse_idx(v, MAX_VARIANT)? as u8,
        ),
        ["remove", e, c] => LifeOp::Remove(handle(e)?, parse_idx(c, MAX_CTX)?),
        ["despawn", e] => LifeOp::Despawn(handle(e)?),
        ["rebuild"] => LifeOp::Rebuild,
        _ => return None,
    })
}

fn nonneg(s: &str) -> Option<Q> {
    parse_q(s).filter(|q| !q.is_negative())
}

fn parse_op(t: &[&str]) -> Option<Op> {
    Some(match t {
        ["spawn", e] => Op::Spawn(handle(e)?),
        ["insert" | "remove" | "despawn" | "rebuild", ..] => Op::Life(parse_life(t)?),
        ["key", k, s] => Op::Key(parse_idx(k, MAX_KEY)?, parse_flag(s)?),
        ["mb", b, s] => Op::Mb(parse_idx(b, MAX_MBTN)?, parse_flag(s)?),
        ["motion", x, y] => Op::Motion(qf(x)?, qf(y)?),
        ["wheel", x, y] => Op::Wheel(qf(x)?, qf(y)?),
        ["pad+", g] => Op::PadAdd(handle(g)?),
        ["pad-", g] => Op::PadDel(handle(g)?),
        ["padbtn", g, b, s] => Op::PadBtn(handle(g)?, parse_idx(b, MAX_PADBTN)?, parse_flag(s)?),
        ["padaxis", g, x, q] => Op::PadAxis(handle(g)?, parse_idx(x, MAX_PADAXIS)?, qf(q)?),
        ["ui", u, s] => Op::Ui(
            handle(u)?,
            match *s {
                "none" => UiState::None,
                "hovered" => UiState::Hovered,
                "pressed" => UiState::Pressed,
                "gone" => UiState::Gone,
                _ => return None,
            },
        ),
        ["dt", q] => Op::Dt(nonneg(q)?.f64()),
        ["speed", q] => Op::Speed(nonneg(q)?.f32()),
        ["pause", p] => Op::Pause(parse_flag(p)?),
        ["inject", "direct"] => Op::Inject(InjectMode::Direct),
        ["inject", "events"] => Op::Inject(InjectMode::Events),
        ["inject", "first"] => Op::Inject(InjectMode::First),
        ["react", f, k, rest @ ..] => Op::React(parse_uint(f)?, parse_uint(k)?, parse_life(rest)?),
        ["reactev", f, e, a, kind, rest @ ..] => {
            if !["started", "ongoing", "fired", "canceled", "completed"].contains(kind) {
                return None;
            }
            Op::ReactEv(
                parse_uint(f)?,
                handle(e)?,
                parse_idx(a, MAX_ACT)?,
                kind.to_string(),
                parse_life(rest)?,
            )
        }
        ["post", rest @ ..] => Op::Post(parse_life(rest)?),
        ["frame"] => Op::Frame,
        _ => return None,
    })
}

fn parse_u(t: &[&str]) -> Option<UOp> {
    Some(match t {
        ["u", "convert", v, d] => UOp::Convert(parse_value(v)?, parse_dim(d)?),
        ["u", "asbool", v] => UOp::AsBool(parse_value(v)?),
        ["u", "actuated", v, q] => UOp::Actuated(parse_value(v)?, qf(q)?),
        ["u", "as1", v] => UOp::As1(parse_value(v)?),
        ["u", "as2", v] => UOp::As2(parse_value(v)?),
        ["u", "as3", v] => UOp::As3(parse_value(v)?),
        ["u", "zero", d] => UOp::Zero(parse_dim(d)?),
        ["umod", rest @ ..] => UOp::Mod(parse_mod(rest)?),
        ["ucond", rest @ ..] => UOp::Cond(parse_cond(rest)?),
        ["uact", a, s] => UOp::Act(parse_idx(a, MAX_ACT)?, state(s)?),
        ["utick", vdelta, speed] => UOp::Tick(nonneg(vdelta)?.f32(), nonneg(speed)?.f32()),
        ["uapply", v] => UOp::Apply(parse_value(v)?),
        ["ueval", v] => UOp::Eval(parse_value(v)?),
        _ => return None,
    })
}

#[derive(PartialEq)]
enum Kind {
    Undecided,
    App,
    Unit,
}

/// Parser state of the scenario being read.
struct Open {
    name: String,
    kind: Kind,
    // App scenario.
    ctxs: HashMap<(usize, u8), CtxCfg>,
    cur_ctx: Option<(usize, u8)>,
    /// The previous configuration line was the `act` line of the current block.
    after_act: bool,
    ops: Vec<(String, Op)>,
    spawned: HashSet<u32>,
    live_pads: HashSet<u32>,
    // Unit scenario.
    uops: Vec<UOp>,
    has_mod: bool,
    has_cond: bool,
}

impl Open {
    fn new(name: &str) -> Self {
        Self {
            name: name.to_string(),
            kind: Kind::Undecided,
            ctxs: HashMap::new(),
            cur_ctx: None,
            after_act: false,
            ops: Vec::new(),
            spawned: HashSet::new(),
            live_pads: HashSet::new(),
            uops: Vec::new(),
            has_mod: false,
            has_cond: false,
        }
    }

    fn set_kind(&mut self, kind: Kind) -> Option<()> {
        if self.kind == Kind::Undecided {
            self.kind = kind;
            Some(())
        } else {
            (self.kind == kind).then_some(())
        }
    }

    /// The current `act` block.
    fn block(&mut self) -> Option<&mut ActBlock> {
        let key = self.cur_ctx?;
        self.ctxs.get_mut(&key)?.blocks.last_mut()
    }

    /// Adds an item to the current block.
    fn push_item(&mut self, item: Item) -> Option<()> {
        let block = self.block()?;
        let preset = !matches!(item, Item::In(_));
        match block.route {
            // Tuples of 1..8 items.
            1 | 2 if block.items.len() >= 8 => return None,
            // Plain inputs only.
            4 | 5 if preset => return None,
            _ => (),
        }
        block.items.push(item);
        Some(())
    }

    /// The current input: the last item of the block, if it is an `in` item.
    fn input(&mut self) -> Option<&mut InputCfg> {
        let block = self.block()?;
        if matches!(block.route, 4 | 5) {
            // Plain inputs only.
            return None;
        }
        match block.items.last_mut()? {
            Item::In(input) => Some(input),
            _ => None,
        }
    }

    fn config_line(&mut self, t: &[&str]) -> Option<()> {
        self.set_kind(Kind::App)?;
        if !self.ops.is_empty() {
            // Configuration must precede the first operation.
            return None;
        }
        let after_act = std::mem::replace(&mut self.after_act, false);
        match t {
            ["ctx", c, v, sel @ ..] => {
                let key = (parse_idx(c, MAX_CTX)?, parse_idx(v, MAX_VARIANT)? as u8);
                let pad = match sel {
                    ["any"] => None,
                    ["pad", g] => Some(handle(g)?),
                    _ => return None,
                };
                if self.ctxs.contains_key(&key) {
                    return None;
                }
                self.ctxs.insert(
                    key,
                    CtxCfg {
                        pad,
                        blocks: Vec::new(),
                    },
                );
                self.cur_ctx = Some(key);
            }
            ["act", a] => {
                let a = parse_idx(a, MAX_ACT)?;
                let key = self.cur_ctx?;
                self.ctxs.get_mut(&key)?.blocks.push(ActBlock {
                    a,
                    route: 0,
                    emods: Vec::new(),
                    econds: Vec::new(),
                    amods: Vec::new(),
                    aconds: Vec::new(),
                    items: Vec::new(),
                });
                self.after_act = true;
            }
            ["route", r] => {
                let route = parse_idx(r, 5)? as u8;
                if !after_act {
                    return None;
                }
                self.block()?.route = route;
            }
            ["emod", id, rest @ ..] => {
                let (id, spec) = (parse_uint(id)?, parse_mod(rest)?);
                let block = self.block()?;
                if !block.items.is_empty() {
                    return None;
                }
                block.emods.push((id, spec));
            }
            ["econd", id, rest @ ..] => {
                let (id, spec) = (parse_uint(id)?, parse_cond(rest)?);
                let block = self.block()?;
                if !block.items.is_empty() {
                    return None;
                }
                block.econds.push((id, spec));
            }
            ["amod", id, rest @ ..] => {
                let (id, spec) = (parse_uint(id)?, parse_mod(rest)?);
                self.block()?.amods.push((id, spec));
            }
            ["acond", id, rest @ ..] => {
                let (id, spec) = (parse_uint(id)?, parse_cond(rest)?);
                self.block()?.aconds.push((id, spec));
            }
            ["in", rest @ ..] => {
                let spec = parse_input(rest)?;
                self.push_item(Item::In(InputCfg {
                    spec,
                    mods: Vec::new(),
                    conds: Vec::new(),
                }))?;
            }
            ["preset", rest @ ..] => {
                let item = parse_preset(rest)?;
                self.push_item(item)?;
            }
            ["imod", id, rest @ ..] => {
                let (id, spec) = (parse_uint(id)?, parse_mod(rest)?);
                self.input()?.mods.push((id, spec));
            }
            ["icond", id, rest @ ..] => {
                let (id, spec) = (parse_uint(id)?, parse_cond(rest)?);
                self.input()?.conds.push((id, spec));
            }
            _ => return None,
        }
        Some(())
    }

    fn op_line(&mut self, t: &[&str]) -> Option<()> {
        self.set_kind(Kind::App)?;
        let op = parse_op(t)?;
        match op {
            Op::Spawn(e) => {
                if !self.spawned.insert(e) {
                    return None;
                }
            }
            Op::PadAdd(g) => {
                if !self.live_pads.insert(g) {
                    return None;
                }
            }
            Op::PadDel(g) => {
                self.live_pads.remove(&g);
            }
            _ => (),
        }
        self.ops.push((t.join(" "), op));
        Some(())
    }

    fn unit_line(&mut self, t: &[&str]) -> Option<()> {
        self.set_kind(Kind::Unit)?;
        let op = parse_u(t)?;
        match op {
            UOp::Mod(_) => self.has_mod = true,
            UOp::Cond(_) => self.has_cond = true,
            UOp::Apply(_) if !self.has_mod => return None,
            UOp::Eval(_) if !self.has_cond => return None,
            _ => (),
        }
        self.uops.push(op);
        Some(())
    }

    fn line(&mut self, t: &[&str]) -> Option<()> {
        match t[0] {
            "ctx" | "act" | "route" | "emod" | "econd" | "amod" | "acond" | "in" | "preset"
            | "imod" | "icond" => self.config_line(t),
            "u" | "umod" | "ucond" | "uact" | "utick" | "uapply" | "ueval" => self.unit_line(t),
            _ => self.op_line(t),
        }
    }

    fn finish(self) -> Scenario {
        let body = match self.kind {
            Kind::Unit => Body::Unit(self.uops),
            _ => Body::App {
                cfg: Arc::new(ScnCfg { ctxs: self.ctxs }),
                ops: self.ops,
            },
        };
        Scenario {
            name: self.name,
            body,
        }
    }
}

/// Parses a whole batch. Empty lines and lines starting with `#` are skipped.
pub fn parse_batch(text: &str) -> Result<Vec<Scenario>, ParseError> {
    let mut scenarios = Vec::new();
    let mut open: Option<Open> = None;
    let mut count = 0;
    for (index, raw) in text.lines().enumerate() {
        count = index + 1;
        let line = raw.strip_suffix('\r').unwrap_or(raw);
        if line.is_empty() || line.starts_with('#') {
            continue;
        }
        let err = || ParseError {
            lineno: index + 1,
            text: line.to_string(),
        };
        let tokens: Vec<&str> = line.split(' ').collect();
        if tokens.iter().any(|token| token.is_empty()) {
            return Err(err());
        }
        match (&mut open, tokens.as_slice()) {
            (None, ["scenario", name]) => open = Some(Open::new(name)),
            (Some(_), ["endscenario"]) => scenarios.push(open.take().unwrap().finish()),
            (Some(_), ["scenario", ..]) | (None, _) => return Err(err()),
            (Some(scenario), t) => scenario.line(t).ok_or_else(err)?,
        }
    }
    if open.is_some() {
        return Err(ParseError {
            lineno: count + 1,
            text: "eof".into(),
        });
    }
    Ok(scenarios)
}
