//! `bei_harness --tables`: the crate's small tables and defaults, obtained by *executing* the public API.
//!
//! `tools/extract.py` reads these tables from the source text; when a fragment can no longer be parsed there
//! (a harmless rewrite), it falls back to what this prints.

use std::io::Write;

use bevy_enhanced_input::input_context::input_condition::DEFAULT_ACTUATION;
use bevy_enhanced_input::prelude::*;

use crate::num::fmt_f32;

fn state_name(state: ActionState) -> &'static str {
    match state {
        ActionState::None => "None",
        ActionState::Ongoing => "Ongoing",
        ActionState::Fired => "Fired",
    }
}

pub fn print_tables(out: &mut impl Write) {
    let mut states = [ActionState::Fired, ActionState::None, ActionState::Ongoing];
    states.sort();
    let names: Vec<_> = states.iter().map(|&state| state_name(state)).collect();
    let _ = writeln!(out, "stateOrder {}", names.join(" "));

    let flags: Vec<_> = ActionEvents::all()
        .iter_names()
        .map(|(name, flag)| format!("{name}={}", flag.bits()))
        .collect();
    let _ = writeln!(out, "flags {}", flags.join(" "));

    for previous in [ActionState::None, ActionState::Ongoing, ActionState::Fired] {
        for current in [ActionState::None, ActionState::Ongoing, ActionState::Fired] {
            let events: Vec<_> = ActionEvents::new(previous, current)
                .iter_names()
                .map(|(name, _)| name.to_string())
                .collect();
            let _ = writeln!(
                out,
                "table {} {} {}",
                state_name(previous),
                state_name(current),
                events.join(" ")
            );
        }
    }

    for (name, flag) in ModKeys::all().iter_names() {
        let keys: Vec<_> = flag
            .iter_keys()
            .flat_map(|pair| pair.into_iter())
            .map(|key| format!("{key:?}"))
            .collect();
        let _ = writeln!(out, "modkey {name} {} {}", flag.bits(), keys.join(" "));
    }

    let _ = writeln!(out, "defaultActuation {}", fmt_f32(DEFAULT_ACTUATION));
    let dead_zone = DeadZone::default();
    let _ = writeln!(out, "dzLower {}", fmt_f32(dead_zone.lower_threshold));
    let _ = writeln!(out, "dzUpper {}", fmt_f32(dead_zone.upper_threshold));
    let _ = writeln!(out, "dlerpSpeed {}", fmt_f32(DeltaLerp::default().speed));
}
