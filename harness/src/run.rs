//! Runs an App scenario and prints its trace (PROTOCOL.md §3.2 and §4).

use std::collections::{BTreeMap, HashMap};
use std::io::Write;
use std::sync::Arc;
use std::time::Duration;

use bevy::{
    input::{
        keyboard::{Key, KeyboardInput, NativeKey},
        mouse::{MouseButtonInput, MouseMotion, MouseScrollUnit, MouseWheel},
        ButtonState, InputPlugin, InputSystem,
    },
    app::MainScheduleOrder,
    ecs::schedule::{NodeId, ScheduleLabel, Schedules},
    prelude::*,
    time::TimeUpdateStrategy,
    ui::Interaction,
};
use bevy_enhanced_input::prelude::*;

use crate::build::CfgRes;
use crate::num::{fmt_f32, fmt_state, fmt_value};
use crate::pool::*;
use crate::shared::shared;
use crate::spec::*;

macro_rules! p {
    ($out:expr, $($arg:tt)*) => {
        let _ = writeln!($out, $($arg)*);
    };
}

fn opt_f32(value: Option<f32>) -> String {
    value.map(fmt_f32).unwrap_or_else(|| "-".into())
}

/// Issues a lifecycle op through `Commands` (used by `react` and `post`).
fn issue(commands: &mut Commands, op: &LifeOp, entities: &HashMap<u32, Entity>) {
    match *op {
        LifeOp::Insert(e, c, v) => {
            let Some(&entity) = entities.get(&e) else {
                return;
            };
            if let Some(mut entity) = commands.get_entity(entity) {
                with_ctx!(c, C => {
                    entity.insert(Ctx::<C>(v));
                });
            }
        }
        LifeOp::Remove(e, c) => {
            let Some(&entity) = entities.get(&e) else {
                return;
            };
            if let Some(mut entity) = commands.get_entity(entity) {
                with_ctx!(c, C => {
                    entity.remove::<Ctx<C>>();
                });
            }
        }
        LifeOp::Despawn(e) => {
            let Some(&entity) = entities.get(&e) else {
                return;
            };
            if let Some(mut entity) = commands.get_entity(entity) {
                entity.despawn();
            }
        }
        LifeOp::Rebuild => commands.trigger(RebuildInputContexts),
    }
}

/// Applies a lifecycle op directly on the world and flushes.
fn apply_direct(world: &mut World, op: &LifeOp, entities: &BTreeMap<u32, Entity>) {
    match *op {
        LifeOp::Insert(e, c, v) => {
            if let Some(&entity) = entities.get(&e) {
                if let Ok(mut entity) = world.get_entity_mut(entity) {
                    with_ctx!(c, C => {
                        entity.insert(Ctx::<C>(v));
                    });
                }
            }
        }
        LifeOp::Remove(e, c) => {
            if let Some(&entity) = entities.get(&e) {
                if let Ok(mut entity) = world.get_entity_mut(entity) {
                    with_ctx!(c, C => {
                        entity.remove::<Ctx<C>>();
                    });
                }
            }
        }
        LifeOp::Despawn(e) => {
            if let Some(&entity) = entities.get(&e) {
                if world.get_entity(entity).is_ok() {
                    world.despawn(entity);
                }
            }
        }
        LifeOp::Rebuild => world.trigger(RebuildInputContexts),
    }
    world.flush();
}

/// Logs a delivery and runs the `react` entries that match it.
#[allow(clippy::too_many_arguments)]
fn deliver(
    a: usize,
    entity: Entity,
    kind: &str,
    state: ActionState,
    value: ActionValue,
    elapsed: Option<f32>,
    fired: Option<f32>,
    commands: &mut Commands,
) {
    let mut ops = Vec::new();
    let entities;
    {
        let mut sh = shared();
        let handle = sh
            .handles
            .get(&entity)
            .map(|handle| handle.to_string())
            .unwrap_or_else(|| "?".into());
        sh.dlv.push(format!(
            "dlv {handle} {a} {kind} {} {} {} {}",
            fmt_state(state),
            fmt_value(value),
            opt_f32(elapsed),
            opt_f32(fired),
        ));
        if !sh.in_update {
            return;
        }
        let k = sh.delivered;
        sh.delivered += 1;
        let frame = sh.frame;
        for (react_frame, react_k, op) in &sh.reacts {
            if *react_frame == frame && *react_k == k {
                ops.push(op.clone());
            }
        }
        let handle_number = sh.handles.get(&entity).copied();
        for (react_frame, e, act, react_kind, op, fired) in sh.reactevs.iter_mut() {
            if !*fired
                && *react_frame == frame
                && Some(*e) == handle_number
                && *act == a
                && react_kind.as_str() == kind
            {
                *fired = true;
                ops.push(op.clone());
            }
        }
        if ops.is_empty() {
            return;
        }
        entities = sh.entities.clone();
    }
    for op in &ops {
        issue(commands, op, &entities);
    }
}

fn register<A: InputAction + ActIdx>(app: &mut App)
where
    A::Output: Into<ActionValue>,
{
    app.add_observer(|t: Trigger<Started<A>>, mut commands: Commands| {
        let e = t.event();
        deliver(A::IDX, t.entity(), "started", e.state, e.value.into(), None, None, &mut commands);
    });
    app.add_observer(|t: Trigger<Ongoing<A>>, mut commands: Commands| {
        let e = t.event();
        let elapsed = Some(e.elapsed_secs);
        deliver(A::IDX, t.entity(), "ongoing", e.state, e.value.into(), elapsed, None, &mut commands);
    });
    app.add_observer(|t: Trigger<Fired<A>>, mut commands: Commands| {
        let e = t.event();
        let (elapsed, fired) = (Some(e.elapsed_secs), Some(e.fired_secs));
        deliver(A::IDX, t.entity(), "fired", e.state, e.value.into(), elapsed, fired, &mut commands);
    });
    app.add_observer(|t: Trigger<Canceled<A>>, mut commands: Commands| {
        let e = t.event();
        let elapsed = Some(e.elapsed_secs);
        deliver(A::IDX, t.entity(), "canceled", e.state, e.value.into(), elapsed, None, &mut commands);
    });
    app.add_observer(|t: Trigger<Completed<A>>, mut commands: Commands| {
        let e = t.event();
        let (elapsed, fired) = (Some(e.elapsed_secs), Some(e.fired_secs));
        deliver(A::IDX, t.entity(), "completed", e.state, e.value.into(), elapsed, fired, &mut commands);
    });
}

macro_rules! register_all {
    ($app:expr, $($n:literal)*) => {
        $( register::<Act<$n>>($app); )*
    };
}

/// Issues pending `post` ops through `Commands` from `Update`.
fn post_system(mut commands: Commands) {
    let (ops, entities) = {
        let mut sh = shared();
        if sh.posts.is_empty() {
            return;
        }
        (std::mem::take(&mut sh.posts), sh.entities.clone())
    };
    for op in &ops {
        issue(&mut commands, op, &entities);
    }
}

/// Applies the `key`/`mb` ops issued in `inject first` mode from the `First` schedule.
fn first_inject_system(
    mut keys: ResMut<ButtonInput<KeyCode>>,
    mut buttons: ResMut<ButtonInput<MouseButton>>,
) {
    let (key_ops, button_ops) = {
        let mut sh = shared();
        (
            std::mem::take(&mut sh.first_keys),
            std::mem::take(&mut sh.first_buttons),
        )
    };
    for (k, pressed) in key_ops {
        if pressed {
            keys.press(KEYS[k]);
        } else {
            keys.release(KEYS[k]);
        }
    }
    for (b, pressed) in button_ops {
        if pressed {
            buttons.press(MOUSE_BUTTONS[b]);
        } else {
            buttons.release(MOUSE_BUTTONS[b]);
        }
    }
}

/// Probe in `PreUpdate` after `EnhancedInputSystem`.
fn probe_pre_system() {
    let mut sh = shared();
    sh.probe_pre = Some(sh.delivered);
}

/// Probe in `Update`.
fn probe_update_system() {
    let mut sh = shared();
    sh.probe_update = Some(sh.delivered);
}

/// Establishes the `sched` facts by introspection of the real `App`.
fn sched_facts(app: &App) -> String {
    let world = app.world();
    let mut eis_in_preupdate = false;
    let mut inputsystem_before_eis = false;
    if let Some(schedule) = world
        .get_resource::<Schedules>()
        .and_then(|schedules| schedules.get(PreUpdate))
    {
        let graph = schedule.graph();
        let eis = EnhancedInputSystem.intern();
        let input = InputSystem.intern();
        let mut eis_node = None;
        let mut input_node = None;
        for (id, set, _) in graph.system_sets() {
            if set.as_dyn_eq().dyn_eq(eis.as_dyn_eq()) {
                eis_node = Some(id);
            }
            if set.as_dyn_eq().dyn_eq(input.as_dyn_eq()) {
                input_node = Some(id);
            }
        }

        if let Some(eis_node) = eis_node {
            // Any system below the set in the hierarchy graph.
            let hierarchy = graph.hierarchy().graph();
            let mut stack: Vec<NodeId> = vec![eis_node];
            let mut seen: Vec<NodeId> = Vec::new();
            while let Some(node) = stack.pop() {
                if seen.contains(&node) {
                    continue;
                }
                seen.push(node);
                for (from, to, _) in hierarchy.all_edges() {
                    if from == node {
                        if to.is_system() {
                            eis_in_preupdate = true;
                        } else {
                            stack.push(to);
                        }
                    }
                }
            }

            if let Some(input_node) = input_node {
                inputsystem_before_eis = graph
                    .dependency()
                    .graph()
                    .all_edges()
                    .any(|(from, to, _)| from == input_node && to == eis_node);
            }
        }
    }

    let mut preupdate_before_update = false;
    if let Some(order) = world.get_resource::<MainScheduleOrder>() {
        let position = |label: bevy::ecs::schedule::InternedScheduleLabel| {
            order.labels.iter().position(|other| *other == label)
        };
        if let (Some(first), Some(pre_update), Some(update)) = (
            position(First.intern()),
            position(PreUpdate.intern()),
            position(Update.intern()),
        ) {
            preupdate_before_update = first < pre_update && pre_update < update;
        }
    }

    let token = |holds: bool, name: &str| {
        if holds {
            name.to_string()
        } else {
            format!("!{name}")
        }
    };
    format!(
        "sched {} {} {}",
        token(eis_in_preupdate, "eis_in_preupdate"),
        token(inputsystem_before_eis, "inputsystem_before_eis"),
        token(preupdate_before_update, "preupdate_before_update"),
    )
}

struct Runner {
    app: App,
    frame: u64,
    dt: f64,
    inject: InjectMode,
    /// Context-entity handles (dead ones stay).
    entities: BTreeMap<u32, Entity>,
    /// Live UI entities.
    uis: HashMap<u32, Entity>,
    motion: Vec<Vec2>,
    wheel: Vec<Vec2>,
    key_events: Vec<(usize, bool)>,
    button_events: Vec<(usize, bool)>,
}

impl Runner {
    fn new(cfg: Arc<ScnCfg>) -> Self {
        let mut app = App::new();
        app.add_plugins((MinimalPlugins, InputPlugin, EnhancedInputPlugin))
            .insert_resource(CfgRes {
                scn: cfg,
                pads: HashMap::new(),
            })
            .add_input_context::<Ctx<0>>()
            .add_input_context::<Ctx<1>>()
            .add_input_context::<Ctx<2>>()
            .add_input_context::<Ctx<3>>()
            .add_input_context::<Ctx<4>>()
            .add_input_context::<Ctx<5>>()
            .add_systems(First, first_inject_system)
            .add_systems(PreUpdate, probe_pre_system.after(EnhancedInputSystem))
            // The probe has no deferred parameters, so this ordering adds no sync point.
            .add_systems(Update, (probe_update_system, post_system).chain());
        register_all!(&mut app,
            0 1 2 3 4 5 6 7 8 9 10 11 12 13 14 15
            16 17 18 19 20 21 22 23 24 25 26 27 28 29 30 31);

        Self {
            app,
            frame: 0,
            dt: 1.0 / 64.0,
            inject: InjectMode::Direct,
            entities: BTreeMap::new(),
            uis: HashMap::new(),
            motion: Vec::new(),
            wheel: Vec::new(),
            key_events: Vec::new(),
            button_events: Vec::new(),
        }
    }

    fn print_poll(&self, out: &mut dyn Write) {
        let instances = self.app.world().resource::<ContextInstances>();
        for (&handle, &entity) in &self.entities {
            for c in 0..N_CTX {
                let Some(ctx) = get_instance(instances, c, entity) else {
                    continue;
                };
                for a in 0..N_ACT {
                    let Some(action) = get_action(ctx, a) else {
                        continue;
                    };
                    p!(
                        out,
                        "poll {handle} {c} {a} {} {} {} {} {}",
                        fmt_state(action.state()),
                        action.events().bits(),
                        fmt_value(action.value()),
                        fmt_f32(action.elapsed_secs()),
                        fmt_f32(action.fired_secs()),
                    );
                }
            }
        }
    }

    /// Prints the `has` lines and the `groups` line.
    fn print_registry(&self, out: &mut dyn Write) {
        let world = self.app.world();
        let instances = world.resource::<ContextInstances>();
        for (&handle, &entity) in &self.entities {
            for c in 0..N_CTX {
                let in_world = world_has_ctx(world, c, entity);
                let in_registry = get_instance(instances, c, entity).is_some();
                if in_world || in_registry {
                    p!(
                        out,
                        "has {handle} {c} {} {}",
                        in_world as u8,
                        in_registry as u8
                    );
                }
            }
        }

        let type_ids = ctx_type_ids();
        let handles: HashMap<Entity, u32> = self
            .entities
            .iter()
            .map(|(&handle, &entity)| (entity, handle))
            .collect();
        let groups: Vec<String> = instances
            .verif_groups()
            .iter()
            .map(|(type_id, _, _, entities)| {
                let c = type_ids
                    .iter()
                    .position(|id| id == type_id)
                    .map(|c| c.to_string())
                    .unwrap_or_else(|| "?".into());
                let entities: Vec<String> = entities
                    .iter()
                    .map(|entity| {
                        handles
                            .get(entity)
                            .map(|handle| handle.to_string())
                            .unwrap_or_else(|| "?".into())
                    })
                    .collect();
                format!("{c}:{}", entities.join(","))
            })
            .collect();
        if groups.is_empty() {
            p!(out, "groups");
        } else {
            p!(out, "groups {}", groups.join(";"));
        }
    }

    /// Applies a direct lifecycle op and prints its block.
    fn lifecycle(&mut self, line: &str, op: &LifeOp, out: &mut dyn Write) {
        p!(out, "op {line}");
        apply_direct(self.app.world_mut(), op, &self.entities);
        let mut deliveries = std::mem::take(&mut shared().dlv);
        if matches!(op, LifeOp::Despawn(_)) {
            deliveries.sort();
        }
        for delivery in &deliveries {
            p!(out, "{delivery}");
        }
        self.print_registry(out);
    }

    fn gamepad(&mut self, g: u32) -> Option<Mut<'_, Gamepad>> {
        let world = self.app.world_mut();
        let entity = *world.resource::<CfgRes>().pads.get(&g)?;
        world.get_mut::<Gamepad>(entity)
    }

    fn run_frame(&mut self, out: &mut dyn Write) {
        let world = self.app.world_mut();
        world.insert_resource(TimeUpdateStrategy::ManualDuration(Duration::from_secs_f64(
            self.dt,
        )));
        for delta in self.motion.drain(..) {
            world.send_event(MouseMotion { delta });
        }
        for delta in self.wheel.drain(..) {
            world.send_event(MouseWheel {
                unit: MouseScrollUnit::Line,
                x: delta.x,
                y: delta.y,
                window: Entity::PLACEHOLDER,
            });
        }
        for (k, pressed) in self.key_events.drain(..) {
            world.send_event(KeyboardInput {
                key_code: KEYS[k],
                logical_key: Key::Unidentified(NativeKey::Unidentified),
                state: button_state(pressed),
                repeat: false,
                window: Entity::PLACEHOLDER,
            });
        }
        for (b, pressed) in self.button_events.drain(..) {
            world.send_event(MouseButtonInput {
                button: MOUSE_BUTTONS[b],
                state: button_state(pressed),
                window: Entity::PLACEHOLDER,
            });
        }

        {
            let mut sh = shared();
            sh.in_update = true;
            sh.frame = self.frame;
            sh.delivered = 0;
            sh.inv.clear();
            sh.probe_pre = None;
            sh.probe_update = None;
        }
        self.app.update();
        let (invocations, deliveries, probe_pre, probe_update) = {
            let mut sh = shared();
            sh.in_update = false;
            (
                std::mem::take(&mut sh.inv),
                std::mem::take(&mut sh.dlv),
                sh.probe_pre,
                sh.probe_update,
            )
        };
        let probe = |count: Option<u64>| {
            count
                .map(|count| count.to_string())
                .unwrap_or_else(|| "?".into())
        };

        let time = self.app.world().resource::<Time<Virtual>>();
        p!(
            out,
            "frame {} {} {} {}",
            self.frame,
            fmt_f32(time.delta_secs()),
            fmt_f32(time.relative_speed()),
            time.is_paused() as u8
        );
        for line in invocations.iter().chain(&deliveries) {
            p!(out, "{line}");
        }
        p!(out, "probe pre {}", probe(probe_pre));
        p!(out, "probe update {}", probe(probe_update));
        self.print_poll(out);
        self.print_registry(out);
        p!(out, "endframe");
        self.frame += 1;
    }

    fn op(&mut self, line: &str, op: &Op, out: &mut dyn Write) {
        match *op {
            Op::Spawn(e) => {
                p!(out, "op {line}");
                let entity = self.app.world_mut().spawn_empty().id();
                self.entities.insert(e, entity);
                {
                    let mut sh = shared();
                    sh.entities.insert(e, entity);
                    sh.handles.insert(entity, e);
                }
                self.print_registry(out);
            }
            Op::Life(ref life) => self.lifecycle(line, life, out),
            Op::Key(k, pressed) => match self.inject {
                InjectMode::Events => self.key_events.push((k, pressed)),
                InjectMode::First => shared().first_keys.push((k, pressed)),
                InjectMode::Direct => {
                    let mut keys = self.app.world_mut().resource_mut::<ButtonInput<KeyCode>>();
                    if pressed {
                        keys.press(KEYS[k]);
                    } else {
                        keys.release(KEYS[k]);
                    }
                }
            },
            Op::Mb(b, pressed) => match self.inject {
                InjectMode::Events => self.button_events.push((b, pressed)),
                InjectMode::First => shared().first_buttons.push((b, pressed)),
                InjectMode::Direct => {
                    let mut buttons = self
                        .app
                        .world_mut()
                        .resource_mut::<ButtonInput<MouseButton>>();
                    if pressed {
                        buttons.press(MOUSE_BUTTONS[b]);
                    } else {
                        buttons.release(MOUSE_BUTTONS[b]);
                    }
                }
            },
            Op::Motion(x, y) => self.motion.push(Vec2::new(x, y)),
            Op::Wheel(x, y) => self.wheel.push(Vec2::new(x, y)),
            Op::PadAdd(g) => {
                let world = self.app.world_mut();
                let entity = world.spawn(Gamepad::default()).id();
                world.resource_mut::<CfgRes>().pads.insert(g, entity);
            }
            Op::PadDel(g) => {
                let world = self.app.world_mut();
                if let Some(&entity) = world.resource::<CfgRes>().pads.get(&g) {
                    if world.get_entity(entity).is_ok() {
                        world.despawn(entity);
                    }
                }
            }
            Op::PadBtn(g, b, pressed) => {
                if let Some(mut gamepad) = self.gamepad(g) {
                    if pressed {
                        gamepad.digital_mut().press(PAD_BUTTONS[b]);
                    } else {
                        gamepad.digital_mut().release(PAD_BUTTONS[b]);
                    }
                }
            }
            Op::PadAxis(g, x, value) => {
                if let Some(mut gamepad) = self.gamepad(g) {
                    gamepad.analog_mut().set(PAD_AXES[x], value);
                }
            }
            Op::Ui(u, state) => {
                let world = self.app.world_mut();
                let live = self
                    .uis
                    .get(&u)
                    .copied()
                    .filter(|&entity| world.get_entity(entity).is_ok());
                let interaction = match state {
                    UiState::None => Interaction::None,
                    UiState::Hovered => Interaction::Hovered,
                    UiState::Pressed => Interaction::Pressed,
                    UiState::Gone => {
                        if let Some(entity) = live {
                            world.despawn(entity);
                        }
                        self.uis.remove(&u);
                        return;
                    }
                };
                match live {
                    Some(entity) => {
                        world.entity_mut(entity).insert(interaction);
                    }
                    None => {
                        let entity = world.spawn(interaction).id();
                        self.uis.insert(u, entity);
                    }
                }
            }
            Op::Dt(dt) => self.dt = dt,
            Op::Speed(speed) => {
                self.app
                    .world_mut()
                    .resource_mut::<Time<Virtual>>()
                    .set_relative_speed(speed);
            }
            Op::Pause(paused) => {
                let mut time = self.app.world_mut().resource_mut::<Time<Virtual>>();
                if paused {
                    time.pause();
                } else {
                    time.unpause();
                }
            }
            Op::Inject(mode) => self.inject = mode,
            Op::React(frame, k, ref life) => shared().reacts.push((frame, k, life.clone())),
            Op::ReactEv(frame, e, a, ref kind, ref life) => {
                shared().reactevs.push((frame, e, a, kind.clone(), life.clone(), false))
            }
            Op::Post(ref life) => shared().posts.push(life.clone()),
            Op::Frame => self.run_frame(out),
        }
    }
}

fn button_state(pressed: bool) -> ButtonState {
    if pressed {
        ButtonState::Pressed
    } else {
        ButtonState::Released
    }
}

pub fn run_app(cfg: Arc<ScnCfg>, ops: &[(String, Op)], out: &mut dyn Write) {
    let mut runner = Runner::new(cfg);
    p!(out, "{}", sched_facts(&runner.app));
    for (line, op) in ops {
        runner.op(line, op, out);
    }
}
