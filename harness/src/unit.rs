//! Unit scenarios: direct calls on values, modifiers and conditions (PROTOCOL.md §5).

use std::io::Write;
use std::time::Duration;

use bevy::prelude::*;
use bevy_enhanced_input::input_context::context_instance::ActionsData;
use bevy_enhanced_input::prelude::*;

use crate::build::{build_cond, build_mod, kind_index};
use crate::num::{fmt_state, fmt_value};
use crate::pool::*;
use crate::spec::UOp;

pub fn run_unit(ops: &[UOp], out: &mut dyn Write) {
    let mut actions = ActionsData::default();
    let mut time = Time::<Virtual>::default();
    let mut modifier: Option<Box<dyn InputModifier>> = None;
    let mut condition: Option<Box<dyn InputCondition>> = None;

    for op in ops {
        let result = match *op {
            UOp::Convert(value, dim) => fmt_value(value.convert(dim)),
            UOp::AsBool(value) => (value.as_bool() as u8).to_string(),
            UOp::Actuated(value, actuation) => (value.is_actuated(actuation) as u8).to_string(),
            UOp::As1(value) => fmt_value(ActionValue::Axis1D(value.as_axis1d())),
            UOp::As2(value) => fmt_value(ActionValue::Axis2D(value.as_axis2d())),
            UOp::As3(value) => fmt_value(ActionValue::Axis3D(value.as_axis3d())),
            UOp::Zero(dim) => fmt_value(ActionValue::zero(dim)),
            UOp::Mod(ref spec) => {
                modifier = Some(build_mod(spec));
                continue;
            }
            UOp::Cond(ref spec) => {
                condition = Some(build_cond(spec));
                continue;
            }
            UOp::Act(a, state) => {
                let time0 = Time::<Virtual>::default();
                with_act!(a, A => {
                    let mut data = ActionData::new::<Act<A>>();
                    data.update(&time0, state, ActionValue::zero(act_dim(a)));
                    actions.insert_action::<Act<A>>(data);
                });
                continue;
            }
            UOp::Tick(vdelta, speed) => {
                time.set_relative_speed(speed);
                time.advance_by(Duration::from_secs_f32(vdelta));
                continue;
            }
            UOp::Apply(value) => {
                let modifier = modifier.as_mut().expect("checked by the parser");
                fmt_value(modifier.apply(&actions, &time, value))
            }
            UOp::Eval(value) => {
                let condition = condition.as_mut().expect("checked by the parser");
                let state = condition.evaluate(&actions, &time, value);
                format!("{} {}", fmt_state(state), kind_index(condition.kind()))
            }
        };
        let _ = writeln!(out, "r {result}");
    }
}
