//! Static type pool (PROTOCOL.md §2): contexts `Ctx<0..5>`, actions `Act<0..31>`, input tables.

use std::any::TypeId;

use bevy::prelude::*;
use bevy_enhanced_input::prelude::*;

pub const N_CTX: usize = 6;
pub const N_ACT: usize = 32;

/// Runs `$body` with `const $N: usize` set to the runtime action index.
macro_rules! with_act {
    (@go $idx:expr, $N:ident, $body:expr, $($n:literal)*) => {
        match $idx {
            $( $n => { const $N: usize = $n; $body } )*
            _ => unreachable!("action index out of the pool"),
        }
    };
    ($idx:expr, $N:ident => $body:expr) => {
        with_act!(@go $idx, $N, $body,
            0 1 2 3 4 5 6 7 8 9 10 11 12 13 14 15
            16 17 18 19 20 21 22 23 24 25 26 27 28 29 30 31)
    };
}

/// Runs `$body` with `const $N: usize` set to the runtime context index.
macro_rules! with_ctx {
    (@go $idx:expr, $N:ident, $body:expr, $($n:literal)*) => {
        match $idx {
            $( $n => { const $N: usize = $n; $body } )*
            _ => unreachable!("context index out of the pool"),
        }
    };
    ($idx:expr, $N:ident => $body:expr) => {
        with_ctx!(@go $idx, $N, $body, 0 1 2 3 4 5)
    };
}

/// Context type `c` with a per-entity variant.
#[derive(Component)]
pub struct Ctx<const N: usize>(pub u8);

macro_rules! impl_ctx {
    ($($n:literal $priority:literal $mode:ident),* $(,)?) => {
        $(
            impl InputContext for Ctx<$n> {
                const MODE: ContextMode = ContextMode::$mode;
                const PRIORITY: isize = $priority;

                fn context_instance(world: &World, entity: Entity) -> ContextInstance {
                    let variant = world.get::<Self>(entity).map(|ctx| ctx.0);
                    crate::build::context_instance(world, $n, variant)
                }
            }
        )*
    };
}

impl_ctx!(
    0 9 Exclusive,
    1 5 Shared,
    2 2 Exclusive,
    3 0 Shared,
    4 -3 Exclusive,
    5 -7 Shared,
);

/// Action type `a`.
#[derive(Debug)]
pub struct Act<const N: usize>;

/// Pool index of an action type.
pub trait ActIdx {
    const IDX: usize;
}

macro_rules! impl_act {
    ($($n:literal $output:ty),* $(,)?) => {
        $(
            impl InputAction for Act<$n> {
                type Output = $output;
                const CONSUME_INPUT: bool = ($n / 4) % 2 == 0;
                const ACCUMULATION: Accumulation = if ($n / 8) % 2 == 0 {
                    Accumulation::Cumulative
                } else {
                    Accumulation::MaxAbs
                };
            }

            impl ActIdx for Act<$n> {
                const IDX: usize = $n;
            }
        )*
    };
}

impl_act!(
    0 bool, 1 f32, 2 Vec2, 3 Vec3, 4 bool, 5 f32, 6 Vec2, 7 Vec3,
    8 bool, 9 f32, 10 Vec2, 11 Vec3, 12 bool, 13 f32, 14 Vec2, 15 Vec3,
    16 bool, 17 f32, 18 Vec2, 19 Vec3, 20 bool, 21 f32, 22 Vec2, 23 Vec3,
    24 bool, 25 f32, 26 Vec2, 27 Vec3, 28 bool, 29 f32, 30 Vec2, 31 Vec3,
);

pub fn act_dim(a: usize) -> ActionValueDim {
    match a % 4 {
        0 => ActionValueDim::Bool,
        1 => ActionValueDim::Axis1D,
        2 => ActionValueDim::Axis2D,
        _ => ActionValueDim::Axis3D,
    }
}

pub const KEYS: [KeyCode; 18] = [
    KeyCode::KeyA,
    KeyCode::KeyB,
    KeyCode::KeyC,
    KeyCode::KeyD,
    KeyCode::KeyE,
    KeyCode::KeyF,
    KeyCode::Space,
    KeyCode::Enter,
    KeyCode::AltLeft,
    KeyCode::AltRight,
    KeyCode::ControlLeft,
    KeyCode::ControlRight,
    KeyCode::ShiftLeft,
    KeyCode::ShiftRight,
    KeyCode::SuperLeft,
    KeyCode::SuperRight,
    KeyCode::KeyW,
    KeyCode::KeyS,
];

pub const MOUSE_BUTTONS: [MouseButton; 3] = [MouseButton::Left, MouseButton::Right, MouseButton::Middle];

pub const PAD_BUTTONS: [GamepadButton; 8] = [
    GamepadButton::South,
    GamepadButton::East,
    GamepadButton::North,
    GamepadButton::West,
    GamepadButton::DPadUp,
    GamepadButton::DPadDown,
    GamepadButton::DPadLeft,
    GamepadButton::DPadRight,
];

pub const PAD_AXES: [GamepadAxis; 4] = [
    GamepadAxis::LeftStickX,
    GamepadAxis::LeftStickY,
    GamepadAxis::RightStickX,
    GamepadAxis::RightStickY,
];

pub fn ctx_type_ids() -> [TypeId; N_CTX] {
    [
        TypeId::of::<Ctx<0>>(),
        TypeId::of::<Ctx<1>>(),
        TypeId::of::<Ctx<2>>(),
        TypeId::of::<Ctx<3>>(),
        TypeId::of::<Ctx<4>>(),
        TypeId::of::<Ctx<5>>(),
    ]
}

/// `instances.get::<Ctx<c>>(entity)` with a runtime `c`.
pub fn get_instance(instances: &ContextInstances, c: usize, entity: Entity) -> Option<&ContextInstance> {
    with_ctx!(c, C => instances.get::<Ctx<C>>(entity))
}

/// `ctx.action::<Act<a>>()` with a runtime `a`.
pub fn get_action(ctx: &ContextInstance, a: usize) -> Option<&ActionData> {
    with_act!(a, A => ctx.action::<Act<A>>())
}

/// `ctx.bind::<Act<a>>()` with a runtime `a`.
pub fn bind_action(ctx: &mut ContextInstance, a: usize) -> &mut ActionBind {
    with_act!(a, A => ctx.bind::<Act<A>>())
}

pub fn world_has_ctx(world: &World, c: usize, entity: Entity) -> bool {
    with_ctx!(c, C => world
        .get_entity(entity)
        .is_ok_and(|entity| entity.contains::<Ctx<C>>()))
}
