//! Exact rational parsing / printing (PROTOCOL.md §1).

use bevy::prelude::*;
use bevy_enhanced_input::prelude::*;

/// A parsed input rational `n` or `n/d`.
#[derive(Clone, Copy, Debug, PartialEq)]
pub struct Q {
    pub n: i128,
    pub d: i128,
}

impl Q {
    pub fn f32(self) -> f32 {
        self.n as f32 / self.d as f32
    }

    pub fn f64(self) -> f64 {
        self.n as f64 / self.d as f64
    }

    pub fn is_negative(self) -> bool {
        self.n < 0
    }
}

fn parse_digits(s: &str) -> Option<i128> {
    if s.is_empty() || s.len() > 38 || !s.bytes().all(|b| b.is_ascii_digit()) {
        return None;
    }
    s.parse().ok()
}

/// Parses `n` or `n/d` (sign on `n`, `d > 0`).
pub fn parse_q(s: &str) -> Option<Q> {
    let (ns, ds) = match s.split_once('/') {
        Some((n, d)) => (n, Some(d)),
        None => (s, None),
    };
    let (neg, digits) = match ns.strip_prefix('-') {
        Some(rest) => (true, rest),
        None => (false, ns),
    };
    let n = parse_digits(digits)?;
    let n = if neg { -n } else { n };
    let d = match ds {
        Some(d) => {
            let d = parse_digits(d)?;
            if d == 0 {
                return None;
            }
            d
        }
        None => 1,
    };
    Some(Q { n, d })
}

pub fn parse_uint(s: &str) -> Option<u64> {
    parse_digits(s).map(|v| v as u64)
}

/// Parses an unsigned integer that must lie in `0..=max`.
pub fn parse_idx(s: &str, max: u64) -> Option<usize> {
    let v = parse_uint(s)?;
    (v <= max).then_some(v as usize)
}

pub fn parse_flag(s: &str) -> Option<bool> {
    match s {
        "0" => Some(false),
        "1" => Some(true),
        _ => None,
    }
}

pub fn parse_dim(s: &str) -> Option<ActionValueDim> {
    Some(match s {
        "0" => ActionValueDim::Bool,
        "1" => ActionValueDim::Axis1D,
        "2" => ActionValueDim::Axis2D,
        "3" => ActionValueDim::Axis3D,
        _ => return None,
    })
}

/// Parses a value `b0 | b1 | 1:q | 2:q,q | 3:q,q,q`.
pub fn parse_value(s: &str) -> Option<ActionValue> {
    match s {
        "b0" => return Some(ActionValue::Bool(false)),
        "b1" => return Some(ActionValue::Bool(true)),
        _ => (),
    }
    let (tag, rest) = s.split_once(':')?;
    let parts: Vec<&str> = rest.split(',').collect();
    let q = |i: usize| parse_q(parts[i]).map(Q::f32);
    match (tag, parts.len()) {
        ("1", 1) => Some(ActionValue::Axis1D(q(0)?)),
        ("2", 2) => Some(ActionValue::Axis2D(Vec2::new(q(0)?, q(1)?))),
        ("3", 3) => Some(ActionValue::Axis3D(Vec3::new(q(0)?, q(1)?, q(2)?))),
        _ => None,
    }
}

/// Decimal representation of `2^k`.
fn pow2_decimal(k: u32) -> String {
    if k < 128 {
        return (1u128 << k).to_string();
    }
    // Little-endian decimal digits, repeated doubling.
    let mut digits: Vec<u8> = vec![1];
    for _ in 0..k {
        let mut carry = 0u8;
        for d in digits.iter_mut() {
            let v = *d * 2 + carry;
            *d = v % 10;
            carry = v / 10;
        }
        if carry > 0 {
            digits.push(carry);
        }
    }
    digits.iter().rev().map(|d| (b'0' + d) as char).collect()
}

/// Prints an `f32` as the exact rational it denotes.
pub fn fmt_f32(x: f32) -> String {
    if x.is_nan() {
        return "nan".into();
    }
    if x.is_infinite() {
        return if x > 0.0 { "inf".into() } else { "-inf".into() };
    }
    let bits = x.to_bits();
    let negative = bits >> 31 == 1;
    let exp = ((bits >> 23) & 0xff) as i32;
    let frac = bits & 0x007f_ffff;
    if exp == 0 && frac == 0 {
        return "0".into();
    }
    let (mut m, mut e) = if exp == 0 {
        (frac, -149)
    } else {
        (frac | 0x0080_0000, exp - 150)
    };
    let tz = m.trailing_zeros();
    m >>= tz;
    e += tz as i32;
    let sign = if negative { "-" } else { "" };
    if e >= 0 {
        format!("{sign}{}", (m as u128) << e)
    } else {
        format!("{sign}{m}/{}", pow2_decimal((-e) as u32))
    }
}

pub fn fmt_value(value: ActionValue) -> String {
    match value {
        ActionValue::Bool(false) => "b0".into(),
        ActionValue::Bool(true) => "b1".into(),
        ActionValue::Axis1D(x) => format!("1:{}", fmt_f32(x)),
        ActionValue::Axis2D(v) => format!("2:{},{}", fmt_f32(v.x), fmt_f32(v.y)),
        ActionValue::Axis3D(v) => {
            format!("3:{},{},{}", fmt_f32(v.x), fmt_f32(v.y), fmt_f32(v.z))
        }
    }
}

pub fn fmt_state(state: ActionState) -> &'static str {
    match state {
        ActionState::None => "none",
        ActionState::Ongoing => "ongoing",
        ActionState::Fired => "fired",
    }
}

#[cfg(test)]
mod tests {
    use super::*;

    #[test]
    fn fractions() {
        assert_eq!(fmt_f32(0.0), "0");
        assert_eq!(fmt_f32(-0.0), "0");
        assert_eq!(fmt_f32(1.0), "1");
        assert_eq!(fmt_f32(-3.0), "-3");
        assert_eq!(fmt_f32(5.0 / 64.0), "5/64");
        assert_eq!(fmt_f32(-0.5), "-1/2");
        assert_eq!(fmt_f32(0.2), "13421773/67108864");
        assert_eq!(fmt_f32(f32::MAX), "340282346638528859811704183484516925440");
        assert_eq!(
            fmt_f32(f32::from_bits(1)),
            format!("1/{}", pow2_decimal(149))
        );
        assert_eq!(pow2_decimal(130), "1361129467683753853853498429727072845824");
        assert_eq!(fmt_f32(f32::NAN), "nan");
        assert_eq!(fmt_f32(f32::NEG_INFINITY), "-inf");
    }

    #[test]
    fn parsing() {
        assert_eq!(parse_q("5/64"), Some(Q { n: 5, d: 64 }));
        assert_eq!(parse_q("-3"), Some(Q { n: -3, d: 1 }));
        assert_eq!(parse_q("1/0"), None);
        assert_eq!(parse_q("+1"), None);
        assert_eq!(parse_q(""), None);
        assert_eq!(parse_q("1/-2"), None);
        assert_eq!(
            parse_value("3:1,-1/2,0"),
            Some(ActionValue::Axis3D(Vec3::new(1.0, -0.5, 0.0)))
        );
        assert_eq!(parse_value("2:1"), None);
    }
}
