//! Process-wide log and reaction state.
//!
//! Conditions and modifiers have no world access, and systems may run on any thread,
//! so the logs live in a global mutex rather than in a resource or a thread-local.
//! Scenarios run strictly one after another.

use std::collections::HashMap;
use std::sync::{Mutex, MutexGuard};

use bevy::prelude::*;

use crate::spec::LifeOp;

#[derive(Default)]
pub struct Shared {
    /// `inv` lines of the current frame.
    pub inv: Vec<String>,
    /// `dlv` lines since the last print.
    pub dlv: Vec<String>,
    /// Entity -> handle (dead entities stay).
    pub handles: HashMap<Entity, u32>,
    /// Handle -> entity (dead entities stay).
    pub entities: HashMap<u32, Entity>,
    /// `true` while `app.update()` runs.
    pub in_update: bool,
    /// Number of the frame being run.
    pub frame: u64,
    /// Deliveries seen so far within the current `app.update()`.
    pub delivered: u64,
    /// `react <frame> <k> <op>` entries.
    pub reacts: Vec<(u64, u64, LifeOp)>,
    /// `reactev <frame> <e> <a> <kind> <op>` entries with their "already fired" flag.
    pub reactevs: Vec<(u64, u32, usize, String, LifeOp, bool)>,
    /// `post <op>` entries waiting for the next frame.
    pub posts: Vec<LifeOp>,
    /// `key` ops issued in `inject first` mode, waiting for the next frame's `First`.
    pub first_keys: Vec<(usize, bool)>,
    /// `mb` ops issued in `inject first` mode, waiting for the next frame's `First`.
    pub first_buttons: Vec<(usize, bool)>,
    /// Deliveries seen by the probe in `PreUpdate` after `EnhancedInputSystem`.
    pub probe_pre: Option<u64>,
    /// Deliveries seen by the probe in `Update`.
    pub probe_update: Option<u64>,
}

static SHARED: Mutex<Option<Shared>> = Mutex::new(None);

pub struct SharedGuard(MutexGuard<'static, Option<Shared>>);

impl std::ops::Deref for SharedGuard {
    type Target = Shared;

    fn deref(&self) -> &Shared {
        self.0.as_ref().expect("shared state should be initialised")
    }
}

impl std::ops::DerefMut for SharedGuard {
    fn deref_mut(&mut self) -> &mut Shared {
        self.0.as_mut().expect("shared state should be initialised")
    }
}

/// Locks the shared state. Never hold the guard across world access.
pub fn shared() -> SharedGuard {
    let mut guard = SHARED.lock().unwrap_or_else(|poisoned| poisoned.into_inner());
    if guard.is_none() {
        *guard = Some(Shared::default());
    }
    SharedGuard(guard)
}

/// Resets everything for a new scenario.
pub fn reset() {
    let mut guard = SHARED.lock().unwrap_or_else(|poisoned| poisoned.into_inner());
    *guard = Some(Shared::default());
}
