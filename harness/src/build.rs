//! Construction of modifiers, conditions and context instances from the parsed configuration.

use std::collections::HashMap;
use std::sync::Arc;

use bevy::prelude::*;
use bevy_enhanced_input::input_context::context_instance::ActionsData;
use bevy_enhanced_input::prelude::*;

use crate::num::{fmt_state, fmt_value};
use crate::pool::*;
use crate::shared::shared;
use crate::spec::*;

/// Scenario configuration visible from `InputContext::context_instance`.
#[derive(Resource)]
pub struct CfgRes {
    pub scn: Arc<ScnCfg>,
    /// Gamepad handle -> entity (entries of despawned gamepads are kept).
    pub pads: HashMap<u32, Entity>,
}

/// Modifier wrapper that logs every invocation.
#[derive(Debug)]
pub struct LogMod {
    pub id: u64,
    pub inner: Box<dyn InputModifier>,
}

impl InputModifier for LogMod {
    fn apply(
        &mut self,
        actions: &ActionsData,
        time: &Time<Virtual>,
        value: ActionValue,
    ) -> ActionValue {
        let out = self.inner.apply(actions, time, value);
        shared().inv.push(format!(
            "inv {} {} {}",
            self.id,
            fmt_value(value),
            fmt_value(out)
        ));
        out
    }
}

/// Condition wrapper that logs every invocation.
#[derive(Debug)]
pub struct LogCond {
    pub id: u64,
    pub inner: Box<dyn InputCondition>,
}

impl InputCondition for LogCond {
    fn evaluate(
        &mut self,
        actions: &ActionsData,
        time: &Time<Virtual>,
        value: ActionValue,
    ) -> ActionState {
        let out = self.inner.evaluate(actions, time, value);
        shared().inv.push(format!(
            "inv {} {} {}",
            self.id,
            fmt_value(value),
            fmt_state(out)
        ));
        out
    }

    fn kind(&self) -> ConditionKind {
        self.inner.kind()
    }
}

/// Custom modifier `sconv <d>`.
#[derive(Debug)]
struct SConv(ActionValueDim);

impl InputModifier for SConv {
    fn apply(&mut self, _: &ActionsData, _: &Time<Virtual>, value: ActionValue) -> ActionValue {
        value.convert(self.0)
    }
}

/// Custom modifier `sadd <d> <q> <q> <q>`.
#[derive(Debug)]
struct SAdd(ActionValueDim, Vec3);

impl InputModifier for SAdd {
    fn apply(&mut self, _: &ActionsData, _: &Time<Virtual>, value: ActionValue) -> ActionValue {
        ActionValue::Axis3D(value.as_axis3d() + self.1).convert(self.0)
    }
}

fn condition_kind(kind: u8) -> ConditionKind {
    match kind {
        0 => ConditionKind::Explicit,
        1 => ConditionKind::Implicit,
        2 => ConditionKind::Blocker { events_only: false },
        _ => ConditionKind::Blocker { events_only: true },
    }
}

pub fn kind_index(kind: ConditionKind) -> u8 {
    match kind {
        ConditionKind::Explicit => 0,
        ConditionKind::Implicit => 1,
        ConditionKind::Blocker { events_only: false } => 2,
        ConditionKind::Blocker { events_only: true } => 3,
    }
}

/// Custom condition `sscript <kind> <r>+`.
#[derive(Debug)]
struct SScript {
    kind: u8,
    script: Vec<ActionState>,
    index: usize,
}

impl InputCondition for SScript {
    fn evaluate(&mut self, _: &ActionsData, _: &Time<Virtual>, _: ActionValue) -> ActionState {
        let state = self.script[self.index % self.script.len()];
        self.index += 1;
        state
    }

    fn kind(&self) -> ConditionKind {
        condition_kind(self.kind)
    }
}

/// Custom condition `sact <kind> <rT> <rF>`.
#[derive(Debug)]
struct SAct {
    kind: u8,
    on_true: ActionState,
    on_false: ActionState,
}

impl InputCondition for SAct {
    fn evaluate(&mut self, _: &ActionsData, _: &Time<Virtual>, value: ActionValue) -> ActionState {
        if value.as_bool() {
            self.on_true
        } else {
            self.on_false
        }
    }

    fn kind(&self) -> ConditionKind {
        condition_kind(self.kind)
    }
}

pub fn build_mod(spec: &ModSpec) -> Box<dyn InputModifier> {
    match *spec {
        ModSpec::Negate(x, y, z) => Box::new(Negate { x, y, z }),
        ModSpec::Scale(x, y, z) => Box::new(Scale::new(Vec3::new(x, y, z))),
        ModSpec::Swizzle(index) => Box::new(match index {
            0 => SwizzleAxis::YXZ,
            1 => SwizzleAxis::ZYX,
            2 => SwizzleAxis::XZY,
            3 => SwizzleAxis::YZX,
            _ => SwizzleAxis::ZXY,
        }),
        ModSpec::DzAxial(lo, hi) => Box::new(
            DeadZone::new(DeadZoneKind::Axial)
                .with_lower_threshold(lo)
                .with_upper_threshold(hi),
        ),
        ModSpec::DzRadial(lo, hi) => Box::new(
            DeadZone::new(DeadZoneKind::Radial)
                .with_lower_threshold(lo)
                .with_upper_threshold(hi),
        ),
        ModSpec::Exp(x, y, z) => Box::new(ExponentialCurve::new(Vec3::new(x, y, z))),
        ModSpec::DScale => Box::new(DeltaScale),
        ModSpec::DLerp(speed) => Box::new(DeltaLerp::new(speed)),
        ModSpec::AccBy(a) => {
            with_act!(a, A => Box::new(AccumulateBy::<Act<A>>::default()) as Box<dyn InputModifier>)
        }
        ModSpec::SConv(dim) => Box::new(SConv(dim)),
        ModSpec::SAdd(dim, x, y, z) => Box::new(SAdd(dim, Vec3::new(x, y, z))),
    }
}

pub fn build_cond(spec: &CondSpec) -> Box<dyn InputCondition> {
    match *spec {
        CondSpec::Press(act) => Box::new(Press::new(act)),
        CondSpec::JustPress(act) => Box::new(JustPress::new(act)),
        CondSpec::Release(act) => Box::new(Release::new(act)),
        CondSpec::Hold {
            time,
            one_shot,
            act,
            rel,
        } => Box::new(
            Hold::new(time)
                .one_shot(one_shot)
                .with_actuation(act)
                .relative_speed(rel),
        ),
        CondSpec::HoldRel { time, act, rel } => Box::new(
            HoldAndRelease::new(time)
                .with_actuation(act)
                .relative_speed(rel),
        ),
        CondSpec::Tap { time, act, rel } => {
            Box::new(Tap::new(time).with_actuation(act).relative_speed(rel))
        }
        CondSpec::Pulse {
            interval,
            limit,
            on_start,
            act,
            rel,
        } => Box::new(
            Pulse::new(interval)
                .with_trigger_limit(limit)
                .trigger_on_start(on_start)
                .with_actuation(act)
                .relative_speed(rel),
        ),
        CondSpec::Chord(a) => {
            with_act!(a, A => Box::new(Chord::<Act<A>>::default()) as Box<dyn InputCondition>)
        }
        CondSpec::BlockBy(a, events_only) => with_act!(a, A => {
            let mut condition = BlockBy::<Act<A>>::default();
            condition.events_only = events_only;
            Box::new(condition) as Box<dyn InputCondition>
        }),
        CondSpec::SScript(kind, ref script) => Box::new(SScript {
            kind,
            script: script.clone(),
            index: 0,
        }),
        CondSpec::SAct(kind, on_true, on_false) => Box::new(SAct {
            kind,
            on_true,
            on_false,
        }),
    }
}

fn build_input(spec: &InputSpec) -> Input {
    let mods = ModKeys::from_bits_truncate;
    match *spec {
        InputSpec::Key(k, m) => Input::Keyboard {
            key: KEYS[k],
            mod_keys: mods(m),
        },
        InputSpec::MBtn(b, m) => Input::MouseButton {
            button: MOUSE_BUTTONS[b],
            mod_keys: mods(m),
        },
        InputSpec::Motion(m) => Input::MouseMotion { mod_keys: mods(m) },
        InputSpec::Wheel(m) => Input::MouseWheel { mod_keys: mods(m) },
        InputSpec::PadBtn(b) => Input::GamepadButton(PAD_BUTTONS[b]),
        InputSpec::PadAxis(x) => Input::GamepadAxis(PAD_AXES[x]),
    }
}

/// Builds the instance of context type `c` for the variant stored on the entity.
pub fn context_instance(world: &World, c: usize, variant: Option<u8>) -> ContextInstance {
    let mut ctx = ContextInstance::default();
    let Some(variant) = variant else {
        eprintln!("context_instance: Ctx<{c}> is not present on the entity");
        return ctx;
    };
    let cfg = world.resource::<CfgRes>();
    let Some(ctx_cfg) = cfg.scn.ctxs.get(&(c, variant)) else {
        return ctx;
    };

    if let Some(g) = ctx_cfg.pad {
        let gamepad = cfg.pads.get(&g).copied().unwrap_or(Entity::PLACEHOLDER);
        ctx.set_gamepad(gamepad);
    }

    let mut current = usize::MAX;
    for step in &ctx_cfg.steps {
        match step {
            Step::Act(a) => {
                current = *a;
                bind_action(&mut ctx, current);
            }
            Step::AMod(id, spec) => {
                bind_action(&mut ctx, current).with_modifiers(LogMod {
                    id: *id,
                    inner: build_mod(spec),
                });
            }
            Step::ACond(id, spec) => {
                bind_action(&mut ctx, current).with_conditions(LogCond {
                    id: *id,
                    inner: build_cond(spec),
                });
            }
            Step::In(input) => {
                let mut binding = InputBind::new(build_input(&input.spec));
                for (id, spec) in &input.mods {
                    binding = binding.with_modifiers(LogMod {
                        id: *id,
                        inner: build_mod(spec),
                    });
                }
                for (id, spec) in &input.conds {
                    binding = binding.with_conditions(LogCond {
                        id: *id,
                        inner: build_cond(spec),
                    });
                }
                bind_action(&mut ctx, current).to(binding);
            }
        }
    }

    ctx
}
