//! Construction of modifiers, conditions and context instances from the parsed configuration.

use std::collections::HashMap;
use std::sync::Arc;

use bevy::prelude::*;
use bevy_enhanced_input::input_context::context_instance::ActionsData;
use bevy_enhanced_input::input_context::input_condition::DEFAULT_ACTUATION;
use bevy_enhanced_input::prelude::*;

use crate::num::{fmt_state, fmt_value};
use crate::pool::*;
use crate::shared::shared;
use crate::spec::*;

/// Scenario configuration visible from `InputContext::context_instance`.
#[derive(Resource)]
pub struct CfgRes {
    pub scn: Arc<ScnCfg>,
    /// Gamepad handle -> entity (entries of despawned gamepads are kept).
    pub pads: HashMap<u32, Entity>,
}

/// Modifier wrapper that logs every invocation.
///
/// A clone is a fresh modifier rebuilt from the spec, with the same id.
#[derive(Debug)]
pub struct LogMod {
    id: u64,
    spec: ModSpec,
    inner: Box<dyn InputModifier>,
}

impl LogMod {
    pub fn new(id: u64, spec: &ModSpec) -> Self {
        Self {
            id,
            spec: spec.clone(),
            inner: build_mod(spec),
        }
    }
}

impl Clone for LogMod {
    fn clone(&self) -> Self {
        Self::new(self.id, &self.spec)
    }
}

impl InputModifier for LogMod {
    fn apply(
        &mut self,
        actions: &ActionsData,
        time: &Time<Virtual>,
        value: ActionValue,
    ) -> ActionValue {
        let out = self.inner.apply(actions, time, value);
        shared().inv.push(format!(
            "inv {} {} {}",
            self.id,
            fmt_value(value),
            fmt_value(out)
        ));
        out
    }
}

/// Condition wrapper that logs every invocation.
///
/// A clone is a fresh condition rebuilt from the spec, with the same id.
#[derive(Debug)]
pub struct LogCond {
    id: u64,
    spec: CondSpec,
    inner: Box<dyn InputCondition>,
}

impl LogCond {
    pub fn new(id: u64, spec: &CondSpec) -> Self {
        Self {
            id,
            spec: spec.clone(),
            inner: build_cond(spec),
        }
    }
}

impl Clone for LogCond {
    fn clone(&self) -> Self {
        Self::new(self.id, &self.spec)
    }
}

impl InputCondition for LogCond {
    fn evaluate(
        &mut self,
        actions: &ActionsData,
        time: &Time<Virtual>,
        value: ActionValue,
    ) -> ActionState {
        let out = self.inner.evaluate(actions, time, value);
        shared().inv.push(format!(
            "inv {} {} {}",
            self.id,
            fmt_value(value),
            fmt_state(out)
        ));
        out
    }

    fn kind(&self) -> ConditionKind {
        self.inner.kind()
    }
}

/// Custom modifier `sconv <d>`.
#[derive(Debug)]
struct SConv(ActionValueDim);

impl InputModifier for SConv {
    fn apply(&mut self, _: &ActionsData, _: &Time<Virtual>, value: ActionValue) -> ActionValue {
        value.convert(self.0)
    }
}

/// Custom modifier `sadd <d> <q> <q> <q>`.
#[derive(Debug)]
struct SAdd(ActionValueDim, Vec3);

impl InputModifier for SAdd {
    fn apply(&mut self, _: &ActionsData, _: &Time<Virtual>, value: ActionValue) -> ActionValue {
        ActionValue::Axis3D(value.as_axis3d() + self.1).convert(self.0)
    }
}

fn condition_kind(kind: u8) -> ConditionKind {
    match kind {
        0 => ConditionKind::Explicit,
        1 => ConditionKind::Implicit,
        2 => ConditionKind::Blocker { events_only: false },
        _ => ConditionKind::Blocker { events_only: true },
    }
}

pub fn kind_index(kind: ConditionKind) -> u8 {
    match kind {
        ConditionKind::Explicit => 0,
        ConditionKind::Implicit => 1,
        ConditionKind::Blocker { events_only: false } => 2,
        ConditionKind::Blocker { events_only: true } => 3,
    }
}

/// Custom condition `sscript <kind> <r>+`.
#[derive(Debug)]
struct SScript {
    kind: u8,
    script: Vec<ActionState>,
    index: usize,
}

impl InputCondition for SScript {
    fn evaluate(&mut self, _: &ActionsData, _: &Time<Virtual>, _: ActionValue) -> ActionState {
        let state = self.script[self.index % self.script.len()];
        self.index += 1;
        state
    }

    fn kind(&self) -> ConditionKind {
        condition_kind(self.kind)
    }
}

/// Custom condition `sact <kind> <rT> <rF>`.
#[derive(Debug)]
struct SAct {
    kind: u8,
    on_true: ActionState,
    on_false: ActionState,
}

impl InputCondition for SAct {
    fn evaluate(&mut self, _: &ActionsData, _: &Time<Virtual>, value: ActionValue) -> ActionState {
        if value.as_bool() {
            self.on_true
        } else {
            self.on_false
        }
    }

    fn kind(&self) -> ConditionKind {
        condition_kind(self.kind)
    }
}

pub fn build_mod(spec: &ModSpec) -> Box<dyn InputModifier> {
    match *spec {
        // the named constructors where the spec is one of theirs, the literal otherwise
        ModSpec::Negate(true, true, true) => Box::new(Negate::all()),
        ModSpec::Negate(false, false, false) => Box::new(Negate::none()),
        ModSpec::Negate(true, false, false) => Box::new(Negate::x()),
        ModSpec::Negate(false, true, false) => Box::new(Negate::y()),
        ModSpec::Negate(false, false, true) => Box::new(Negate::z()),
        ModSpec::Negate(x, y, z) => Box::new(Negate { x, y, z }),
        ModSpec::Scale(x, y, z) if x == y && y == z => Box::new(Scale::splat(x)),
        ModSpec::Scale(x, y, z) => Box::new(Scale::new(Vec3::new(x, y, z))),
        ModSpec::Swizzle(index) => Box::new(match index {
            0 => SwizzleAxis::YXZ,
            1 => SwizzleAxis::ZYX,
            2 => SwizzleAxis::XZY,
            3 => SwizzleAxis::YZX,
            _ => SwizzleAxis::ZXY,
        }),
        ModSpec::DzAxial(lo, hi) => Box::new(
            DeadZone::new(DeadZoneKind::Axial)
                .with_lower_threshold(lo)
                .with_upper_threshold(hi),
        ),
        ModSpec::DzRadial(lo, hi) => Box::new(
            DeadZone::new(DeadZoneKind::Radial)
                .with_lower_threshold(lo)
                .with_upper_threshold(hi),
        ),
        ModSpec::Exp(x, y, z) if x == y && y == z => Box::new(ExponentialCurve::splat(x)),
        ModSpec::Exp(x, y, z) => Box::new(ExponentialCurve::new(Vec3::new(x, y, z))),
        ModSpec::DScale => Box::new(DeltaScale),
        ModSpec::DLerp(speed) => Box::new(DeltaLerp::new(speed)),
        ModSpec::AccBy(a) => {
            with_act!(a, A => Box::new(AccumulateBy::<Act<A>>::default()) as Box<dyn InputModifier>)
        }
        ModSpec::SConv(dim) => Box::new(SConv(dim)),
        ModSpec::SAdd(dim, x, y, z) => Box::new(SAdd(dim, Vec3::new(x, y, z))),
    }
}

pub fn build_cond(spec: &CondSpec) -> Box<dyn InputCondition> {
    match *spec {
        // the default actuation through `Default` / by not calling `with_actuation`, every other one explicitly
        CondSpec::Press(act) if act == DEFAULT_ACTUATION => Box::new(Press::default()),
        CondSpec::JustPress(act) if act == DEFAULT_ACTUATION => Box::new(JustPress::default()),
        CondSpec::Release(act) if act == DEFAULT_ACTUATION => Box::new(Release::default()),
        CondSpec::Press(act) => Box::new(Press::new(act)),
        CondSpec::JustPress(act) => Box::new(JustPress::new(act)),
        CondSpec::Release(act) => Box::new(Release::new(act)),
        CondSpec::Hold {
            time,
            one_shot,
            act,
            rel,
        } if act == DEFAULT_ACTUATION => Box::new(Hold::new(time).one_shot(one_shot).relative_speed(rel)),
        CondSpec::HoldRel { time, act, rel } if act == DEFAULT_ACTUATION => {
            Box::new(HoldAndRelease::new(time).relative_speed(rel))
        }
        CondSpec::Tap { time, act, rel } if act == DEFAULT_ACTUATION => {
            Box::new(Tap::new(time).relative_speed(rel))
        }
        CondSpec::Hold {
            time,
            one_shot,
            act,
            rel,
        } => Box::new(
            Hold::new(time)
                .one_shot(one_shot)
                .with_actuation(act)
                .relative_speed(rel),
        ),
        CondSpec::HoldRel { time, act, rel } => Box::new(
            HoldAndRelease::new(time)
                .with_actuation(act)
                .relative_speed(rel),
        ),
        CondSpec::Tap { time, act, rel } => {
            Box::new(Tap::new(time).with_actuation(act).relative_speed(rel))
        }
        CondSpec::Pulse {
            interval,
            limit,
            on_start,
            act,
            rel,
        } => Box::new(
            Pulse::new(interval)
                .with_trigger_limit(limit)
                .trigger_on_start(on_start)
                .with_actuation(act)
                .relative_speed(rel),
        ),
        CondSpec::Chord(a) => {
            with_act!(a, A => Box::new(Chord::<Act<A>>::default()) as Box<dyn InputCondition>)
        }
        CondSpec::BlockBy(a, true) => {
            with_act!(a, A => Box::new(BlockBy::<Act<A>>::events_only()) as Box<dyn InputCondition>)
        }
        CondSpec::BlockBy(a, false) => {
            with_act!(a, A => Box::new(BlockBy::<Act<A>>::default()) as Box<dyn InputCondition>)
        }
        CondSpec::SScript(kind, ref script) => Box::new(SScript {
            kind,
            script: script.clone(),
            index: 0,
        }),
        CondSpec::SAct(kind, on_true, on_false) => Box::new(SAct {
            kind,
            on_true,
            on_false,
        }),
    }
}

/// The input a spec denotes, built through the different public ways of denoting it (all equivalent by the crate's
/// documentation): `From` conversions, `with_mod_keys`, `without_mod_keys`, the `mouse_motion` / `mouse_wheel`
/// constructors, or the enum literally — chosen by the spec itself, so every way is exercised by every stream.
fn build_input(spec: &InputSpec) -> Input {
    let mods = ModKeys::from_bits_truncate;
    match *spec {
        InputSpec::Key(k, 0) if k % 2 == 0 => KEYS[k].into(),
        InputSpec::Key(k, 0) => Input::Keyboard {
            key: KEYS[k],
            mod_keys: ModKeys::ALT,
        }
        .without_mod_keys(),
        InputSpec::Key(k, m) if m % 2 == 1 => KEYS[k].with_mod_keys(mods(m)),
        InputSpec::Key(k, m) => Input::Keyboard {
            key: KEYS[k],
            mod_keys: mods(m),
        },
        InputSpec::MBtn(b, 0) => MOUSE_BUTTONS[b].into(),
        InputSpec::MBtn(b, m) if m % 2 == 1 => MOUSE_BUTTONS[b].with_mod_keys(mods(m)),
        InputSpec::MBtn(b, m) => Input::MouseButton {
            button: MOUSE_BUTTONS[b],
            mod_keys: mods(m),
        },
        InputSpec::Motion(0) => Input::mouse_motion(),
        InputSpec::Motion(m) if m % 2 == 1 => Input::mouse_motion().with_mod_keys(mods(m)),
        InputSpec::Motion(m) => Input::MouseMotion { mod_keys: mods(m) },
        InputSpec::Wheel(0) => Input::mouse_wheel(),
        InputSpec::Wheel(m) if m % 2 == 1 => Input::MouseWheel {
            mod_keys: ModKeys::SUPER,
        }
        .with_mod_keys(mods(m)),
        InputSpec::Wheel(m) => Input::MouseWheel { mod_keys: mods(m) },
        InputSpec::PadBtn(b) => PAD_BUTTONS[b].into(),
        InputSpec::PadAxis(x) => PAD_AXES[x].into(),
    }
}

fn key_input((k, m): KeyMod) -> Input {
    Input::Keyboard {
        key: KEYS[k],
        mod_keys: ModKeys::from_bits_truncate(m),
    }
}

/// `InputBind` of an `in` item with its own `imod`/`icond` lines.
fn build_bind(input: &InputCfg) -> InputBind {
    let mut binding = InputBind::new(build_input(&input.spec));
    for (id, spec) in &input.mods {
        binding = binding.with_modifiers(LogMod::new(*id, spec));
    }
    for (id, spec) in &input.conds {
        binding = binding.with_conditions(LogCond::new(*id, spec));
    }
    binding
}

/// Bindings collected from a real `InputBindSet`, usable as a set again.
///
/// Keeps the item type uniform where the number of adapters / tuple members is runtime data.
struct DynSet(Vec<InputBind>);

impl DynSet {
    fn collect(set: impl InputBindSet) -> Self {
        Self(set.bindings().collect())
    }
}

impl InputBindSet for DynSet {
    fn bindings(self) -> impl Iterator<Item = InputBind> {
        self.0.into_iter()
    }
}

type Mods = [(u64, ModSpec)];
type Conds = [(u64, CondSpec)];

/// Wraps `set` with the real `*_each` adapters: all `emod` lines in order, then all `econd` lines.
fn each<S: InputBindSet>(set: S, emods: &Mods, econds: &Conds) -> DynSet {
    match (emods, econds) {
        ([(id, spec), rest @ ..], _) => {
            let adapted = set.with_modifiers_each(LogMod::new(*id, spec));
            each(DynSet::collect(adapted), rest, econds)
        }
        ([], [(id, spec), rest @ ..]) => {
            let adapted = set.with_conditions_each(LogCond::new(*id, spec));
            each(DynSet::collect(adapted), &[], rest)
        }
        ([], []) => DynSet::collect(set),
    }
}

/// `bind.to(set)` with the block's `emod`/`econd` lines applied to the set.
fn to_each<S: InputBindSet>(bind: &mut ActionBind, set: S, emods: &Mods, econds: &Conds) {
    if emods.is_empty() && econds.is_empty() {
        bind.to(set);
    } else {
        bind.to(each(set, emods, econds));
    }
}

/// A preset field as a binding set of its own (plain input, input with its own modifier, nested preset).
fn field_set(field: Field) -> DynSet {
    match field {
        Field::Key(key) => DynSet::collect(key_input(key)),
        Field::KeyY(key) => DynSet::collect(key_input(key).with_modifiers(SwizzleAxis::YXZ)),
        Field::Stick(index) => DynSet::collect(stick(index)),
        Field::Axis(axis) => DynSet::collect(PAD_AXES[axis]),
        Field::Btn(button) => DynSet::collect(PAD_BUTTONS[button]),
    }
}

fn cardinal(fields: &[Field; 4]) -> Cardinal<DynSet> {
    Cardinal {
        north: field_set(fields[0]),
        east: field_set(fields[1]),
        south: field_set(fields[2]),
        west: field_set(fields[3]),
    }
}

fn bidirectional(fields: &[Field; 2]) -> Bidirectional<DynSet> {
    Bidirectional {
        positive: field_set(fields[0]),
        negative: field_set(fields[1]),
    }
}

fn stick(index: u8) -> GamepadStick {
    if index == 0 {
        GamepadStick::Left
    } else {
        GamepadStick::Right
    }
}

/// `bind.to(item)` for a single item (routes 0 and 3).
fn item_to(bind: &mut ActionBind, item: &Item, emods: &Mods, econds: &Conds) {
    match item {
        Item::In(input) => to_each(bind, build_bind(input), emods, econds),
        Item::Cardinal(keys) => to_each(bind, cardinal(keys), emods, econds),
        Item::Bidir(keys) => to_each(bind, bidirectional(keys), emods, econds),
        Item::Stick(index) => to_each(bind, stick(*index), emods, econds),
        Item::Wasd => to_each(bind, Cardinal::wasd_keys(), emods, econds),
        Item::Dpad => to_each(bind, Cardinal::dpad_buttons(), emods, econds),
    }
}

/// An item as a tuple member (routes 1 and 2).
fn item_set(item: &Item, emods: &Mods, econds: &Conds) -> DynSet {
    match item {
        Item::In(input) => each(build_bind(input), emods, econds),
        Item::Cardinal(keys) => each(cardinal(keys), emods, econds),
        Item::Bidir(keys) => each(bidirectional(keys), emods, econds),
        Item::Stick(index) => each(stick(*index), emods, econds),
        Item::Wasd => each(Cardinal::wasd_keys(), emods, econds),
        Item::Dpad => each(Cardinal::dpad_buttons(), emods, econds),
    }
}

/// Calls `$call` with the tuple `($first.., v0, .., vn)` made of all members of the vector `$items`.
macro_rules! to_tuple {
    ($items:expr, |$tuple:ident| $call:expr, $($n:literal => ($($v:ident),+)),* $(,)?) => {
        match $items.len() {
            $(
                $n => {
                    let Ok([$($v),+]) = <[DynSet; $n]>::try_from($items) else {
                        unreachable!("length is checked");
                    };
                    let $tuple = ($($v,)+);
                    $call;
                }
            )*
            _ => unreachable!("tuple size is checked by the parser"),
        }
    };
}

/// One `.to((i0, i1, ...))` call (route 1).
fn to_flat_tuple(bind: &mut ActionBind, items: Vec<DynSet>) {
    if items.is_empty() {
        return;
    }
    to_tuple!(items, |tuple| bind.to(tuple),
        1 => (a),
        2 => (a, b),
        3 => (a, b, c),
        4 => (a, b, c, d),
        5 => (a, b, c, d, e),
        6 => (a, b, c, d, e, f),
        7 => (a, b, c, d, e, f, g),
        8 => (a, b, c, d, e, f, g, h),
    );
}

/// One `.to(((i0, i1), (i2, ...)))` call (route 2, at least three items).
fn to_nested_tuple(bind: &mut ActionBind, mut items: Vec<DynSet>) {
    let rest = items.split_off(2);
    let Ok([first, second]) = <[DynSet; 2]>::try_from(items) else {
        unreachable!("length is checked");
    };
    let head = (first, second);
    to_tuple!(rest, |tail| bind.to((head, tail)),
        1 => (a),
        2 => (a, b),
        3 => (a, b, c),
        4 => (a, b, c, d),
        5 => (a, b, c, d, e),
        6 => (a, b, c, d, e, f),
    );
}

/// Replays one `act` block through the public API.
fn build_block(ctx: &mut ContextInstance, block: &ActBlock) {
    let (emods, econds) = (block.emods.as_slice(), block.econds.as_slice());
    let bind = bind_action(ctx, block.a);

    for (id, spec) in &block.amods {
        bind.with_modifiers(LogMod::new(*id, spec));
    }
    for (id, spec) in &block.aconds {
        bind.with_conditions(LogCond::new(*id, spec));
    }

    match block.route {
        0 => {
            for item in &block.items {
                item_to(bind, item, emods, econds);
            }
        }
        1 | 2 => {
            let items: Vec<DynSet> = block
                .items
                .iter()
                .map(|item| item_set(item, emods, econds))
                .collect();
            if block.route == 2 && items.len() >= 3 {
                to_nested_tuple(bind, items);
            } else {
                to_flat_tuple(bind, items);
            }
        }
        3 => {
            for item in &block.items {
                item_to(bind_action(ctx, block.a), item, emods, econds);
            }
        }
        _ => {
            let inputs: Vec<Input> = block
                .items
                .iter()
                .map(|item| match item {
                    Item::In(input) => build_input(&input.spec),
                    _ => unreachable!("routes 4 and 5 take plain inputs only"),
                })
                .collect();
            if block.route == 4 {
                to_each(bind, &inputs, emods, econds);
            } else {
                to_each(bind, &inputs[..], emods, econds);
            }
        }
    }
}

/// Builds the instance of context type `c` for the variant stored on the entity.
pub fn context_instance(world: &World, c: usize, variant: Option<u8>) -> ContextInstance {
    let mut ctx = ContextInstance::default();
    let Some(variant) = variant else {
        eprintln!("context_instance: Ctx<{c}> is not present on the entity");
        return ctx;
    };
    let cfg = world.resource::<CfgRes>();
    let Some(ctx_cfg) = cfg.scn.ctxs.get(&(c, variant)) else {
        return ctx;
    };

    if let Some(g) = ctx_cfg.pad {
        let gamepad = cfg.pads.get(&g).copied().unwrap_or(Entity::PLACEHOLDER);
        ctx.set_gamepad(gamepad);
    }

    for block in &ctx_cfg.blocks {
        build_block(&mut ctx, block);
    }

    ctx
}
