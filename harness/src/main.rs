//! `bei_harness <batch-file | ->`: drives the real `bevy_enhanced_input` crate inside a Bevy `App`
//! from a text batch file and prints the canonical trace described in `/verif/PROTOCOL.md`.

#[macro_use]
mod pool;
mod build;
mod num;
mod run;
mod shared;
mod spec;
mod tables;
mod unit;

use std::io::{self, BufWriter, Read, Write};
use std::panic::{self, AssertUnwindSafe};
use std::process::ExitCode;

use spec::Body;

fn main() -> ExitCode {
    let args: Vec<String> = std::env::args().collect();
    if args.len() != 2 {
        eprintln!("usage: bei_harness <batch-file | - | --tables>");
        return ExitCode::from(2);
    }
    if args[1] == "--tables" {
        let stdout = io::stdout();
        tables::print_tables(&mut stdout.lock());
        return ExitCode::SUCCESS;
    }

    let mut text = String::new();
    let read = if args[1] == "-" {
        io::stdin().read_to_string(&mut text).map(|_| ())
    } else {
        std::fs::read_to_string(&args[1]).map(|content| text = content)
    };
    if let Err(error) = read {
        eprintln!("cannot read `{}`: {error}", args[1]);
        return ExitCode::from(2);
    }

    let stdout = io::stdout();
    let mut out = BufWriter::with_capacity(1 << 16, stdout.lock());

    let scenarios = match spec::parse_batch(&text) {
        Ok(scenarios) => scenarios,
        Err(error) => {
            let _ = writeln!(out, "error {} {}", error.lineno, error.text);
            let _ = out.flush();
            eprintln!("malformed line {}: {}", error.lineno, error.text);
            return ExitCode::from(3);
        }
    };

    // Panics are trace items; keep stderr quiet unless asked.
    let verbose = std::env::var_os("BEI_HARNESS_PANICS").is_some();
    panic::set_hook(Box::new(move |info| {
        if verbose {
            eprintln!("{info}");
        }
    }));

    let mut panics = 0usize;
    for scenario in &scenarios {
        let _ = writeln!(out, "scenario {}", scenario.name);
        shared::reset();
        let result = panic::catch_unwind(AssertUnwindSafe(|| match &scenario.body {
            Body::App { cfg, ops } => run::run_app(cfg.clone(), ops, &mut out),
            Body::Unit(ops) => unit::run_unit(ops, &mut out),
        }));
        if result.is_err() {
            panics += 1;
            let _ = writeln!(out, "panic");
        }
        let _ = writeln!(out, "endscenario");
    }
    let _ = out.flush();
    eprintln!("{} scenarios, {} panicked", scenarios.len(), panics);

    ExitCode::SUCCESS
}
