-- Root of the `BEI` library: the model, the driver and every property module.
import BEI.Driver.Run
import BEI.Props.C20
