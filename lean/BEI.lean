-- This module serves as the root of the `BEI` library.
-- Import modules here that should be built as part of the library.
import BEI.Basic
