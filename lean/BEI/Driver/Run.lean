/-
  Scenario interpreter: runs the model on a batch file and prints the canonical trace (PROTOCOL.md).
-/
import BEI.Driver.Text
namespace BEI.Driver
open BEI

structure RunState where
  cfg : List ((Nat × Nat) × ContextInstance) := []
  curCtx : Option (Nat × Nat) := none
  curAct : Option Nat := none
  /-- `emod` / `econd` lines of the current `act` block -/
  eachMods : List (Nat × ModSpec) := []
  eachConds : List (Nat × CondSpec) := []
  schedPrinted : Bool := false
  app : AppState := {}
  keys : List Nat := []
  mouseButtons : List Nat := []
  pads : List Pad := []
  pendingMotion : Rat × Rat := (0, 0)
  pendingWheel : Rat × Rat := (0, 0)
  ui : List (Nat × Bool) := []
  dt : Rat := (1 : Rat) / 64
  speed : Rat := 1
  paused : Bool := false
  frameNo : Nat := 0
  reacts : List (Nat × Nat × Op) := []
  /-- `reactev`: (frame, entity, action, kind, op) — issued at the first matching delivery of that frame -/
  reactEvs : List (Nat × Nat × Nat × EvKind × Op) := []
  posts : List Op := []
  handles : List Nat := []
  panicked : Bool := false
  out : Array String := #[]
  /-- unit scenarios -/
  uMod : Option Mod := none
  uCond : Option Cond := none
  uActs : ActionsView := []
  uTick : Tick := { delta := 0, speed := 1 }

namespace RunState

def emit (s : RunState) (l : String) : RunState := { s with out := s.out.push l }

def setup (s : RunState) : Setup :=
  { types := ctxTypes,
    config := fun c v =>
      match s.cfg.find? (fun p => p.1 == (c, v)) with
      | some p => p.2
      | none => {} }

def modifyCtx (s : RunState) (f : ContextInstance → ContextInstance) : Option RunState :=
  match s.curCtx with
  | none => none
  | some key => some { s with cfg := s.cfg.map (fun p => if p.1 == key then (p.1, f p.2) else p) }

def modifyAct (s : RunState) (f : ActionBind → ActionBind) : Option RunState :=
  match s.curAct with
  | none => none
  | some a => s.modifyCtx (fun ci => ci.bind a (actDim a) (actConsume a) (actAccum a) f)

def modifyLastInput (ab : ActionBind) (f : InputBind → InputBind) : ActionBind :=
  match ab.bindings.reverse with
  | [] => ab
  | b :: rest => { ab with bindings := (f b :: rest).reverse }

def insertSorted (l : List Nat) (e : Nat) : List Nat :=
  if l.contains e then l else (l.filter (· < e)) ++ [e] ++ (l.filter (· > e))

def hasLines (s : RunState) : List String :=
  s.handles.flatMap (fun e =>
    (List.range 6).filterMap (fun c =>
      let w := s.app.world.has e c
      let r := (s.app.reg.get c e).isSome
      if w || r then
        some ("has " ++ toString e ++ " " ++ toString c ++ " " ++ (if w then "1" else "0") ++ " " ++ (if r then "1" else "0"))
      else none))

def groupsLine (s : RunState) : String :=
  let gs := s.app.reg.map (fun g =>
    toString g.ty.id ++ ":" ++ String.intercalate "," (g.entities.map toString))
  if gs.isEmpty then "groups" else "groups " ++ String.intercalate ";" gs

def pollLines (s : RunState) : List String :=
  s.handles.flatMap (fun e =>
    (List.range 6).flatMap (fun c =>
      match s.app.reg.get c e with
      | none => []
      | some ci =>
        (List.range 32).filterMap (fun a =>
          match ci.actions.get? a with
          | none => none
          | some d =>
            some ("poll " ++ toString e ++ " " ++ toString c ++ " " ++ toString a ++ " " ++ showState d.state ++ " "
              ++ toString (eventBits d.events) ++ " " ++ showValue d.value ++ " " ++ showRat d.elapsed ++ " "
              ++ showRat d.fired))))

def emitAll (s : RunState) (ls : List String) : RunState := ls.foldl emit s

/-- simple insertion sort on strings (used for the `despawn` delivery block) -/
def sortStrings (l : List String) : List String :=
  l.foldl (fun acc x => (acc.filter (· ≤ x)) ++ [x] ++ (acc.filter (fun y => ¬ (y ≤ x)))) []

def doOp (s : RunState) (line : String) (o : Op) : RunState :=
  let s := s.emit ("op " ++ line)
  let s := match o with
    | .spawn e => { s with handles := insertSorted s.handles e }
    | _ => s
  match applyOp s.setup s.app o with
  | none => { (s.emit "panic") with panicked := true }
  | some (app', dl) =>
    let lines := dl.map showDelivery
    let lines := match o with
      | .despawn _ => sortStrings lines
      | _ => lines
    let s := { s with app := app' }
    let s := s.emitAll lines
    let s := s.emitAll s.hasLines
    s.emit s.groupsLine

def addV (a b : Rat × Rat) : Rat × Rat := (a.1 + b.1, a.2 + b.2)

/-- An event-keyed reaction (`reactev`) fires at the first delivery of its frame that matches it.  The model's reaction
    scripts are keyed by the delivery index (`Reactions`), so the driver resolves the index: run the frame with the reactions
    fixed so far, find the earliest first match among the pending ones, fix those at that index, repeat (deliveries up to an
    index do not depend on reactions at or after it, so indices found this way are final). -/
def resolveEvReacts (run : Reactions → Option FrameOut) :
    Nat → Reactions → List (Nat × Nat × EvKind × Op) → Reactions
  | 0, fixed, _ => fixed
  | fuel + 1, fixed, pending =>
    match run fixed with
    | none => fixed
    | some o =>
      let first := fun (r : Nat × Nat × EvKind × Op) =>
        o.deliveries.findIdx? (fun d => d.entity == r.1 && d.action == r.2.1 && d.kind == r.2.2.1)
      match (pending.filterMap first).foldl (fun (m : Option Nat) i => match m with | none => some i | some j => some (min i j)) none with
      | none => fixed
      | some m =>
        let now := pending.filter (fun r => first r == some m)
        let later := pending.filter (fun r => first r != some m)
        resolveEvReacts run fuel (fixed ++ now.map (fun r => (m, r.2.2.2))) later

def doFrame (s : RunState) : RunState :=
  let n := s.frameNo
  let rawDelta := if n == 0 then 0 else s.dt
  let t := virtualTick rawDelta s.speed s.paused
  let raw : RawInput :=
    { keys := s.keys, mouseButtons := s.mouseButtons, motion := s.pendingMotion, wheel := s.pendingWheel,
      pads := s.pads, uiActive := s.ui.any (·.2) }
  let reacts := (s.reacts.filter (fun r => r.1 == n)).map (fun r => r.2)
  let evs := (s.reactEvs.filter (fun r => r.1 == n)).map (fun r => r.2)
  let reacts := resolveEvReacts (fun rs => frame s.setup s.app raw t rs s.posts 100000) (evs.length + 1) reacts evs
  let s := s.emit ("frame " ++ toString n ++ " " ++ showRat t.delta ++ " " ++ showRat s.speed ++ " "
    ++ (if s.paused then "1" else "0"))
  match frame s.setup s.app raw t reacts s.posts 100000 with
  | none => { (s.emit "panic") with panicked := true }
  | some o =>
    let s := { s with app := o.st, pendingMotion := (0, 0), pendingWheel := (0, 0), posts := [], frameNo := n + 1 }
    let s := s.emitAll ((o.log.filter (fun i => i.id != 0)).map showInv)
    let s := s.emitAll (o.deliveries.map showDelivery)
    let s := s.emit ("probe pre " ++ toString o.preCount)
    let s := s.emit ("probe update " ++ toString o.preCount)
    let s := s.emitAll s.pollLines
    let s := s.emitAll s.hasLines
    let s := s.emit s.groupsLine
    s.emit "endframe"

def setMem (l : List Nat) (k : Nat) (on : Bool) : List Nat :=
  if on then (if l.contains k then l else l ++ [k]) else l.filter (· != k)

def modifyPad (s : RunState) (g : Nat) (f : Pad → Pad) : RunState :=
  { s with pads := s.pads.map (fun p => if p.handle == g then f p else p) }

def showStateKind (st : AState) (k : Kind) : String := "r " ++ showState st ++ " " ++ ckindCode k

/-- add items (input bindings) to the current action: each gets the block's `each` modifiers / conditions appended -/
def addItems (s : RunState) (item : BSet) : Option RunState :=
  let em := s.eachMods.map (fun p => p.2.toMod p.1)
  let ec := s.eachConds.map (fun p => p.2.toCond p.1)
  s.modifyAct (fun ab => ab.to (.condsEach (.modsEach item em) ec))

/-- execute one parsed command; `none` = rejected (e.g. `amod` without a current action) -/
def exec (s : RunState) (line : String) : Cmd → Option RunState
  | .ctx c v gp =>
    some { s with cfg := s.cfg.filter (fun p => p.1 != (c, v)) ++ [((c, v), { gamepad := gp })],
                  curCtx := some (c, v), curAct := none }
  | .act a => ({ s with curAct := some a, eachMods := [], eachConds := [] }).modifyAct id
  | .route _ => some s
  | .emod id m => some { s with eachMods := s.eachMods ++ [(id, m)] }
  | .econd id c => some { s with eachConds := s.eachConds ++ [(id, c)] }
  | .presetCardinal n e w' x => s.addItems (cardinalSet n e w' x)
  | .presetBidir p' n => s.addItems (bidirSet p' n)
  | .presetStick r => s.addItems (.stick r)
  | .amod id m => s.modifyAct (fun ab => { ab with mods := ab.mods ++ [m.toMod id] })
  | .acond id c => s.modifyAct (fun ab => { ab with conds := ab.conds ++ [c.toCond id] })
  | .inp i => s.addItems (.single { input := i })
  | .imod id m =>
    let n := s.eachMods.length
    s.modifyAct (fun ab => modifyLastInput ab (fun b =>
      { b with mods := b.mods.take (b.mods.length - n) ++ [m.toMod id] ++ b.mods.drop (b.mods.length - n) }))
  | .icond id c =>
    let n := s.eachConds.length
    s.modifyAct (fun ab => modifyLastInput ab (fun b =>
      { b with conds := b.conds.take (b.conds.length - n) ++ [c.toCond id] ++ b.conds.drop (b.conds.length - n) }))
  | .key k on => some { s with keys := setMem s.keys k on }
  | .mb b on => some { s with mouseButtons := setMem s.mouseButtons b on }
  | .motion x y => some { s with pendingMotion := addV s.pendingMotion (x, y) }
  | .wheel x y => some { s with pendingWheel := addV s.pendingWheel (x, y) }
  | .padAdd g => if s.pads.any (·.handle == g) then some s else some { s with pads := s.pads ++ [{ handle := g }] }
  | .padDel g => some { s with pads := s.pads.filter (·.handle != g) }
  | .padBtn g b on => some (s.modifyPad g (fun p => { p with buttons := setMem p.buttons b on }))
  | .padAxis g x q => some (s.modifyPad g (fun p => { p with axes := p.axes.filter (·.1 != x) ++ [(x, q)] }))
  | .ui u (some on) => some { s with ui := s.ui.filter (·.1 != u) ++ [(u, on)] }
  | .ui u none => some { s with ui := s.ui.filter (·.1 != u) }
  | .dt q => some { s with dt := q }
  | .speed q => some { s with speed := q }
  | .pause b => some { s with paused := b }
  | .inject => some s
  | .react f k o => some { s with reacts := s.reacts ++ [(f, k, o)] }
  | .reactEv f e a kind o => some { s with reactEvs := s.reactEvs ++ [(f, e, a, kind, o)] }
  | .post o => some { s with posts := s.posts ++ [o] }
  | .frame => some s.doFrame
  | .op o => some (s.doOp line o)
  | .uConvert v d => some (s.emit ("r " ++ showValue (v.convert d)))
  | .uAsBool v => some (s.emit ("r " ++ (if v.asBool then "1" else "0")))
  | .uActuated v q => some (s.emit ("r " ++ (if v.isActuated q then "1" else "0")))
  | .uAs1 v => some (s.emit ("r " ++ showValue (.a1 v.as1)))
  | .uAs2 v => some (s.emit ("r " ++ showValue (.a2 v.as2.1 v.as2.2)))
  | .uAs3 v => some (s.emit ("r " ++ showValue (.a3 v.as3.x v.as3.y v.as3.z)))
  | .uZero d => some (s.emit ("r " ++ showValue (Value.zero d)))
  | .uMod m => some { s with uMod := some (m.toMod 0) }
  | .uCond c => some { s with uCond := some (c.toCond 0) }
  | .uAct a st =>
    let d := (ActionData.new (actDim a)).update { delta := 0, speed := 1 } st (Value.zero (actDim a))
    some { s with uActs := s.uActs.filter (·.1 != a) ++ [(a, d)] }
  | .uTick d sp => some { s with uTick := { delta := d, speed := sp } }
  | .uApply v =>
    match s.uMod with
    | none => none
    | some m =>
      let r := m.apply s.uActs s.uTick v
      some ({ s with uMod := some r.1 }.emit ("r " ++ showValue r.2))
  | .uEval v =>
    match s.uCond with
    | none => none
    | some c =>
      let r := c.eval s.uActs s.uTick v
      some ({ s with uCond := some r.1 }.emit (showStateKind r.2.1 r.2.2))

/-- interpret one line; `none` = malformed -/
def step (s : RunState) (line : String) : Option RunState :=
  if s.panicked then some s else
  match parseCmd? (line.splitOn " ") with
  | none => none
  | some cmd =>
    let isUnit := match cmd with
      | .uConvert .. | .uAsBool .. | .uActuated .. | .uAs1 .. | .uAs2 .. | .uAs3 .. | .uZero .. | .uMod .. | .uCond ..
      | .uAct .. | .uTick .. | .uApply .. | .uEval .. => true
      | _ => false
    let s := if !isUnit && !s.schedPrinted then
        { (s.emit "sched eis_in_preupdate inputsystem_before_eis preupdate_before_update") with schedPrinted := true }
      else s
    s.exec line cmd

end RunState

end BEI.Driver
