/-
  Text encoding of the line protocol (PROTOCOL.md): parsing and printing of numbers, values, specs.
-/
import BEI.Model.App
import BEI.Model.Conditions
import BEI.Model.Modifiers
import BEI.Model.BindSet
namespace BEI.Driver
open BEI

def showRat (q : Rat) : String :=
  if q.den == 1 then toString q.num else toString q.num ++ "/" ++ toString q.den

def parseRat? (s : String) : Option Rat :=
  match s.splitOn "/" with
  | [n] => n.toInt?.map (fun i => (i : Rat))
  | [n, d] =>
    match n.toInt?, d.toNat? with
    | some i, some k => if k == 0 then none else some ((i : Rat) / (k : Rat))
    | _, _ => none
  | _ => none

def showValue : Value → String
  | .bool b => if b then "b1" else "b0"
  | .a1 x => "1:" ++ showRat x
  | .a2 x y => "2:" ++ showRat x ++ "," ++ showRat y
  | .a3 x y z => "3:" ++ showRat x ++ "," ++ showRat y ++ "," ++ showRat z

def parseValue? (s : String) : Option Value :=
  if s == "b0" then some (.bool false)
  else if s == "b1" then some (.bool true)
  else
    match s.splitOn ":" with
    | [d, rest] =>
      match d, (rest.splitOn ",").map parseRat? with
      | "1", [some x] => some (.a1 x)
      | "2", [some x, some y] => some (.a2 x y)
      | "3", [some x, some y, some z] => some (.a3 x y z)
      | _, _ => none
    | _ => none

def showState : AState → String
  | .none => "none" | .ongoing => "ongoing" | .fired => "fired"

def showKind : EvKind → String
  | .started => "started" | .ongoing => "ongoing" | .fired => "fired"
  | .canceled => "canceled" | .completed => "completed"

def parseKind? : String → Option EvKind
  | "started" => some .started | "ongoing" => some .ongoing | "fired" => some .fired
  | "canceled" => some .canceled | "completed" => some .completed | _ => none

def parseDim? : String → Option Dim
  | "0" => some .bool | "1" => some .a1 | "2" => some .a2 | "3" => some .a3 | _ => none

def parseState? : String → Option AState
  | "0" => some .none | "1" => some .ongoing | "2" => some .fired | _ => none

def parseCKind? : String → Option Kind
  | "0" => some .explicit | "1" => some .implicit | "2" => some .blocker | "3" => some .eventsBlocker | _ => none

def ckindCode : Kind → String
  | .explicit => "0" | .implicit => "1" | .blocker => "2" | .eventsBlocker => "3"

def parseBool? : String → Option Bool
  | "0" => some false | "1" => some true | _ => none

def parseSwz? : String → Option Mod.Swz
  | "0" => some .yxz | "1" => some .zyx | "2" => some .xzy | "3" => some .yzx | "4" => some .zxy | _ => none

/-- natural number written as a rational token (`exp` exponents) -/
def parseNatQ? (s : String) : Option Nat :=
  match parseRat? s with
  | some q => if q.den == 1 && 0 ≤ q.num then some q.num.toNat else none
  | none => none

/-- pool: action facts (PROTOCOL.md §2) -/
def actDim (a : Nat) : Dim :=
  match a % 4 with | 0 => .bool | 1 => .a1 | 2 => .a2 | _ => .a3
def actConsume (a : Nat) : Bool := (a / 4) % 2 == 0
def actAccum (a : Nat) : Accum := if (a / 8) % 2 == 0 then .cumulative else .maxAbs

/-- pool: context types -/
def ctxTypes : List CtxType :=
  [⟨0, 9, false⟩, ⟨1, 5, true⟩, ⟨2, 2, false⟩, ⟨3, 0, true⟩, ⟨4, -3, false⟩, ⟨5, -7, true⟩]

/-- parsed modifier description (first-order; `toMod` builds the machine) -/
inductive ModSpec where
  | negate (x y z : Bool) | scale (x y z : Rat) | swizzle (s : Mod.Swz)
  | dzAxial (lo hi : Rat) | dzRadial (lo hi : Rat) | exp (x y z : Nat) | expq | dscale | dlerp (speed : Rat)
  | accBy (a : Nat) | sconv (d : Dim) | sadd (d : Dim) (p : V3)
  deriving DecidableEq, Repr, Inhabited

def ModSpec.toMod (id : Nat) : ModSpec → Mod
  | .negate x y z => Mod.negate id x y z
  | .scale x y z => Mod.scale id x y z
  | .swizzle s => Mod.swizzle id s
  | .dzAxial lo hi => Mod.deadZoneAxial id lo hi
  | .dzRadial lo hi => Mod.deadZoneRadialM id lo hi
  | .exp x y z => Mod.expCurve id x y z
  | .expq => Mod.expFrac id
  | .dscale => Mod.deltaScale id
  | .dlerp s => Mod.deltaLerp id s
  | .accBy a => Mod.accumulateBy id a
  | .sconv d => Mod.sconv id d
  | .sadd d p => Mod.sadd id d p

def parseMod? : List String → Option ModSpec
  | ["negate", x, y, z] => do some (.negate (← parseBool? x) (← parseBool? y) (← parseBool? z))
  | ["scale", x, y, z] => do some (.scale (← parseRat? x) (← parseRat? y) (← parseRat? z))
  | ["swizzle", s] => do some (.swizzle (← parseSwz? s))
  | ["dzaxial", lo, hi] => do some (.dzAxial (← parseRat? lo) (← parseRat? hi))
  | ["dzradial", lo, hi] => do some (.dzRadial (← parseRat? lo) (← parseRat? hi))
  | ["exp", x, y, z] =>
    match parseNatQ? x, parseNatQ? y, parseNatQ? z with
    | some a, some b, some c => some (.exp a b c)
    | _, _, _ => do
      -- positive, not all natural: only fixed-point inputs are in the modelled domain (see `Mod.expFrac`)
      let a ← parseRat? x; let b ← parseRat? y; let c ← parseRat? z
      if 0 < a && 0 < b && 0 < c then some .expq else none
  | ["dscale"] => some .dscale
  | ["dlerp", s] => do some (.dlerp (← parseRat? s))
  | ["accby", a] => do
    let a ← a.toNat?
    if a < 32 then some (.accBy a) else none
  | ["sconv", d] => do some (.sconv (← parseDim? d))
  | ["sadd", d, x, y, z] => do some (.sadd (← parseDim? d) ⟨← parseRat? x, ← parseRat? y, ← parseRat? z⟩)
  | _ => none

/-- parsed condition description -/
inductive CondSpec where
  | press (a : Rat) | justPress (a : Rat) | release (a : Rat)
  | hold (T : Rat) (oneShot : Bool) (a : Rat) (rel : Bool)
  | holdRel (T : Rat) (a : Rat) (rel : Bool) | tap (T : Rat) (a : Rat) (rel : Bool)
  | pulse (I : Rat) (limit : Nat) (onStart : Bool) (a : Rat) (rel : Bool)
  | chord (a : Nat) | blockBy (a : Nat) (eo : Bool)
  | scripted (k : Kind) (rs : List AState) | onActive (k : Kind) (rT rF : AState)
  deriving DecidableEq, Repr, Inhabited

def CondSpec.toCond (id : Nat) : CondSpec → Cond
  | .press a => Cond.press id a
  | .justPress a => Cond.justPress id a
  | .release a => Cond.release id a
  | .hold T os a rel => Cond.hold id T os a rel
  | .holdRel T a rel => Cond.holdAndRelease id T a rel
  | .tap T a rel => Cond.tap id T a rel
  | .pulse I lim os a rel => Cond.pulse id I lim os a rel
  | .chord a => Cond.chord id a
  | .blockBy a eo => Cond.blockBy id a eo
  | .scripted k rs => Cond.scripted id k rs
  | .onActive k rT rF => Cond.onActive id k rT rF

def parseCond? : List String → Option CondSpec
  | ["press", a] => do some (.press (← parseRat? a))
  | ["justpress", a] => do some (.justPress (← parseRat? a))
  | ["release", a] => do some (.release (← parseRat? a))
  | ["hold", T, os, a, rel] => do
    some (.hold (← parseRat? T) (← parseBool? os) (← parseRat? a) (← parseBool? rel))
  | ["holdrel", T, a, rel] => do some (.holdRel (← parseRat? T) (← parseRat? a) (← parseBool? rel))
  | ["tap", T, a, rel] => do some (.tap (← parseRat? T) (← parseRat? a) (← parseBool? rel))
  | ["pulse", I, lim, os, a, rel] => do
    some (.pulse (← parseRat? I) (← lim.toNat?) (← parseBool? os) (← parseRat? a) (← parseBool? rel))
  | ["chord", a] => do
    let a ← a.toNat?
    if a < 32 then some (.chord a) else none
  | ["blockby", a, eo] => do
    let a ← a.toNat?
    if a < 32 then some (.blockBy a (← parseBool? eo)) else none
  | "sscript" :: k :: rs => do
    let k ← parseCKind? k
    let rs ← rs.mapM parseState?
    if rs.isEmpty then none else some (.scripted k rs)
  | ["sact", k, rT, rF] => do some (.onActive (← parseCKind? k) (← parseState? rT) (← parseState? rF))
  | _ => none

def parseMask? (s : String) : Option ModKeys := do
  let n ← s.toNat?
  if n < 16 then some (ModKeys.ofMask n) else none

def parseInput? : List String → Option Input
  | ["key", k, m] => do
    let k ← k.toNat?
    if k < 18 then some (.key k (← parseMask? m)) else none
  | ["mbtn", b, m] => do
    let b ← b.toNat?
    if b < 3 then some (.mbtn b (← parseMask? m)) else none
  | ["motion", m] => do some (.motion (← parseMask? m))
  | ["wheel", m] => do some (.wheel (← parseMask? m))
  | ["padbtn", b] => do
    let b ← b.toNat?
    if b < 8 then some (.padBtn b) else none
  | ["padaxis", x] => do
    let x ← x.toNat?
    if x < 4 then some (.padAxis x) else none
  | _ => none

/-- `<key index>:<mod mask>` -/
def parseKeyMask? (s : String) : Option Input :=
  match s.splitOn ":" with
  | [k, m] => do
    let k ← k.toNat?
    if k < 18 then some (.key k (← parseMask? m)) else none
  | _ => none

/-- a field of a preset: `<k>:<m>` key, `y<k>:<m>` key carrying its own `SwizzleAxis::YXZ`, `s0|s1` nested stick preset,
    `x<axis>` gamepad axis, `b<button>` gamepad button -/
inductive FieldSpec where
  | plain (i : Input) | swz (i : Input) | stick (right : Bool)
  deriving Repr

def parseField? (s : String) : Option FieldSpec :=
  match s.toList with
  | 'y' :: rest => (parseKeyMask? (String.ofList rest)).map .swz
  | ['s', '0'] => some (.stick false)
  | ['s', '1'] => some (.stick true)
  | 'x' :: rest => do
    let x ← (String.ofList rest).toNat?
    if x < 4 then some (.plain (.padAxis x)) else none
  | 'b' :: rest => do
    let b ← (String.ofList rest).toNat?
    if b < 8 then some (.plain (.padBtn b)) else none
  | _ => (parseKeyMask? s).map .plain

def parseOp? : List String → Option Op
  | ["spawn", e] => do some (.spawn (← e.toNat?))
  | ["insert", e, c, v] => do
    let c ← c.toNat?
    let v ← v.toNat?
    if c < 6 && v < 4 then some (.insert (← e.toNat?) c v) else none
  | ["remove", e, c] => do
    let c ← c.toNat?
    if c < 6 then some (.remove (← e.toNat?) c) else none
  | ["despawn", e] => do some (.despawn (← e.toNat?))
  | ["rebuild"] => some .rebuild
  | _ => none

/-- one parsed protocol line (first-order) -/
inductive Cmd where
  | ctx (c v : Nat) (gp : Device) | act (a : Nat)
  | amod (id : Nat) (m : ModSpec) | acond (id : Nat) (c : CondSpec)
  | inp (i : Input) | imod (id : Nat) (m : ModSpec) | icond (id : Nat) (c : CondSpec)
  | key (k : Nat) (on : Bool) | mb (b : Nat) (on : Bool) | motion (x y : Rat) | wheel (x y : Rat)
  | padAdd (g : Nat) | padDel (g : Nat) | padBtn (g b : Nat) (on : Bool) | padAxis (g x : Nat) (q : Rat)
  | ui (u : Nat) (st : Option Bool) | dt (q : Rat) | speed (q : Rat) | pause (b : Bool) | inject
  | react (f k : Nat) (o : Op) | reactEv (f e a : Nat) (kind : EvKind) (o : Op) | post (o : Op) | frame | op (o : Op)
  | route (r : Nat) | emod (id : Nat) (m : ModSpec) | econd (id : Nat) (c : CondSpec)
  | presetCardinal (n e s w : FieldSpec) | presetBidir (p n : FieldSpec) | presetStick (right : Bool)
  | uConvert (v : Value) (d : Dim) | uAsBool (v : Value) | uActuated (v : Value) (q : Rat)
  | uAs1 (v : Value) | uAs2 (v : Value) | uAs3 (v : Value) | uZero (d : Dim)
  | uMod (m : ModSpec) | uCond (c : CondSpec) | uAct (a : Nat) (st : AState) | uTick (d sp : Rat)
  | uApply (v : Value) | uEval (v : Value)

def parseCmd? : List String → Option Cmd
  | ["ctx", c, v, "any"] => do
    let c ← c.toNat?; let v ← v.toNat?
    if c < 6 && v < 4 then some (.ctx c v .any) else none
  | ["ctx", c, v, "pad", g] => do
    let c ← c.toNat?; let v ← v.toNat?; let g ← g.toNat?
    if c < 6 && v < 4 then some (.ctx c v (.single g)) else none
  | ["act", a] => do
    let a ← a.toNat?
    if a < 32 then some (.act a) else none
  | "amod" :: id :: spec => do some (.amod (← id.toNat?) (← parseMod? spec))
  | "acond" :: id :: spec => do some (.acond (← id.toNat?) (← parseCond? spec))
  | "in" :: spec => do some (.inp (← parseInput? spec))
  | "imod" :: id :: spec => do some (.imod (← id.toNat?) (← parseMod? spec))
  | "icond" :: id :: spec => do some (.icond (← id.toNat?) (← parseCond? spec))
  | ["key", k, on] => do
    let k ← k.toNat?
    if k < 18 then some (.key k (← parseBool? on)) else none
  | ["mb", b, on] => do
    let b ← b.toNat?
    if b < 3 then some (.mb b (← parseBool? on)) else none
  | ["motion", x, y] => do some (.motion (← parseRat? x) (← parseRat? y))
  | ["wheel", x, y] => do some (.wheel (← parseRat? x) (← parseRat? y))
  | ["pad+", g] => do some (.padAdd (← g.toNat?))
  | ["pad-", g] => do some (.padDel (← g.toNat?))
  | ["padbtn", g, b, on] => do
    let b ← b.toNat?
    if b < 8 then some (.padBtn (← g.toNat?) b (← parseBool? on)) else none
  | ["padaxis", g, x, q] => do
    let x ← x.toNat?
    if x < 4 then some (.padAxis (← g.toNat?) x (← parseRat? q)) else none
  | ["ui", u, st] => do
    let u ← u.toNat?
    match st with
    | "none" => some (.ui u (some false))
    | "hovered" | "pressed" => some (.ui u (some true))
    | "gone" => some (.ui u none)
    | _ => none
  | ["dt", q] => do some (.dt (← parseRat? q))
  | ["speed", q] => do some (.speed (← parseRat? q))
  | ["pause", b] => do some (.pause (← parseBool? b))
  | ["inject", m] => if m == "direct" || m == "events" || m == "first" then some .inject else none
  | ["route", r] => do
    let r ← r.toNat?
    if r < 6 then some (.route r) else none
  | "emod" :: id :: spec => do some (.emod (← id.toNat?) (← parseMod? spec))
  | "econd" :: id :: spec => do some (.econd (← id.toNat?) (← parseCond? spec))
  | ["preset", "cardinal", n, e, s, w] => do
    some (.presetCardinal (← parseField? n) (← parseField? e) (← parseField? s) (← parseField? w))
  | ["preset", "bidir", p, n] => do some (.presetBidir (← parseField? p) (← parseField? n))
  | ["preset", "stick", side] => do some (.presetStick (← parseBool? side))
  -- `Cardinal::wasd_keys()` / `Cardinal::dpad_buttons()`: north east south west (pool keys W=16 D=3 S=17 A=0; pad buttons 4..7)
  | ["preset", "wasd"] =>
    some (.presetCardinal (.plain (.key 16 {})) (.plain (.key 3 {})) (.plain (.key 17 {})) (.plain (.key 0 {})))
  | ["preset", "dpad"] =>
    some (.presetCardinal (.plain (.padBtn 4)) (.plain (.padBtn 7)) (.plain (.padBtn 5)) (.plain (.padBtn 6)))
  | "react" :: f :: k :: op => do
    let o ← parseOp? op
    match o with
    | .spawn _ => none
    | _ => some (.react (← f.toNat?) (← k.toNat?) o)
  | "reactev" :: f :: e :: a :: kind :: op => do
    let o ← parseOp? op
    let a ← a.toNat?
    match o with
    | .spawn _ => none
    | _ => if a < 32 then some (.reactEv (← f.toNat?) (← e.toNat?) a (← parseKind? kind) o) else none
  | "post" :: op => do
    let o ← parseOp? op
    match o with
    | .spawn _ => none
    | _ => some (.post o)
  | ["frame"] => some .frame
  | ["u", "convert", v, d] => do some (.uConvert (← parseValue? v) (← parseDim? d))
  | ["u", "asbool", v] => do some (.uAsBool (← parseValue? v))
  | ["u", "actuated", v, q] => do some (.uActuated (← parseValue? v) (← parseRat? q))
  | ["u", "as1", v] => do some (.uAs1 (← parseValue? v))
  | ["u", "as2", v] => do some (.uAs2 (← parseValue? v))
  | ["u", "as3", v] => do some (.uAs3 (← parseValue? v))
  | ["u", "zero", d] => do some (.uZero (← parseDim? d))
  | "umod" :: spec => do some (.uMod (← parseMod? spec))
  | "ucond" :: spec => do some (.uCond (← parseCond? spec))
  | ["uact", a, st] => do
    let a ← a.toNat?
    if a < 32 then some (.uAct a (← parseState? st)) else none
  | ["utick", d, sp] => do some (.uTick (← parseRat? d) (← parseRat? sp))
  | ["uapply", v] => do some (.uApply (← parseValue? v))
  | ["ueval", v] => do some (.uEval (← parseValue? v))
  | toks => (parseOp? toks).map Cmd.op

def showOptRat : Option Rat → String
  | some q => showRat q
  | none => "-"

def showDelivery (d : Delivery) : String :=
  "dlv " ++ toString d.entity ++ " " ++ toString d.action ++ " " ++ showKind d.kind ++ " " ++ showState d.state
    ++ " " ++ showValue d.value ++ " " ++ showOptRat d.elapsed ++ " " ++ showOptRat d.fired

/-- preset expansions go through the binding-set model (`BSet.bindings`, C19) -/
def FieldSpec.toBSet : FieldSpec → BSet
  | .plain i => .single { input := i }
  | .swz i => .single (BSet.withMods { input := i } [BSet.swzYXZ])
  | .stick r => .stick r
def cardinalSet (n e s w : FieldSpec) : BSet := .cardinal n.toBSet e.toBSet s.toBSet w.toBSet
def bidirSet (p n : FieldSpec) : BSet := .bidir p.toBSet n.toBSet

def showInv : Inv → String
  | .cond id v out _ => "inv " ++ toString id ++ " " ++ showValue v ++ " " ++ showState out
  | .mod id v out => "inv " ++ toString id ++ " " ++ showValue v ++ " " ++ showValue out

end BEI.Driver
