/-
  C20 for the code translated from the source (`BEI/Gen/Code/*.lean`): the property's theorems restated about the translated
  functions themselves, obtained from the model-level theorems through the bridge theorems.
-/
import BEI.Bridge.Value
import BEI.Props.C20
namespace BEI.Bridge.Source
open BEI.Rs BEI.Bridge

/-! ### C20 — `ActionValue` conversions of `src/action_value.rs` -/

theorem toModel_injective {a b : ActionValue} (h : a.toModel = b.toModel) : a = b := by
  have := congrArg ActionValue.ofModel h
  simpa using this

theorem dim_toModel_injective {a b : ActionValueDim} (h : a.toModel = b.toModel) : a = b := by
  cases a <;> cases b <;> simp_all [ActionValueDim.toModel]

/-- converting yields the requested dimension -/
theorem convert_dim (v : ActionValue) (d : ActionValueDim) : (v.convert d).dim = d := by
  apply dim_toModel_injective
  rw [value_dim, value_convert]
  exact Props.C20.convert_dim _ _

/-- converting to the own dimension is the identity -/
theorem convert_self (v : ActionValue) : v.convert v.dim = v := by
  apply toModel_injective
  rw [value_convert, value_dim]
  exact Props.C20.convert_self _

/-- widening then narrowing back returns the original -/
theorem widen_narrow (v : ActionValue) (d : ActionValueDim) (h : Props.C20.widens v.toModel.dim d.toModel) :
    (v.convert d).convert v.dim = v := by
  apply toModel_injective
  rw [value_convert, value_convert, value_dim]
  exact Props.C20.widen_narrow _ _ h

/-- truthiness is preserved by widening -/
theorem widen_truthy (v : ActionValue) (d : ActionValueDim) (h : Props.C20.widens v.toModel.dim d.toModel) :
    (v.convert d).as_bool = v.as_bool := by
  rw [value_as_bool, value_as_bool, value_convert]
  exact Props.C20.widen_truthy _ _ h

/-- the zero value of a dimension has that dimension and is falsy -/
theorem zero_dim_falsy (d : ActionValueDim) : (ActionValue.zero d).dim = d ∧ (ActionValue.zero d).as_bool = false := by
  constructor
  · apply dim_toModel_injective
    rw [value_dim, value_zero]
    exact Props.C20.zero_dim _
  · rw [value_as_bool, value_zero]
    exact Props.C20.zero_falsy _

end BEI.Bridge.Source
