/-
  Bridge: `apply` of the built-in modifiers as translated from `/repo/src/input_context/input_modifier/*.rs`
  = the model's value functions (`BEI/Model/Modifiers.lean`).
-/
import BEI.Gen.Code.Modifiers
import BEI.Model.Modifiers
import BEI.Bridge.Value
namespace BEI.Bridge
open BEI.Rs

theorem scale_apply (m : Scale) (v : ActionValue) :
    (m.apply v).2.toModel = Mod.scaleV m.factor.x m.factor.y m.factor.z v.toModel ∧ (m.apply v).1 = m := by
  cases v with
  | vBool b => cases b <;> simp [rs_modifiers, Mod.scaleV, RInto.into, ActionValue.toModel, boolToRat]
  | vAxis1D x => simp [rs_modifiers, Mod.scaleV, RInto.into, ActionValue.toModel]
  | vAxis2D p => simp [rs_modifiers, Mod.scaleV, RInto.into, ActionValue.toModel, Vec3.xy]
  | vAxis3D p => simp [rs_modifiers, Mod.scaleV, RInto.into, ActionValue.toModel]

theorem deltaScale_apply (m : DeltaScale) (t : Tick) (v : ActionValue) :
    (m.apply t v).2.toModel = Mod.deltaScaleV t.delta v.toModel := by
  cases v with
  | vBool b => cases b <;> simp [rs_modifiers, Mod.deltaScaleV, RInto.into, ActionValue.toModel, boolToRat, Tick.delta_secs]
  | vAxis1D x => simp [rs_modifiers, Mod.deltaScaleV, RInto.into, ActionValue.toModel, Tick.delta_secs]
  | vAxis2D p => simp [rs_modifiers, Mod.deltaScaleV, RInto.into, ActionValue.toModel, Tick.delta_secs]
  | vAxis3D p => simp [rs_modifiers, Mod.deltaScaleV, RInto.into, ActionValue.toModel, Tick.delta_secs]

end BEI.Bridge
