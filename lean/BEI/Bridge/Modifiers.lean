/-
  Bridge: `apply` of the built-in modifiers as translated from `/repo/src/input_context/input_modifier/*.rs`
  = the model's value functions (`BEI/Model/Modifiers.lean`): `Negate`, `DeadZone` (axial and radial, with the prelude's
  `length` / `normalize_or_zero`), `DeltaLerp` (snap test with the constant read from the source, clamped factor, stored
  previous output), `SwizzleAxis`, `Scale`, `DeltaScale`.  The three modifiers that turn `Bool` into `Axis1D` by calling
  themselves are translated with fuel; the theorems show that fuel 2 suffices for every input (the recursion of the source
  terminates after one step).  `ExponentialCurve` (`powf`) is not translated.
-/
import BEI.Gen.Code.Modifiers
import BEI.Model.Modifiers
import BEI.Bridge.Value
namespace BEI.Bridge
open BEI.Rs

macro "mod_bridge" : tactic => `(tactic| (
  first
  | done
  | (simp [rs_modifiers, RInto.into, ActionValue.toModel, ActionValue.ofModel, boolToRat, Tick.delta_secs, Vec3.xy, Vec2.Y, Vec3.Z,
      Vec2.yx, Vec3.yxz, Vec2.new, Vec3.new, Vec2.length_squared, Vec3.zyx, Vec3.xzy, Vec3.yzx, Vec3.zxy, Rat.fabs, Rat.fmax, Rat.fmin, Rat.fsignum] <;>
     (try (first | rfl | congr)))))

theorem negate_apply (m : Negate) (v : ActionValue) (n : Nat) :
    Negate.applyF (n + 2) m v = some (m, ActionValue.ofModel (Mod.negateV m.x m.y m.z v.toModel)) := by
  obtain ⟨mx, my, mz⟩ := m
  cases v with
  | vBool b => cases b <;> cases mx <;> simp [rs_modifiers, RInto.into, ActionValue.toModel, ActionValue.ofModel, Mod.negateV, boolToRat]
  | vAxis1D x => cases mx <;> simp [rs_modifiers, RInto.into, ActionValue.toModel, ActionValue.ofModel, Mod.negateV]
  | vAxis2D p => cases mx <;> cases my <;> simp [rs_modifiers, RInto.into, ActionValue.toModel, ActionValue.ofModel, Mod.negateV]
  | vAxis3D p => cases mx <;> cases my <;> cases mz <;> simp [rs_modifiers, RInto.into, ActionValue.toModel, ActionValue.ofModel, Mod.negateV]

def swzM : SwizzleAxis → Mod.Swz
  | .YXZ => .yxz | .ZYX => .zyx | .XZY => .xzy | .YZX => .yzx | .ZXY => .zxy

theorem swizzle_apply (m : SwizzleAxis) (v : ActionValue) (n : Nat) :
    SwizzleAxis.applyF (n + 2) m v = some (m, ActionValue.ofModel (Mod.swizzleV (swzM m) v.toModel)) := by
  cases v with
  | vBool b => cases b <;> cases m <;> simp [Mod.swizzleV, Mod.swizzleV.swizzle1, swzM, ActionValue.ofModel] <;> mod_bridge
  | vAxis1D x => cases m <;> simp [Mod.swizzleV, Mod.swizzleV.swizzle1, swzM, ActionValue.ofModel] <;> mod_bridge
  | vAxis2D p => cases m <;> simp [Mod.swizzleV, swzM, ActionValue.ofModel] <;> mod_bridge
  | vAxis3D p => cases m <;> simp [Mod.swizzleV, swzM, ActionValue.ofModel] <;> mod_bridge

theorem deadZone_dead_zone (m : DeadZone) (x : Rat) :
    m.dead_zone x = deadZone1 m.lower_threshold m.upper_threshold x := by
  simp [rs_modifiers, deadZone1, Rat.fabs, Rat.fmax, Rat.fmin, Rat.fsignum]

theorem deadZone_apply_axial (m : DeadZone) (v : ActionValue) (h : m.kind = .Axial) :
    (m.apply v).2.toModel = Mod.deadZoneAxialV m.lower_threshold m.upper_threshold v.toModel ∧ (m.apply v).1 = m := by
  have hd := deadZone_dead_zone m
  cases v with
  | vBool b => cases b <;> simp [DeadZone.apply, hd, RInto.into, ActionValue.toModel, Mod.deadZoneAxialV, boolToRat]
  | vAxis1D x => simp [DeadZone.apply, hd, RInto.into, ActionValue.toModel, Mod.deadZoneAxialV]
  | vAxis2D p => simp [DeadZone.apply, h, hd, RInto.into, ActionValue.toModel, Mod.deadZoneAxialV]
  | vAxis3D p => simp [DeadZone.apply, h, hd, RInto.into, ActionValue.toModel, Mod.deadZoneAxialV]

theorem deadZone_apply_radial (m : DeadZone) (v : ActionValue) (h : m.kind = .Radial) :
    (m.apply v).2.toModel = Mod.deadZoneRadialV V3.len m.lower_threshold m.upper_threshold v.toModel ∧ (m.apply v).1 = m := by
  have hd := deadZone_dead_zone m
  cases v with
  | vBool b => cases b <;> simp [DeadZone.apply, hd, RInto.into, ActionValue.toModel, Mod.deadZoneRadialV, boolToRat]
  | vAxis1D x => simp [DeadZone.apply, hd, RInto.into, ActionValue.toModel, Mod.deadZoneRadialV]
  | vAxis2D p =>
    simp only [DeadZone.apply, h, hd, RInto.into, ActionValue.toModel, Mod.deadZoneRadialV, deadZoneRadial,
      Vec2.normalize_or_zero, Vec2.length]
    split <;> simp_all [Vec2.ZERO, V3.zero, V3.scale]
  | vAxis3D p =>
    simp only [DeadZone.apply, h, hd, RInto.into, ActionValue.toModel, Mod.deadZoneRadialV, deadZoneRadial,
      Vec3.normalize_or_zero, Vec3.length]
    split <;> simp_all [Vec3.ZERO, V3.zero, V3.scale]

/-- the model's memory of a translated `DeltaLerp` -/
def dlerpM (m : DeltaLerp) : V3 := m.prev_value.toModel

theorem deltaLerp_apply (m : DeltaLerp) (t : Tick) (v : ActionValue) (n : Nat) :
    ∃ r, DeltaLerp.applyF (n + 2) m t v = some r
      ∧ dlerpM r.1 = (Mod.deltaLerpStep m.speed (dlerpM m) t v.toModel).1
      ∧ r.2.toModel = (Mod.deltaLerpStep m.speed (dlerpM m) t v.toModel).2
      ∧ r.1.speed = m.speed := by
  have key : ∀ (w : ActionValue) (k : Nat), (∀ b, w ≠ .vBool b) →
      ∃ r, DeltaLerp.applyF (k + 1) m t w = some r
        ∧ dlerpM r.1 = (Mod.deltaLerpStep m.speed (dlerpM m) t w.toModel).1
        ∧ r.2.toModel = (Mod.deltaLerpStep m.speed (dlerpM m) t w.toModel).2
        ∧ r.1.speed = m.speed := by
    intro w k hw
    have h3 := value_as_axis3d w
    have hp : w.toModel.promote = w.toModel := by
      cases w with
      | vBool b => exact absurd rfl (hw b)
      | vAxis1D x => rfl
      | vAxis2D p => rfl
      | vAxis3D p => rfl
    have hrun : DeltaLerp.applyF (k + 1) m t w =
        (if rlt (m.prev_value.distance_squared w.as_axis3d) Gen.dlerpSnapEps then
          some ({ m with prev_value := w.as_axis3d }, w)
        else
          some ({ m with prev_value := m.prev_value.lerp w.as_axis3d ((t.delta_secs * m.speed).fmin 1) },
                (ActionValue.vAxis3D (m.prev_value.lerp w.as_axis3d ((t.delta_secs * m.speed).fmin 1))).convert w.dim)) := by
      cases w with
      | vBool b => exact absurd rfl (hw b)
      | vAxis1D x => rfl
      | vAxis2D p => rfl
      | vAxis3D p => rfl
    have hx : ∀ (p : Vec3), (ActionValue.vAxis3D p).toModel = Value.a3 p.x p.y p.z := fun _ => rfl
    rw [hrun]
    unfold Mod.deltaLerpStep
    simp only [hp, ← h3, rlt_rat, ltQ, Vec3.distance_squared, dlerpM, Tick.delta_secs, Rat.fmin]
    by_cases hc : (V3.sub m.prev_value.toModel w.as_axis3d.toModel).normSq < Gen.dlerpSnapEps
    · have hd : decide ((V3.sub m.prev_value.toModel w.as_axis3d.toModel).normSq < Gen.dlerpSnapEps) = true := decide_eq_true hc
      simp only [hd, if_pos hc, ↓reduceIte]
      exact ⟨_, rfl, rfl, rfl, rfl⟩
    · have hd : decide ((V3.sub m.prev_value.toModel w.as_axis3d.toModel).normSq < Gen.dlerpSnapEps) = false := decide_eq_false hc
      simp only [hd, if_neg hc, Bool.false_eq_true, ↓reduceIte]
      refine ⟨_, rfl, ?_, ?_, rfl⟩
      · simp [Vec3.lerp, Mod.lerp3, Vec3.toModel, V3.scale]
        rfl
      · simp [value_convert, value_dim, Value.ofV3, hx, Vec3.lerp, Mod.lerp3, Vec3.toModel, V3.scale]
        rfl
  cases v with
  | vBool b =>
    have hstep : DeltaLerp.applyF (n + 2) m t (.vBool b) = DeltaLerp.applyF (n + 1) m t (.vAxis1D (if b then 1 else 0)) := by
      cases b <;> rfl
    rw [hstep]
    have := key (.vAxis1D (if b then 1 else 0)) n (by intro b' h; cases h)
    cases b <;> exact this
  | vAxis1D x => exact key _ (n + 1) (by intro b' h; cases h)
  | vAxis2D p => exact key _ (n + 1) (by intro b' h; cases h)
  | vAxis3D p => exact key _ (n + 1) (by intro b' h; cases h)

theorem scale_apply (m : Scale) (v : ActionValue) :
    (m.apply v).2.toModel = Mod.scaleV m.factor.x m.factor.y m.factor.z v.toModel ∧ (m.apply v).1 = m := by
  cases v with
  | vBool b => cases b <;> simp [Mod.scaleV] <;> mod_bridge
  | vAxis1D x => simp [Mod.scaleV] <;> mod_bridge
  | vAxis2D p => simp [Mod.scaleV] <;> mod_bridge
  | vAxis3D p => simp [Mod.scaleV] <;> mod_bridge

theorem deltaScale_apply (m : DeltaScale) (t : Tick) (v : ActionValue) :
    (m.apply t v).2.toModel = Mod.deltaScaleV t.delta v.toModel := by
  cases v with
  | vBool b => cases b <;> simp [Mod.deltaScaleV] <;> mod_bridge
  | vAxis1D x => simp [Mod.deltaScaleV] <;> mod_bridge
  | vAxis2D p => simp [Mod.deltaScaleV] <;> mod_bridge
  | vAxis3D p => simp [Mod.deltaScaleV] <;> mod_bridge

end BEI.Bridge
