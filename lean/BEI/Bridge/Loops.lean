/-
  Bridge: the loops `TriggerTracker::apply_modifiers` and `apply_conditions` as translated from the source (left folds over the
  trait objects) = the model's `Tracker.applyModifiers` / `applyConditions`, for **every list of arbitrary machines**: every
  object is invoked exactly once, in order, with no early out, on the value as it stands at its turn; the flags after the loop are
  the model's; the updated objects come back in the same order.  With `tracker_state`, the condition law of C03 therefore holds
  for the source's loop over any list of user-defined conditions, and the per-tracker part of C12 (one invocation each, in
  declaration order) for the source's loops.
-/
import BEI.Gen.Code.Loops
import BEI.Bridge.Tracker
namespace BEI.Bridge
open BEI.Rs
universe u v

/-- a fold whose step only appends to the second component can be started from the empty list -/
theorem foldl_append_acc {α : Type u} {β : Type v} (F : α × List β → β → α × List β)
    (hF : ∀ a done c, F (a, done) c = ((F (a, []) c).1, done ++ (F (a, []) c).2)) :
    ∀ (cs : List β) (a : α) (done : List β),
      cs.foldl F (a, done) = ((cs.foldl F (a, [])).1, done ++ (cs.foldl F (a, [])).2) := by
  intro cs
  induction cs with
  | nil => intro a done; simp
  | cons c cs ih =>
    intro a done
    simp only [List.foldl]
    rw [hF a done c, ih, ih (F (a, []) c).1 (F (a, []) c).2]
    simp [List.append_assoc]

/-- one iteration of the translated `apply_conditions` loop: evaluate the object (once), then the translated flag update
    (`note`) with the kind the *updated* object reports; the object is appended to the objects already done -/
theorem conditions_step (av : ActionsView) (tk : Tick) (t : TriggerTracker) (done : List Cond) (c : Cond) :
    TriggerTracker.apply_conditions_step av tk (t, done) c =
      (t.note (c.evaluate_obj av tk t.value).2 (c.evaluate_obj av tk t.value).1.kind_obj,
       done ++ [(c.evaluate_obj av tk t.value).1]) := by
  simp only [rs_loops]
  cases h : (c.evaluate_obj av tk t.value).1.kind_obj with
  | Explicit => simp [rs_tracker, h]
  | Implicit => simp [rs_tracker, h]
  | Blocker eo => cases eo <;> simp [rs_tracker, h]

theorem tracker_apply_conditions (av : ActionsView) (tk : Tick) : ∀ (cs : List Cond) (t : TriggerTracker),
    trackerM (t.apply_conditions av tk cs).1 = ((trackerM t).applyConditions av tk cs).1
    ∧ (t.apply_conditions av tk cs).2 = ((trackerM t).applyConditions av tk cs).2.1 := by
  intro cs
  induction cs with
  | nil => intro t; simp [TriggerTracker.apply_conditions, Tracker.applyConditions]
  | cons c cs ih =>
    intro t
    have hF : ∀ a done c, TriggerTracker.apply_conditions_step av tk (a, done) c =
        ((TriggerTracker.apply_conditions_step av tk (a, []) c).1, done ++ (TriggerTracker.apply_conditions_step av tk (a, []) c).2) := by
      intro a done c; simp [conditions_step]
    obtain ⟨ih1, ih2⟩ := ih (t.note (c.evaluate_obj av tk t.value).2 (c.evaluate_obj av tk t.value).1.kind_obj)
    simp only [TriggerTracker.apply_conditions, List.foldl] at ih1 ih2 ⊢
    rw [conditions_step, foldl_append_acc _ hF]
    have hn : trackerM (t.note (c.evaluate_obj av tk t.value).2 (c.evaluate_obj av tk t.value).1.kind_obj)
        = (trackerM t).note (c.eval av tk (trackerM t).value).2.2 (c.eval av tk (trackerM t).value).2.1 := by
      rw [tracker_note]
      simp [Cond.evaluate_obj, Cond.kind_obj, Cond.eval, trackerM]
    simp only [Tracker.applyConditions]
    rw [hn] at ih1 ih2
    refine ⟨ih1, ?_⟩
    rw [ih2]
    simp [Cond.evaluate_obj, trackerM]

/-- one iteration of the translated `apply_modifiers` loop: apply the object (once) to the current value and store the result -/
theorem modifiers_step (av : ActionsView) (tk : Tick) (t : TriggerTracker) (done : List Mod) (m : Mod) :
    TriggerTracker.apply_modifiers_step av tk (t, done) m =
      ({ t with value := (m.apply_obj av tk t.value).2 }, done ++ [(m.apply_obj av tk t.value).1]) := by
  simp [rs_loops]

theorem tracker_apply_modifiers (av : ActionsView) (tk : Tick) : ∀ (ms : List Mod) (t : TriggerTracker),
    trackerM (t.apply_modifiers av tk ms).1 = ((trackerM t).applyModifiers av tk ms).1
    ∧ (t.apply_modifiers av tk ms).2 = ((trackerM t).applyModifiers av tk ms).2.1 := by
  intro ms
  induction ms with
  | nil => intro t; simp [TriggerTracker.apply_modifiers, Tracker.applyModifiers]
  | cons m ms ih =>
    intro t
    have hF : ∀ a done c, TriggerTracker.apply_modifiers_step av tk (a, done) c =
        ((TriggerTracker.apply_modifiers_step av tk (a, []) c).1, done ++ (TriggerTracker.apply_modifiers_step av tk (a, []) c).2) := by
      intro a done c; simp [modifiers_step]
    obtain ⟨ih1, ih2⟩ := ih { t with value := (m.apply_obj av tk t.value).2 }
    simp only [TriggerTracker.apply_modifiers, List.foldl] at ih1 ih2 ⊢
    rw [modifiers_step, foldl_append_acc _ hF]
    have hn : trackerM { t with value := (m.apply_obj av tk t.value).2 }
        = { trackerM t with value := (m.apply av tk (trackerM t).value).2 } := by
      simp [trackerM, Mod.apply_obj]
    simp only [Tracker.applyModifiers]
    rw [hn] at ih1 ih2
    refine ⟨ih1, ?_⟩
    rw [ih2]
    simp [Mod.apply_obj, trackerM]

end BEI.Bridge
