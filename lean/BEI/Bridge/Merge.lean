/-
  Bridge: the merge step of `ActionBind::update` — the `match current_state.cmp(&tracker_state)` at the end of its loop body, as
  translated from `/repo/src/input_context/context_instance.rs` — equals the merge step of the model's `stepInput`
  (most significant state wins: a less significant input is ignored, an equal one is combined and appended to the consume
  buffer, a more significant one overwrites, becomes the tracked state and restarts the buffer).  `mergeStepM` is shown to be
  literally what `ActionBind.stepInput` does after the `None` skip (`stepInput_merge`), so C04's `MInv` loop invariant and C05's
  `update_consumes` are about this code.
-/
import BEI.Gen.Code.Merge
import BEI.Model.Instance
import BEI.Bridge.Tracker
namespace BEI.Bridge
open BEI.Rs

/-- the merge step of the model, isolated -/
def mergeStepM (ab : ActionBind) (acc : LoopAcc) (cur : Tracker) (st : AState) (inp : Input) : LoopAcc :=
  match AState.cmp st acc.trackerState with
  | .lt => acc
  | .eq => { acc with tracker := acc.tracker.combine cur ab.accum,
                      consumeBuffer := if ab.consume then acc.consumeBuffer ++ [inp] else acc.consumeBuffer }
  | .gt => { acc with tracker := acc.tracker.overwrite cur, trackerState := st,
                      consumeBuffer := if ab.consume then [inp] else acc.consumeBuffer }

/-- `stepInput` is: skip while still ignored and held; otherwise evaluate the input, skip `None`, else `mergeStepM` -/
theorem stepInput_merge (ab : ActionBind) (r : Reader) (av : ActionsView) (t : Tick) (acc : LoopAcc) (b : InputBind)
    (hgo : (b.ignored && r.activeUnconsumed b.input) = false) :
    let cur0 := Tracker.new (r.value b.input)
    let m := cur0.applyModifiers av t b.mods
    let c := m.1.applyConditions av t b.conds
    let acc1 : LoopAcc := { acc with log := acc.log ++ m.2.2 ++ c.2.2 }
    (ab.stepInput r av t acc b).2 = (if c.1.state == .none then acc1 else mergeStepM ab acc1 c.1 c.1.state b.input) := by
  simp only [ActionBind.stepInput, hgo, Bool.false_eq_true, if_false, mergeStepM]
  split
  · rfl
  · cases AState.cmp _ _ <;> rfl

theorem accumulated_eq (t o : TriggerTracker) (acc : Accumulation) : t.accumulated o acc = accumulatedM t o acc := rfl

theorem merge_step (self : ActionBindM) (tracker : TriggerTracker) (ts : AState) (cur : TriggerTracker) (cs : AState)
    (binding : BindingRef) (ab : ActionBind) (hacc : ab.accum = self.accumulation.toModel) (hcons : ab.consume = self.consume_input)
    (log : List Inv) :
    let r := self.merge_step tracker ts cur cs binding
    let m := mergeStepM ab { tracker := trackerM tracker, trackerState := ts, consumeBuffer := self.consume_buffer, log := log }
                (trackerM cur) cs binding.input
    trackerM r.2.1 = m.tracker ∧ r.2.2 = m.trackerState ∧ r.1.consume_buffer = m.consumeBuffer
      ∧ r.1.accumulation = self.accumulation ∧ r.1.consume_input = self.consume_input := by
  obtain ⟨accu, cons, buf⟩ := self
  simp only at hacc hcons
  simp only [rs_merge, mergeStepM, hacc, hcons]
  cases AState.cmp cs ts <;> cases cons <;>
    simp [TriggerTracker.combine, accumulated_eq, tracker_combine, tracker_overwrite, List.push, List.clear]

end BEI.Bridge
