/-
  C10 (and the stored events of C01) for the code translated from the source (`BEI/Gen/Code/*.lean`): the property's theorems restated about the translated
  functions themselves, obtained from the model-level theorems through the bridge theorems.
-/
import BEI.Bridge.ActionData
import BEI.Bridge.SourceC20
import BEI.Props.C10
namespace BEI.Bridge.Source
open BEI.Rs BEI.Bridge

/-! ### C10 — `ActionData::update` of `src/input_context/context_instance.rs` -/

/-- on the frame an action leaves None (or rests in None) both durations are zero -/
theorem update_from_none (a : Rs.ActionData) (t : Tick) (st : AState) (v : ActionValue) (h : a.state = .none) :
    (a.update t st v).elapsed_secs = 0 ∧ (a.update t st v).fired_secs = 0 := by
  have hb := actionData_update a t st v
  have := Props.C10.from_none (actionDataM a) t st v.toModel h
  rw [← hb] at this
  exact this

/-- on every later frame elapsed grows by exactly the frame's virtual delta; fired grows by it iff the action was Fired -/
theorem update_later (a : Rs.ActionData) (t : Tick) (st : AState) (v : ActionValue) (h : a.state ≠ .none) :
    (a.update t st v).elapsed_secs = a.elapsed_secs + t.delta
    ∧ (a.update t st v).fired_secs = (if a.state = .fired then a.fired_secs + t.delta else 0) := by
  have hb := actionData_update a t st v
  have := Props.C10.later_frames (actionDataM a) t st v.toModel h
  rw [← hb] at this
  exact this

/-- the stored events are the transition table's entry for (previous state, new state), the state and value are the new ones -/
theorem update_events (a : Rs.ActionData) (t : Tick) (st : AState) (v : ActionValue) :
    (a.update t st v).events.toList = eventsOf a.state st ∧ (a.update t st v).state = st ∧ (a.update t st v).value = v := by
  have hb := actionData_update a t st v
  have h1 : (actionDataM (a.update t st v)).events = ((actionDataM a).update t st v.toModel).events := by rw [hb]
  have h2 : (actionDataM (a.update t st v)).state = ((actionDataM a).update t st v.toModel).state := by rw [hb]
  have h3 : (actionDataM (a.update t st v)).value = ((actionDataM a).update t st v.toModel).value := by rw [hb]
  refine ⟨h1, h2, toModel_injective h3⟩

end BEI.Bridge.Source
