/-
  C12 (per tracker) for the translated source: the loops `apply_conditions` / `apply_modifiers` of
  `/repo/src/input_context/context_instance/trigger_tracker.rs` invoke every object exactly once, in declaration order, whatever the
  other objects return (no early out).
-/
import BEI.Bridge.Loops
namespace BEI.Bridge.Source
open BEI.Rs BEI.Bridge

theorem note_value (t : TriggerTracker) (st : AState) (k : ConditionKind) : (t.note st k).value = t.value := by
  cases k with
  | Explicit => simp [rs_tracker]
  | Implicit => simp [rs_tracker]
  | Blocker eo => cases eo <;> simp [rs_tracker]

/-- every condition is evaluated exactly once, in order, on the tracker's value — independently of what the other conditions
    return, of blockers and of the flags so far: the objects that come back are, position by position, each condition after its
    one `evaluate` call on that value; the value itself is untouched -/
theorem apply_conditions_each_once (av : ActionsView) (tk : Tick) : ∀ (cs : List Cond) (t : TriggerTracker),
    (t.apply_conditions av tk cs).2 = cs.map (fun c => (c.evaluate_obj av tk t.value).1)
    ∧ (t.apply_conditions av tk cs).1.value = t.value := by
  intro cs
  induction cs with
  | nil => intro t; simp [TriggerTracker.apply_conditions]
  | cons c cs ih =>
    intro t
    have hF : ∀ a done c, TriggerTracker.apply_conditions_step av tk (a, done) c =
        ((TriggerTracker.apply_conditions_step av tk (a, []) c).1, done ++ (TriggerTracker.apply_conditions_step av tk (a, []) c).2) := by
      intro a done c; simp [conditions_step]
    obtain ⟨ih1, ih2⟩ := ih (t.note (c.evaluate_obj av tk t.value).2 (c.evaluate_obj av tk t.value).1.kind_obj)
    simp only [TriggerTracker.apply_conditions, List.foldl] at ih1 ih2 ⊢
    rw [conditions_step, foldl_append_acc _ hF]
    rw [note_value] at ih1 ih2
    exact ⟨by simp [ih1], ih2⟩

/-- every modifier is applied exactly once, in order, each to the output of the previous one -/
theorem apply_modifiers_each_once (av : ActionsView) (tk : Tick) (m : Mod) (ms : List Mod) (t : TriggerTracker) :
    t.apply_modifiers av tk (m :: ms) =
      (let r := ({ t with value := (m.apply_obj av tk t.value).2 } : TriggerTracker).apply_modifiers av tk ms
       (r.1, (m.apply_obj av tk t.value).1 :: r.2))
    ∧ t.apply_modifiers av tk [] = (t, []) := by
  have hF : ∀ a done c, TriggerTracker.apply_modifiers_step av tk (a, done) c =
      ((TriggerTracker.apply_modifiers_step av tk (a, []) c).1, done ++ (TriggerTracker.apply_modifiers_step av tk (a, []) c).2) := by
    intro a done c; simp [modifiers_step]
  constructor
  · simp only [TriggerTracker.apply_modifiers, List.foldl]
    rw [modifiers_step, foldl_append_acc _ hF]
    simp
  · simp [TriggerTracker.apply_modifiers]

end BEI.Bridge.Source
