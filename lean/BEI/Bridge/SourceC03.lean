/-
  C03 for the code translated from the source (`BEI/Gen/Code/*.lean`): the property's theorems restated about the translated
  functions themselves, obtained from the model-level theorems through the bridge theorems.
-/
import BEI.Bridge.Tracker
import BEI.Bridge.Loops
import BEI.Props.C03
namespace BEI.Bridge.Source
open BEI.Rs BEI.Bridge

/-! ### C03 — the condition law for `TriggerTracker` of `src/input_context/context_instance/trigger_tracker.rs` -/

/-- folding the flag update of `apply_conditions` over any list of condition results -/
def noteAll (t : TriggerTracker) (rs : List (ConditionKind × AState)) : TriggerTracker :=
  rs.foldl (fun t r => t.note r.2 r.1) t

theorem noteAll_TInv (rs : List (ConditionKind × AState)) :
    ∀ (t : TriggerTracker) (pre : List Res), TInv (trackerM t) pre →
      TInv (trackerM (noteAll t rs)) (pre ++ rs.map (fun r => (r.1.toModel, r.2))) := by
  induction rs with
  | nil => intro t pre h; simpa [noteAll] using h
  | cons r rest ih =>
    intro t pre h
    have h1 : TInv (trackerM (t.note r.2 r.1)) (pre ++ [(r.1.toModel, r.2)]) := by
      rw [tracker_note]; exact TInv.note _ _ _ _ h
    have := ih (t.note r.2 r.1) _ h1
    simpa [noteAll, List.append_assoc] using this

/-- **the law of C03 for the translated code**: after the flag updates of any list of condition results (any length, order and
    mix of kinds), `TriggerTracker::state` is the explicit / implicit / blocker law of those results and the value's truthiness,
    and `events_blocked` is set iff an events-only blocker failed. -/
theorem tracker_law (v : ActionValue) (rs : List (ConditionKind × AState)) :
    (noteAll (TriggerTracker.new v) rs).state = lawState (rs.map (fun r => (r.1.toModel, r.2))) v.as_bool
    ∧ (noteAll (TriggerTracker.new v) rs).events_blocked = lawEventsBlocked (rs.map (fun r => (r.1.toModel, r.2))) := by
  have h0 : TInv (trackerM (TriggerTracker.new v)) [] := by rw [tracker_new]; exact TInv.new _
  have h := noteAll_TInv rs (TriggerTracker.new v) [] h0
  simp only [List.nil_append] at h
  have hv : (trackerM (noteAll (TriggerTracker.new v) rs)).value = v.toModel := by
    have : ∀ (rs : List (ConditionKind × AState)) (t : TriggerTracker), (trackerM (noteAll t rs)).value = (trackerM t).value := by
      intro rs
      induction rs with
      | nil => intro t; rfl
      | cons r rest ih =>
        intro t
        have := ih (t.note r.2 r.1)
        simp only [noteAll, List.foldl] at this ⊢
        rw [this, tracker_note]
        cases r.1.toModel <;> rfl
    rw [this, tracker_new]; rfl
  constructor
  · rw [tracker_state, state_of_TInv _ _ h, hv, value_as_bool]
  · rw [tracker_events_blocked, h.eb]; rfl

/-- **the law of C03 for the translated loop**: running the source's `apply_conditions` loop from a fresh tracker over *any* list of
    conditions — built-in or user-defined (`Cond` is an arbitrary state machine standing for `Box<dyn InputCondition>`), of any
    length, order and mix of kinds — every condition is evaluated (the updated objects come back, one per condition, in order) and
    `state()` / `events_blocked()` are the explicit / implicit / blocker law of their results and the value's truthiness. -/
theorem apply_conditions_law (av : ActionsView) (tk : Tick) (v : ActionValue) (cs : List Cond) :
    ((TriggerTracker.new v).apply_conditions av tk cs).1.state = lawState (runConds av tk cs v.toModel) v.as_bool
    ∧ ((TriggerTracker.new v).apply_conditions av tk cs).1.events_blocked = lawEventsBlocked (runConds av tk cs v.toModel)
    ∧ ((TriggerTracker.new v).apply_conditions av tk cs).2.length = cs.length := by
  obtain ⟨h1, h2⟩ := tracker_apply_conditions av tk cs (TriggerTracker.new v)
  have hl := Props.C03.tracker_fold_law av tk v.toModel cs
  simp only at hl
  rw [tracker_new] at h1 h2
  refine ⟨?_, ?_, ?_⟩
  · rw [tracker_state, h1, hl.1, value_as_bool]
  · rw [tracker_events_blocked, h1, hl.2.1]
  · rw [h2]
    have : ∀ (cs : List Cond) (tr : Tracker), (tr.applyConditions av tk cs).2.1.length = cs.length := by
      intro cs
      induction cs with
      | nil => intro tr; rfl
      | cons c cs ih => intro tr; simp [Tracker.applyConditions, ih]
    exact this _ _

/-! concrete runs of the translated code: a failing blocker followed by a passing one still blocks (the defect D1 of the pinned
    code); an explicit condition that fired fires the action although an earlier explicit one did not -/
example : (noteAll (TriggerTracker.new (.vBool true)) [(.Blocker false, .none), (.Blocker false, .fired)]).state = .none := by
  decide
example : (noteAll (TriggerTracker.new (.vBool true)) [(.Explicit, .none), (.Explicit, .fired)]).state = .fired := by decide
example : (noteAll (TriggerTracker.new (.vBool true)) [(.Explicit, .fired), (.Implicit, .ongoing)]).state = .ongoing := by decide

end BEI.Bridge.Source
