/-
  Bridge: `TriggerTracker` as translated from `/repo/src/input_context/context_instance/trigger_tracker.rs` = the model's
  `Tracker` (`BEI/Model/Tracker.lean`): `new`, `state`, the flag update of `apply_conditions` (`note`), `overwrite`, and
  `combine` (flags and conversion; the accumulated vector — a `for` loop over `iter_mut().zip(..)` — is a parameter, set here
  to the model's merged vector).  Hence the condition law (C03) and the merge theorems (C04) are about the source's bodies.
-/
import BEI.Gen.Code.Tracker
import BEI.Bridge.Value
namespace BEI.Bridge
open BEI.Rs

/-- the model's tracker of a translated one -/
def trackerM (t : TriggerTracker) : Tracker :=
  { value := t.value.toModel, foundExplicit := t.found_explicit, anyExplicitFired := t.any_explicit_fired,
    foundActive := t.found_active, foundImplicit := t.found_implicit, allImplicitsFired := t.all_implicits_fired,
    blocked := t.blocked, eventsBlocked := t.events_blocked }

theorem tracker_new (v : ActionValue) : trackerM (TriggerTracker.new v) = Tracker.new v.toModel := by
  simp [rs_tracker, trackerM, Tracker.new]

theorem tracker_state (t : TriggerTracker) : t.state = (trackerM t).state := by
  obtain ⟨v, fe, aef, fa, fi, aif, bl, eb⟩ := t
  unfold Tracker.state trackerM
  simp only [rs_tracker, value_as_bool]
  all_goals (cases bl <;> cases fe <;> cases fi <;> cases aef <;> cases aif <;> cases fa <;> (try simp) <;>
    (try (cases v.toModel.asBool <;> simp)))

theorem tracker_note (t : TriggerTracker) (st : AState) (k : ConditionKind) :
    trackerM (t.note st k) = (trackerM t).note k.toModel st := by
  unfold Tracker.note trackerM
  cases k with
  | Explicit => cases st <;> simp [rs_tracker, ConditionKind.toModel]
  | Implicit => cases st <;> simp [rs_tracker, ConditionKind.toModel]
  | Blocker eo => cases eo <;> cases st <;> simp [rs_tracker, ConditionKind.toModel]

theorem tracker_events_blocked (t : TriggerTracker) : t.events_blocked = (trackerM t).eventsBlocked := rfl
theorem tracker_value (t : TriggerTracker) : t.value.toModel = (trackerM t).value := rfl

theorem tracker_overwrite (t o : TriggerTracker) :
    trackerM (t.overwrite o) = (trackerM t).overwrite (trackerM o) := by
  simp [rs_tracker, Tracker.overwrite, trackerM, value_convert, value_dim]

/-- the vector `combine` accumulates, as the model computes it -/
def accumulatedM (t o : TriggerTracker) (acc : Accumulation) : Vec3 :=
  let a := t.value.as_axis3d
  let b := o.value.as_axis3d
  match acc with
  | .MaxAbs => ⟨Tracker.maxAbs1 a.x b.x, Tracker.maxAbs1 a.y b.y, Tracker.maxAbs1 a.z b.z⟩
  | .Cumulative => a + b

theorem tracker_combine (t o : TriggerTracker) (acc : Accumulation) :
    trackerM (t.combine_with o (accumulatedM t o acc)) = (trackerM t).combine (trackerM o) acc.toModel := by
  have ht := value_as_axis3d t.value
  have ho := value_as_axis3d o.value
  have hx : ∀ (p : Vec3), (ActionValue.vAxis3D p).toModel = Value.a3 p.x p.y p.z := fun _ => rfl
  cases acc <;>
    simp only [rs_tracker, Tracker.combine, trackerM, accumulatedM, value_convert, value_dim, Value.ofV3,
      Accumulation.toModel, ← ht, ← ho, hx, Vec3.toModel, Vec3.add_x, Vec3.add_y, Vec3.add_z] <;> rfl

end BEI.Bridge
