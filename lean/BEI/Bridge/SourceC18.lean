/-
  C18 for the translated source: the algebraic laws of the built-in modifiers stated about the `apply` bodies as they read in
  `/repo/src` now (BEI/Gen/Code/Modifiers.lean), obtained from Props/C18 through the bridge theorems.
-/
import BEI.Bridge.Modifiers
import BEI.Props.C18
namespace BEI.Bridge.Source
open BEI.Rs BEI.Bridge BEI.Props.C18

/-- `DeadZone::dead_zone` (the scalar helper every dimension and both kinds go through): zero inside the lower threshold,
    magnitude at most one, sign preserved, monotone, saturated from the upper threshold on -/
theorem dead_zone_laws (m : DeadZone) (h0 : 0 ≤ m.lower_threshold) (h : m.lower_threshold < m.upper_threshold) (x y : Rat) :
    (|x| ≤ m.lower_threshold → m.dead_zone x = 0)
    ∧ |m.dead_zone x| ≤ 1
    ∧ 0 ≤ m.dead_zone x * x
    ∧ (x ≤ y → m.dead_zone x ≤ m.dead_zone y)
    ∧ (m.upper_threshold ≤ |x| → |m.dead_zone x| = 1) := by
  rw [deadZone_dead_zone, deadZone_dead_zone]
  exact ⟨deadZone_inside _ _ _ h0 h, deadZone_le_one _ _ _ h, deadZone_sign _ _ _ h, deadZone_mono _ _ _ _ h,
         deadZone_saturates _ _ _ h⟩

/-- `Negate::apply` terminates (fuel 2 suffices), never changes the modifier, and applying it twice gives back the input
    (a `Bool` having become its 0/1 axis value) -/
theorem negate_twice (m : Negate) (v : ActionValue) (n k : Nat) :
    ∃ w u, Negate.applyF (n + 2) m v = some (m, w) ∧ Negate.applyF (k + 2) m w = some (m, u)
      ∧ u.toModel = v.toModel.promote := by
  refine ⟨_, _, negate_apply m v n, negate_apply m _ k, ?_⟩
  simp only [ActionValue.toModel_ofModel]
  exact negate_involution _ _ _ _

/-- `DeltaLerp::apply`: terminates, and in every axis the output lies between the stored previous output and the input, for every
    frame delta (the interpolation factor is clamped) -/
theorem deltaLerp_between_src (m : DeltaLerp) (t : Tick) (v : ActionValue) (n : Nat) (hs : 0 ≤ m.speed) (hd : 0 ≤ t.delta) :
    ∃ r, DeltaLerp.applyF (n + 2) m t v = some r
      ∧ between m.prev_value.x v.toModel.promote.as3.x r.1.prev_value.x
      ∧ between m.prev_value.y v.toModel.promote.as3.y r.1.prev_value.y
      ∧ between m.prev_value.z v.toModel.promote.as3.z r.1.prev_value.z := by
  obtain ⟨r, hr, h1, _, _⟩ := deltaLerp_apply m t v n
  have hb := deltaLerp_between m.speed (dlerpM m) t v.toModel hs hd
  simp only at hb
  rw [← h1] at hb
  exact ⟨r, hr, hb⟩

/-- … and within the snap distance (the constant read from the source) the output *is* the input -/
theorem deltaLerp_snaps_src (m : DeltaLerp) (t : Tick) (v : ActionValue) (n : Nat)
    (h : ((dlerpM m).sub v.toModel.promote.as3).normSq < Gen.dlerpSnapEps) :
    ∃ r, DeltaLerp.applyF (n + 2) m t v = some r ∧ r.2.toModel = v.toModel.promote
      ∧ dlerpM r.1 = v.toModel.promote.as3 := by
  obtain ⟨r, hr, h1, h2, _⟩ := deltaLerp_apply m t v n
  have hs := deltaLerp_snaps m.speed (dlerpM m) t v.toModel h
  rw [hs] at h1 h2
  exact ⟨r, hr, h2, h1⟩

/-! concrete runs of the translated code -/
example : Negate.applyF 2 ⟨true, false, false⟩ (.vBool true) = some (⟨true, false, false⟩, .vAxis1D (-1)) := by decide +kernel
example : (SwizzleAxis.applyF 2 .YXZ (.vAxis2D ⟨3, 5⟩)).map (·.2) = some (.vAxis2D ⟨5, 3⟩) := by decide +kernel
example : (⟨.Axial, 1/4, 1⟩ : DeadZone).dead_zone (1/8) = 0 ∧ (⟨.Axial, 1/4, 1⟩ : DeadZone).dead_zone (-2) = -1 := by decide +kernel

end BEI.Bridge.Source
