/-
  C04 / C05 for the translated source: the merge step at the end of the loop body of `ActionBind::update` as it reads in
  `/repo/src` now (BEI/Gen/Code/Merge.lean).  `current_state` is never `None` here (the loop `continue`s before).
-/
import BEI.Bridge.Merge
import BEI.Proofs.Basic
namespace BEI.Bridge.Source
open BEI.Rs BEI.Bridge

/-- most significant inputs win: a less significant input changes nothing; an equally significant one is combined into the
    tracker; a more significant one replaces it and becomes the tracked state.  The consume buffer (what the action will hide if it
    ends the frame active) is untouched for a non-consuming action; for a consuming one it gets the input appended on an equal
    state and is restarted with just that input on a more significant one — so it always holds exactly the inputs of the most
    significant state seen so far. -/
theorem merge_step_src (self : ActionBindM) (tracker : TriggerTracker) (ts : AState) (cur : TriggerTracker) (cs : AState)
    (b : BindingRef) :
    let r := self.merge_step tracker ts cur cs b
    (AState.cmp cs ts = .lt → r = (self, (tracker, ts)))
    ∧ (AState.cmp cs ts = .eq →
        r.2 = (tracker.combine cur self.accumulation, ts)
        ∧ r.1.consume_buffer = (if self.consume_input then self.consume_buffer ++ [b.input] else self.consume_buffer))
    ∧ (AState.cmp cs ts = .gt →
        r.2 = (tracker.overwrite cur, cs)
        ∧ r.1.consume_buffer = (if self.consume_input then [b.input] else self.consume_buffer))
    ∧ r.1.accumulation = self.accumulation ∧ r.1.consume_input = self.consume_input := by
  obtain ⟨acc, cons, buf⟩ := self
  cases h : AState.cmp cs ts <;> cases cons <;> simp [rs_merge, h, List.push, List.clear]

end BEI.Bridge.Source
