/-
  Bridge: `Chord<A>`, `BlockBy<A>` (evaluate and kind) and `AccumulateBy<A>` as translated from the source = the model's
  `Cond.chord`, `Cond.blockBy`, `Mod.accumulateByStep`, where `actions.action::<A>()` is the model's lookup `av.get? a`.
-/
import BEI.Gen.Code.Refs
import BEI.Model.Modifiers
import BEI.Bridge.Value
namespace BEI.Bridge
open BEI.Rs

theorem chord_evaluate (c : Chord) (i a : Nat) (av : ActionsView) (t : Tick) (v : ActionValue) :
    (c.evaluate ⟨av.get? a⟩ v).2 = ((Cond.chord i a).step () av t v.toModel).2
    ∧ c.kind.toModel = (Cond.chord i a).kind () := by
  cases h : av.get? a <;> simp [rs_refs, Cond.chord, h, ConditionKind.toModel]

theorem blockBy_evaluate (c : BlockBy) (i a : Nat) (av : ActionsView) (t : Tick) (v : ActionValue) :
    (c.evaluate ⟨av.get? a⟩ v).2 = ((Cond.blockBy i a c.events_only).step () av t v.toModel).2
    ∧ (c.evaluate ⟨av.get? a⟩ v).1 = c
    ∧ c.kind.toModel = (Cond.blockBy i a c.events_only).kind () := by
  obtain ⟨eo⟩ := c
  cases h : av.get? a with
  | none => cases eo <;> simp [rs_refs, Cond.blockBy, h, ConditionKind.toModel]
  | some d => cases eo <;> cases hs : d.state <;> simp [rs_refs, Cond.blockBy, h, hs, ConditionKind.toModel]

theorem accumulateBy_apply (m : AccumulateBy) (a : Nat) (av : ActionsView) (v : ActionValue) :
    ((m.apply ⟨av.get? a⟩ v).1.value.toModel, (m.apply ⟨av.get? a⟩ v).2.toModel)
      = Mod.accumulateByStep a m.value.toModel av v.toModel := by
  have h3 := value_as_axis3d v
  have hx : ∀ (p : Vec3), (ActionValue.vAxis3D p).toModel = Value.a3 p.x p.y p.z := fun _ => rfl
  cases h : av.get? a with
  | none => simp [rs_refs, Mod.accumulateByStep, h]
  | some d =>
    cases hs : d.state <;>
      simp [rs_refs, Mod.accumulateByStep, h, hs, value_convert, value_dim, Value.ofV3, hx, ← h3, Vec3.toModel] <;>
      (try (first | rfl | (constructor <;> rfl)))

end BEI.Bridge
