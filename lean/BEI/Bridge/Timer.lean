/-
  Bridge: `ConditionTimer` as translated from the source = the model's `CTimer`.
-/
import BEI.Gen.Code.Timer
namespace BEI.Bridge
open BEI.Rs

/-- the model's timer of a translated one -/
def timerM (t : ConditionTimer) : CTimer := { relative := t.relative_speed, duration := t.duration }

theorem timer_update (t : ConditionTimer) (k : Tick) : timerM (t.update k) = (timerM t).update k := by
  obtain ⟨rel, dur⟩ := t
  cases rel <;> simp only [rs_timer, CTimer.update, timerM, Tick.relative_speed, Tick.delta_secs] <;>
    by_cases h : k.speed = 0 <;> simp_all

theorem timer_reset (t : ConditionTimer) : timerM t.reset = (timerM t).reset := by
  simp [rs_timer, CTimer.reset, timerM]

theorem timer_duration (t : ConditionTimer) : t.duration = (timerM t).duration := rfl

end BEI.Bridge
