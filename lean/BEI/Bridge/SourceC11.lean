/-
  C11 for the translated source: for **every actuation history** the `evaluate` bodies of `Hold`, `HoldAndRelease`, `Tap`,
  `JustPress` and `Release` as they read in `/repo/src` now (BEI/Gen/Code/Conditions.lean) return exactly the documented
  pattern.  Obtained from the history theorems of Props/C11 by a simulation over histories whose step is the bridge theorem.
-/
import BEI.Bridge.Conditions
import BEI.Props.C11
namespace BEI.Bridge.Source
open BEI.Rs BEI.Bridge BEI.Props.C11 BEI.Cond

/-- a history of the translated code: newest frame first, like `C11.Hist` -/
abbrev SrcHist := List (ActionValue × Tick)
def toHist (h : SrcHist) : Hist := h.map (fun f => (f.1.toModel, f.2))

/-- run a translated `evaluate` over a history -/
def runSrc {σ : Type} (step : σ → Tick → ActionValue → σ × AState) (s0 : σ) : SrcHist → σ × AState
  | [] => (s0, .none)
  | f :: rest => step (runSrc step s0 rest).1 f.2 f.1

/-- simulation over histories: if one translated step equals one model step under an invariant the step preserves, whole runs agree -/
theorem run_sim {σ τ : Type} (stepS : σ → Tick → ActionValue → σ × AState) (stepM : τ → Tick → Value → τ × AState)
    (abs : σ → τ) (inv : σ → Prop)
    (hstep : ∀ s t v, inv s → (abs (stepS s t v).1, (stepS s t v).2) = stepM (abs s) t v.toModel ∧ inv (stepS s t v).1)
    (s0 : σ) (h0 : inv s0) (h : SrcHist) :
    (abs (runSrc stepS s0 h).1, (runSrc stepS s0 h).2) = run stepM (abs s0) (toHist h) ∧ inv (runSrc stepS s0 h).1 := by
  induction h with
  | nil => exact ⟨rfl, h0⟩
  | cons f rest ih =>
    obtain ⟨ih1, ih2⟩ := ih
    have hs := hstep (runSrc stepS s0 rest).1 f.2 f.1 ih2
    refine ⟨?_, hs.2⟩
    have h1 : (abs (runSrc stepS s0 rest).1) = (run stepM (abs s0) (toHist rest)).1 := by rw [← ih1]
    show (abs (stepS (runSrc stepS s0 rest).1 f.2 f.1).1, (stepS (runSrc stepS s0 rest).1 f.2 f.1).2) = _
    rw [hs.1, h1]
    rfl

/-- `Hold` as constructed by `Hold::new(T).one_shot(os).with_actuation(act).relative_speed(rel)`: timer at zero, not fired -/
def holdNew (T : Rat) (os : Bool) (act : Rat) (rel : Bool) : Hold :=
  { hold_time := T, one_shot := os, actuation := act, timer := { relative_speed := rel, duration := 0 }, fired := false }

/-- **Hold, every history**: fires once the input has been actuated continuously for the hold time (once only if one-shot),
    is Ongoing while held below it, None otherwise. -/
theorem hold_history (T : Rat) (os : Bool) (act : Rat) (rel : Bool) (hT : 0 < T) (f : ActionValue × Tick) (rest : SrcHist) :
    (runSrc Hold.evaluate (holdNew T os act rel) (f :: rest)).2 =
      (if leQ T (held act rel (toHist (f :: rest))) then (if !os || !leQ T (held act rel (toHist rest)) then .fired else .none)
       else if f.1.is_actuated act then .ongoing else .none) := by
  have sim := run_sim Hold.evaluate (holdStep T os act) holdM
    (fun h => h.hold_time = T ∧ h.one_shot = os ∧ h.actuation = act)
    (by
      intro s t v ⟨h1, h2, h3⟩
      have hb := hold_evaluate s t v
      rw [h1, h2, h3] at hb
      exact hb)
    (holdNew T os act rel) ⟨rfl, rfl, rfl⟩ (f :: rest)
  have h2 : (runSrc Hold.evaluate (holdNew T os act rel) (f :: rest)).2 = (run (holdStep T os act) (holdM (holdNew T os act rel)) (toHist (f :: rest))).2 := by
    rw [← sim.1]
  rw [h2, value_is_actuated]
  exact hold_spec T os act rel hT (f.1.toModel, f.2) (toHist rest)

def holdRelNew (T act : Rat) (rel : Bool) : HoldAndRelease :=
  { hold_time := T, actuation := act, timer := { relative_speed := rel, duration := 0 }, actuated := false }

/-- **HoldAndRelease, every history**: Ongoing while actuated; on a release frame Fired iff the preceding continuous actuation
    (including this frame's time) lasted at least the hold time. -/
theorem holdAndRelease_history (T act : Rat) (rel : Bool) (f : ActionValue × Tick) (rest : SrcHist) :
    (runSrc HoldAndRelease.evaluate (holdRelNew T act rel) (f :: rest)).2 =
      (if f.1.is_actuated act then .ongoing
       else if actuatedNow act (toHist rest) && leQ T (held act rel (toHist rest) + inc rel f.2) then .fired else .none) := by
  have sim := run_sim HoldAndRelease.evaluate (holdRelStep T act) holdRelM
    (fun h => h.hold_time = T ∧ h.actuation = act)
    (by
      intro s t v ⟨h1, h2⟩
      have hb := holdAndRelease_evaluate s t v
      rw [h1, h2] at hb
      exact hb)
    (holdRelNew T act rel) ⟨rfl, rfl⟩ (f :: rest)
  have h2 : (runSrc HoldAndRelease.evaluate (holdRelNew T act rel) (f :: rest)).2
      = (run (holdRelStep T act) (holdRelM (holdRelNew T act rel)) (toHist (f :: rest))).2 := by rw [← sim.1]
  rw [h2, value_is_actuated]
  exact holdRel_spec T act rel (f.1.toModel, f.2) (toHist rest)

def tapNew (T act : Rat) (rel : Bool) : Tap :=
  { release_time := T, actuation := act, timer := { relative_speed := rel, duration := 0 }, actuated := false }

/-- **Tap, every history**: Fired on a release frame iff the preceding continuous actuation lasted at most the release time. -/
theorem tap_history_src (T act : Rat) (rel : Bool) (f : ActionValue × Tick) (rest : SrcHist) :
    (runSrc Tap.evaluate (tapNew T act rel) (f :: rest)).2 = .fired ↔
      (actuatedNow act (toHist rest) = true ∧ f.1.is_actuated act = false ∧ held act rel (toHist rest) ≤ T) := by
  have sim := run_sim Tap.evaluate (tapStep T act) tapM
    (fun h => h.release_time = T ∧ h.actuation = act)
    (by
      intro s t v ⟨h1, h2⟩
      have hb := tap_evaluate s t v
      rw [h1, h2] at hb
      exact hb)
    (tapNew T act rel) ⟨rfl, rfl⟩ (f :: rest)
  have h2 : (runSrc Tap.evaluate (tapNew T act rel) (f :: rest)).2
      = (run (tapStep T act) (tapM (tapNew T act rel)) (toHist (f :: rest))).2 := by rw [← sim.1]
  rw [h2, value_is_actuated]
  exact tap_history T act rel (f.1.toModel, f.2) (toHist rest)

/-! concrete runs of the translated code (the translation computes; the hypotheses above are satisfiable):
    two frames of 1/4 s with the key down reach a hold time of 1/2 s — Fired; one frame — Ongoing; released — None;
    a quick press and release is a Tap -/
example : (runSrc Hold.evaluate (holdNew (1/2) false (1/2) true) [(.vBool true, ⟨1/4, 1⟩), (.vBool true, ⟨1/4, 1⟩)]).2 = .fired := by
  decide +kernel
example : (runSrc Hold.evaluate (holdNew (1/2) false (1/2) true) [(.vBool true, ⟨1/4, 1⟩)]).2 = .ongoing := by decide +kernel
example : (runSrc Hold.evaluate (holdNew (1/2) false (1/2) true) [(.vBool false, ⟨1/4, 1⟩), (.vBool true, ⟨1/4, 1⟩)]).2 = .none := by
  decide +kernel
example : (runSrc Tap.evaluate (tapNew (1/2) (1/2) true) [(.vBool false, ⟨1/4, 1⟩), (.vBool true, ⟨1/4, 1⟩)]).2 = .fired := by
  decide +kernel

end BEI.Bridge.Source
