/-
  Bridge: `ActionData::update` as translated from `/repo/src/input_context/context_instance.rs` = the model's
  `ActionData.update` (durations, stored events, state, value), so the duration theorems of C10 and the stored-events part
  of C01 are about the source's body.
-/
import BEI.Gen.Code.ActionData
import BEI.Bridge.Value
import BEI.Bridge.Events
namespace BEI.Bridge
open BEI.Rs

def actionDataM (a : Rs.ActionData) : BEI.ActionData :=
  { state := a.state, events := a.events.toList, value := a.value.toModel, elapsed := a.elapsed_secs, fired := a.fired_secs }

theorem actionData_update (a : Rs.ActionData) (t : Tick) (st : AState) (v : ActionValue) :
    actionDataM (a.update t st v) = (actionDataM a).update t st v.toModel := by
  unfold BEI.ActionData.update actionDataM
  cases h : a.state <;> simp [rs_actiondata, h, events_new, RInto.into, Tick.delta_secs]

end BEI.Bridge
