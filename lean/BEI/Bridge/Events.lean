/-
  Bridge: `ActionEvents::new` as translated from `/repo/src/input_context/events.rs` yields, for every pair of states,
  exactly the event list the model's `eventsOf` (table-driven) yields — so the transition-table theorems of C01 / C02 are
  about the source's `match`, arm by arm, read as code and not only as a table.
-/
import BEI.Gen.Code.Events
import BEI.Model.State
namespace BEI.Bridge
open BEI.Rs

theorem events_new (p c : AState) : (ActionEvents.new p c).toList = eventsOf p c := by
  cases p <;> cases c <;> simp only [rs_events] <;> decide

end BEI.Bridge
