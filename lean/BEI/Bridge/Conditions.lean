/-
  Bridge: `evaluate` of the seven built-in timing conditions as translated from `/repo/src/input_context/input_condition/*.rs`
  = the model's step functions (`BEI/Model/Conditions.lean`), for every configuration, private state, tick and value; the
  configuration fields are never written.  Hence every theorem of Props/C11 about `Cond.press … Cond.pulse` is a theorem about
  the source's `evaluate` bodies as they read now.
-/
import BEI.Gen.Code.Conditions
import BEI.Bridge.Value
import BEI.Bridge.Timer
namespace BEI.Bridge
open BEI.Rs

theorem press_evaluate (p : Press) (i : Nat) (av : ActionsView) (t : Tick) (v : ActionValue) :
    (p.evaluate v).2 = ((Cond.press i p.actuation).step () av t v.toModel).2 ∧ (p.evaluate v).1 = p := by
  simp [rs_conditions, Cond.press, value_is_actuated]

theorem justPress_evaluate (p : JustPress) (i : Nat) (av : ActionsView) (t : Tick) (v : ActionValue) :
    ((p.evaluate v).1.actuated, (p.evaluate v).2) = (Cond.justPress i p.actuation).step p.actuated av t v.toModel
    ∧ (p.evaluate v).1.actuation = p.actuation := by
  simp [rs_conditions, Cond.justPress, value_is_actuated]

theorem release_evaluate (p : Release) (i : Nat) (av : ActionsView) (t : Tick) (v : ActionValue) :
    ((p.evaluate v).1.actuated, (p.evaluate v).2) = (Cond.release i p.actuation).step p.actuated av t v.toModel
    ∧ (p.evaluate v).1.actuation = p.actuation := by
  simp [rs_conditions, Cond.release, value_is_actuated]

def holdM (h : Hold) : Cond.HoldSt := { timer := timerM h.timer, fired := h.fired }

theorem hold_evaluate (h : Hold) (t : Tick) (v : ActionValue) :
    (holdM (h.evaluate t v).1, (h.evaluate t v).2) = Cond.holdStep h.hold_time h.one_shot h.actuation (holdM h) t v.toModel
    ∧ (h.evaluate t v).1.hold_time = h.hold_time ∧ (h.evaluate t v).1.one_shot = h.one_shot
    ∧ (h.evaluate t v).1.actuation = h.actuation := by
  unfold Cond.holdStep holdM
  simp only [rs_conditions, value_is_actuated, ← timer_update, ← timer_reset, timer_duration, rle_rat]
  (repeat' split) <;> simp_all

def holdRelM (h : HoldAndRelease) : Cond.HoldRelSt := { timer := timerM h.timer, actuated := h.actuated }

theorem holdAndRelease_evaluate (h : HoldAndRelease) (t : Tick) (v : ActionValue) :
    (holdRelM (h.evaluate t v).1, (h.evaluate t v).2) = Cond.holdRelStep h.hold_time h.actuation (holdRelM h) t v.toModel
    ∧ (h.evaluate t v).1.hold_time = h.hold_time ∧ (h.evaluate t v).1.actuation = h.actuation := by
  unfold Cond.holdRelStep holdRelM
  simp only [rs_conditions, value_is_actuated, ← timer_update, ← timer_reset, timer_duration, rle_rat]
  (repeat' split) <;> simp_all

def tapM (h : Tap) : Cond.TapSt := { timer := timerM h.timer, actuated := h.actuated }

theorem tap_evaluate (h : Tap) (t : Tick) (v : ActionValue) :
    (tapM (h.evaluate t v).1, (h.evaluate t v).2) = Cond.tapStep h.release_time h.actuation (tapM h) t v.toModel
    ∧ (h.evaluate t v).1.release_time = h.release_time ∧ (h.evaluate t v).1.actuation = h.actuation := by
  unfold Cond.tapStep tapM
  simp only [rs_conditions, value_is_actuated, ← timer_update, ← timer_reset, timer_duration, rle_rat]
  (repeat' split) <;> simp_all

def pulseM (h : Pulse) : Cond.PulseSt := { timer := timerM h.timer, count := h.trigger_count }

theorem pulse_evaluate (h : Pulse) (t : Tick) (v : ActionValue) :
    (pulseM (h.evaluate t v).1, (h.evaluate t v).2)
      = Cond.pulseStep h.interval h.trigger_limit h.trigger_on_start h.actuation (pulseM h) t v.toModel
    ∧ (h.evaluate t v).1.interval = h.interval ∧ (h.evaluate t v).1.trigger_limit = h.trigger_limit
    ∧ (h.evaluate t v).1.trigger_on_start = h.trigger_on_start ∧ (h.evaluate t v).1.actuation = h.actuation := by
  unfold Cond.pulseStep pulseM
  simp only [rs_conditions, value_is_actuated, ← timer_update, ← timer_reset, timer_duration, rle_rat, rlt_nat]
  (repeat' split) <;> simp_all

end BEI.Bridge
