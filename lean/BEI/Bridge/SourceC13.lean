/-
  C13 for the translated source: `Chord<A>`, `BlockBy<A>` and `AccumulateBy<A>` as they read in `/repo/src` now
  (BEI/Gen/Code/Refs.lean), where `actions.action::<A>()` is `some d` for the referenced action's data `d` (the current frame's
  if it was bound earlier, the previous frame's otherwise — `Props.C13.visibility`) or `none` if the context does not bind it.
-/
import BEI.Bridge.Refs
import BEI.Props.C13
namespace BEI.Bridge.Source
open BEI.Rs BEI.Bridge

/-- Chord yields exactly the referenced action's state (None when the action is absent) and is an implicit condition -/
theorem chord_src (c : Chord) (v : ActionValue) (d : BEI.ActionData) :
    (c.evaluate ⟨some d⟩ v).2 = d.state ∧ (c.evaluate ⟨none⟩ v).2 = .none ∧ c.kind = .Implicit := by
  simp [rs_refs]

/-- BlockBy blocks (returns None) exactly while the referenced action is Fired, never when it is absent; it is a blocker whose
    events-only flag is the configured one, and evaluating it does not change it -/
theorem blockBy_src (c : BlockBy) (v : ActionValue) (d : BEI.ActionData) :
    ((c.evaluate ⟨some d⟩ v).2 = .none ↔ d.state = .fired)
    ∧ ((c.evaluate ⟨some d⟩ v).2 = .fired ↔ d.state ≠ .fired)
    ∧ (c.evaluate ⟨none⟩ v).2 = .fired
    ∧ c.kind = .Blocker c.events_only
    ∧ (c.evaluate ⟨some d⟩ v).1 = c := by
  cases h : d.state <;> simp [rs_refs, h]

/-- AccumulateBy: while the referenced action is Fired the input is added to the stored sum, otherwise the sum restarts from the
    input; the output is the sum in the input's dimension; with the action absent the value passes through unchanged -/
theorem accumulateBy_src (m : AccumulateBy) (v : ActionValue) (d : BEI.ActionData) :
    (m.apply ⟨some d⟩ v).1.value = (if d.state = .fired then m.value + v.as_axis3d else v.as_axis3d)
    ∧ (m.apply ⟨some d⟩ v).2 = (ActionValue.vAxis3D (m.apply ⟨some d⟩ v).1.value).convert v.dim
    ∧ m.apply ⟨none⟩ v = (m, v) := by
  cases h : d.state <;> simp [rs_refs, h]

end BEI.Bridge.Source
