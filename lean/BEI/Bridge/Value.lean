/-
  Bridge: the Lean code generated from `/repo/src/action_value.rs` (BEI/Gen/Code/Value.lean) computes the model's
  functions (BEI/Model/Value.lean), so every theorem of Props/C20 (and every use of `Value.*` in C03 / C04) is a
  theorem about what the source says now.  The proofs unfold the whole generated unit (`rs_value`), case-split the value
  (and a Boolean payload) and normalise: they do not depend on how the source arranges its `match`es or helpers.
-/
import BEI.Gen.Code.Value
namespace BEI.Bridge
open BEI.Rs

theorem vec2_ne_zero (v : Vec2) : (v != ({ x := 0, y := 0 } : Vec2)) = !(v.x == 0 && v.y == 0) := by
  cases v with
  | mk x y =>
    by_cases hx : x = 0 <;> by_cases hy : y = 0 <;> simp [bne, BEq.beq, hx, hy, Vec2.mk.injEq]

theorem vec3_ne_zero (v : Vec3) : (v != ({ x := 0, y := 0, z := 0 } : Vec3)) = !(v.x == 0 && v.y == 0 && v.z == 0) := by
  cases v with
  | mk x y z =>
    by_cases hx : x = 0 <;> by_cases hy : y = 0 <;> by_cases hz : z = 0 <;>
      simp [bne, BEq.beq, hx, hy, hz, Vec3.mk.injEq]

theorem vec2_eq_zero (v : Vec2) : (v == ({ x := 0, y := 0 } : Vec2)) = (v.x == 0 && v.y == 0) := by
  cases v with
  | mk x y =>
    by_cases hx : x = 0 <;> by_cases hy : y = 0 <;> simp [BEq.beq, hx, hy, Vec2.mk.injEq]

theorem vec3_eq_zero (v : Vec3) : (v == ({ x := 0, y := 0, z := 0 } : Vec3)) = (v.x == 0 && v.y == 0 && v.z == 0) := by
  cases v with
  | mk x y z =>
    by_cases hx : x = 0 <;> by_cases hy : y = 0 <;> by_cases hz : z = 0 <;>
      simp [BEq.beq, hx, hy, hz, Vec3.mk.injEq]

/-- unfold the generated unit and the model's value functions, then normalise -/
macro "value_bridge" : tactic => `(tactic| (
  first
  | done
  | (simp [rs_value, ActionValue.toModel, ActionValueDim.toModel, Value.dim, Value.zero, Value.asBool, Value.as1, Value.as2,
      Value.as3, Value.convert, Value.isActuated, Vec2.ZERO, Vec2.X, Vec2.Y, Vec2.ONE, Vec3.ZERO, Vec3.X, Vec3.Y, Vec3.Z,
      Vec3.ONE, Vec3.xy, Vec2.extend, Vec2.new, Vec3.new, Vec2.length_squared, Vec3.toModel, RInto.into, vec2_ne_zero, vec3_ne_zero, vec2_eq_zero, vec3_eq_zero,
      Vec3.length_squared, V3.normSq, leQ] <;> (try (first | rfl | congr)))))

theorem value_dim (v : ActionValue) : v.dim.toModel = v.toModel.dim := by
  cases v <;> value_bridge

theorem value_zero (d : ActionValueDim) : (ActionValue.zero d).toModel = Value.zero d.toModel := by
  cases d <;> value_bridge

theorem value_as_bool (v : ActionValue) : v.as_bool = v.toModel.asBool := by
  cases v with
  | vBool b => cases b <;> value_bridge
  | vAxis1D x => value_bridge
  | vAxis2D p => value_bridge
  | vAxis3D p => value_bridge

theorem value_as_axis1d (v : ActionValue) : v.as_axis1d = v.toModel.as1 := by
  cases v with
  | vBool b => cases b <;> value_bridge
  | vAxis1D x => value_bridge
  | vAxis2D p => value_bridge
  | vAxis3D p => value_bridge

theorem value_as_axis2d (v : ActionValue) : (v.as_axis2d.x, v.as_axis2d.y) = v.toModel.as2 := by
  cases v with
  | vBool b => cases b <;> value_bridge
  | vAxis1D x => value_bridge
  | vAxis2D p => value_bridge
  | vAxis3D p => value_bridge

theorem value_as_axis3d (v : ActionValue) : v.as_axis3d.toModel = v.toModel.as3 := by
  cases v with
  | vBool b => cases b <;> value_bridge
  | vAxis1D x => value_bridge
  | vAxis2D p => value_bridge
  | vAxis3D p => value_bridge

theorem value_convert (v : ActionValue) (d : ActionValueDim) :
    (v.convert d).toModel = v.toModel.convert d.toModel := by
  cases d <;> (cases v with
    | vBool b => cases b <;> value_bridge
    | vAxis1D x => value_bridge
    | vAxis2D p => value_bridge
    | vAxis3D p => value_bridge)

theorem value_is_actuated (v : ActionValue) (a : Rat) : v.is_actuated a = v.toModel.isActuated a := by
  cases v with
  | vBool b => cases b <;> value_bridge
  | vAxis1D x => value_bridge
  | vAxis2D p => value_bridge
  | vAxis3D p => value_bridge

end BEI.Bridge
