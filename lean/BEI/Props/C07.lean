/-
  C07 — The context registry mirrors the components present in the world, for every history of spawn, insert, remove,
  despawn, re-insert and rebuild (issued between frames, through commands or from observers) interleaved with frames.
-/
import BEI.Proofs.Mirror
import BEI.Proofs.Total
namespace BEI.Props.C07
open BEI

/-- (1) the registry mirrors the world in every reachable state: `ContextInstances::get::<C>(e)` is `Some` exactly
    when entity `e` currently holds component `C` -/
theorem registry_mirrors_world (su : Setup) (st : AppState) (h : Reachable su st) (c e : Nat) :
    (st.reg.get c e).isSome ↔ st.world.has e c = true := by
  have hm := reachable_pred su Mirror (mirror_appPred su) mirror_init st h
  rw [get_iff_memS st.reg hm.wf, hm.mirror]

/-- (2) structure of every reachable registry: one group per context type, no empty group, no entity twice in a group -/
theorem registry_wellformed (su : Setup) (st : AppState) (h : Reachable su st) : ShapeWF (shape st.reg) :=
  (reachable_pred su Mirror (mirror_appPred su) mirror_init st h).wf

/-- (3) shared mode: the group — and with it the common instance — exists exactly while at least one holder exists -/
theorem shared_exists_iff_holder (su : Setup) (st : AppState) (h : Reachable su st) (c : Nat) :
    (st.reg.index c).isSome ↔ ∃ e, st.world.has e c = true := by
  have hm := reachable_pred su Mirror (mirror_appPred su) mirror_init st h
  constructor
  · intro hi
    obtain ⟨gi, hgi⟩ := Option.isSome_iff_exists.mp hi
    obtain ⟨g, hg, hgid⟩ := index_spec st.reg c gi hgi
    have hne := hm.wf.nonempty (g.ty, g.entities) (by simp only [shape, List.mem_map]; exact ⟨g, List.mem_of_getElem? hg, rfl⟩)
    cases hents : g.entities with
    | nil => exact absurd hents hne
    | cons e es =>
      refine ⟨e, (hm.mirror c e).mp ⟨(g.ty, g.entities), ?_, hgid, by simp [hents]⟩⟩
      simp only [shape, List.mem_map]; exact ⟨g, List.mem_of_getElem? hg, rfl⟩
  · rintro ⟨e, he⟩
    obtain ⟨p, hp, hpid, _⟩ := (hm.mirror c e).mpr he
    simp only [shape, List.mem_map] at hp
    obtain ⟨g, hg, rfl⟩ := hp
    have hex : ∃ x ∈ st.reg, (fun g : Group => g.ty.id == c) x = true := ⟨g, hg, by simpa using hpid⟩
    have hlt := List.findIdx_lt_length_of_exists hex
    simp [Registry.index, hlt]

/-- (4) a holder arriving when no group of its type exists gets an instance built for it from scratch
    (`context_instance(world, entity)`), in a new group inserted at the priority position; a holder joining an existing
    shared group shares the existing instance, and a new exclusive holder gets its own fresh instance -/
theorem add_builds_fresh (reg : Registry) (mk : Factory) (ty : CtxType) (e : Nat) (h : reg.index ty.id = none) :
    reg.add mk ty e = reg.take (reg.insertPos ty.priority)
      ++ [if ty.shared then Group.shared ty [e] (mk ty.id e) else Group.exclusive ty [(e, mk ty.id e)]]
      ++ reg.drop (reg.insertPos ty.priority) := by
  simp [Registry.add, h]

theorem add_joins_existing (reg : Registry) (mk : Factory) (ty : CtxType) (e : Nat) (i : Nat) (h : reg.index ty.id = some i) :
    reg.add mk ty e = reg.modify i (fun g =>
      match g with
      | .exclusive t is => .exclusive t (is ++ [(e, mk ty.id e)])
      | .shared t es ctx => .shared t (es ++ [e]) ctx) := by
  simp only [Registry.add, h]
  congr 1

/-- the last holder leaving removes the group (so the next holder starts from fresh state, by `add_builds_fresh`) -/
theorem last_holder_removes_group (su : Setup) (st : AppState) (h : Reachable su st) (t : Tick) (c e : Nat)
    (reg' : Registry) (dl : List Delivery) (hr : st.reg.remove t c e = some (reg', dl))
    (hlast : ∀ e', st.world.has e' c = true → e' = e) : reg'.index c = none := by
  have hm := reachable_pred su Mirror (mirror_appPred su) mirror_init st h
  obtain ⟨hwf', hm', _⟩ := remove_shape _ _ _ _ _ _ hr hm.wf
  cases hi : reg'.index c with
  | none => rfl
  | some gi =>
    exfalso
    obtain ⟨g, hg, hgid⟩ := index_spec reg' c gi hi
    have hmem : (g.ty, g.entities) ∈ shape reg' := by
      simp only [shape, List.mem_map]; exact ⟨g, List.mem_of_getElem? hg, rfl⟩
    have hne := hwf'.nonempty _ hmem
    cases hents : g.entities with
    | nil => exact hne hents
    | cons e' es =>
      have h1 : memS (shape reg') c e' := ⟨_, hmem, hgid, by simp [hents]⟩
      obtain ⟨h2, h3⟩ := (hm' c e').mp h1
      have := hlast e' ((hm.mirror c e').mp h2)
      exact h3 ⟨rfl, this⟩

/-! ### none of the operations panics -/

/-- every instance built through the public `bind` API (in any order, re-binding included) is well formed -/
theorem empty_wf : CtxWF {} := by intro ab hab; cases hab

theorem bind_wf (ci : ContextInstance) (a : Nat) (d : Dim) (cons : Bool) (acc : Accum) (f : ActionBind → ActionBind)
    (hf : ∀ b, (f b).action = b.action) (h : CtxWF ci) : CtxWF (ci.bind a d cons acc f) := by
  unfold ContextInstance.bind
  cases hg : ci.actions.get? a with
  | some x =>
    simp only
    intro ab hab
    simp only [List.mem_map] at hab
    obtain ⟨b, hb, rfl⟩ := hab
    by_cases hba : (b.action == a) = true
    · simp only [hba, if_true, hf]; exact h b hb
    · simp only [hba, Bool.false_eq_true, if_false]; exact h b hb
  | none =>
    simp only
    intro ab hab
    simp only [List.mem_append, List.mem_singleton] at hab
    rw [get?_isSome_iff_key]
    simp only [List.map_append, List.map_cons, List.map_nil, List.mem_append, List.mem_singleton]
    rcases hab with hab | rfl
    · exact Or.inl ((get?_isSome_iff_key _ _).mp (h ab hab))
    · exact Or.inr (hf _)

/-- (5) for every reachable state — any history of spawn, insert, remove, despawn, re-insert and rebuild, between
    frames, through commands or from observers — no lifecycle operation and no frame can panic: every `expect` of
    `ContextInstances::{add, remove, rebuild, update}`, `ContextInstance::{update, trigger_removed}` and
    `ActionBind::update` finds what it looks for (given that `context_instance` builds its instances with `bind`) -/
theorem no_operation_panics (su : Setup) (hs : SetupWF su) (st : AppState) (h : Reachable su st) (o : Op) :
    (applyOp su st o).isSome :=
  applyOp_total su hs st (reachable_pred su Good (good_appPred su hs) good_init st h) o

theorem no_frame_panics (su : Setup) (hs : SetupWF su) (st : AppState) (h : Reachable su st) (raw : RawInput) (t : Tick)
    (reacts : Reactions) (posts : List Op) (fuel : Nat) : (frame su st raw t reacts posts fuel).isSome :=
  frame_total su hs st raw t reacts posts fuel (reachable_pred su Good (good_appPred su hs) good_init st h)

end BEI.Props.C07
