/- C07 — theorems under construction. -/
import BEI.Model.App
namespace BEI.Props.C07
theorem placeholder_true : True := trivial
end BEI.Props.C07
