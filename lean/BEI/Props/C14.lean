/- C14 — theorems under construction. -/
import BEI.Model.App
namespace BEI.Props.C14
theorem placeholder_true : True := trivial
end BEI.Props.C14
