/-
  C14 — Shared contexts fan events out to all holders; exclusive ones stay isolated.
-/
import BEI.Proofs.Mirror
import BEI.Proofs.Update
namespace BEI.Props.C14
open BEI

/-- (1) fan-out of one action: every event of the frame is delivered exactly once to each element of the holder list
    (which has no duplicates, C07), with identical payload, and to nobody else -/
theorem fanout_exact (a : Nat) (d : ActionData) (es : List Nat) :
    triggerEvents a d es = d.events.flatMap (fun k => es.map (fun e => mkDelivery a d k e))
    ∧ (∀ x ∈ triggerEvents a d es, x.entity ∈ es)
    ∧ (∀ k ∈ d.events, ∀ e ∈ es, mkDelivery a d k e ∈ triggerEvents a d es)
    ∧ (∀ k e e', ({ mkDelivery a d k e with entity := e' } : Delivery) = mkDelivery a d k e') := by
  refine ⟨rfl, ?_, ?_, ?_⟩
  · intro x hx
    simp only [triggerEvents, List.mem_flatMap, List.mem_map] at hx
    obtain ⟨k, _, e, he, rfl⟩ := hx
    cases k <;> exact he
  · intro k hk e he
    simp only [triggerEvents, List.mem_flatMap, List.mem_map]
    exact ⟨k, hk, e, he, rfl⟩
  · intro k e e'; cases k <;> rfl

/-- each holder receives each event exactly once when the holder list has no duplicates -/
theorem fanout_once (a : Nat) (d : ActionData) (es : List Nat) (hnd : es.Nodup) (k : EvKind) (e : Nat) (he : e ∈ es) :
    (es.map (fun e' => mkDelivery a d k e')).count (mkDelivery a d k e) = 1 := by
  have hinj : ∀ e1 e2, mkDelivery a d k e1 = mkDelivery a d k e2 → e1 = e2 := by
    intro e1 e2 h
    have := congrArg Delivery.entity h
    cases k <;> simpa [mkDelivery] using this
  induction es with
  | nil => simp at he
  | cons x xs ih =>
    simp only [List.map_cons, List.count_cons]
    obtain ⟨hx, hxs⟩ := List.nodup_cons.mp hnd
    by_cases hxe : x = e
    · subst hxe
      have : (xs.map (fun e' => mkDelivery a d k e')).count (mkDelivery a d k x) = 0 := by
        rw [List.count_eq_zero]
        intro hmem
        simp only [List.mem_map] at hmem
        obtain ⟨y, hy, hyx⟩ := hmem
        exact hx (hinj _ _ hyx ▸ hy)
      simp [this]
    · have hne : (mkDelivery a d k x == mkDelivery a d k e) = false := by
        simp; exact fun h => hxe (hinj _ _ h)
      have hmem : e ∈ xs := by
        rcases List.mem_cons.mp he with h | h
        · exact absurd h.symm hxe
        · exact h
      simp [hne, ih hxs hmem]

/-- the deliveries of one `ActionBind::update` only ever go to the entities it was given -/
theorem update_recipients (ab : ActionBind) (r : Reader) (av : ActionsView) (t : Tick) (es : List Nat)
    (o : ActionBind.Out) (h : ab.update r av t es = some o) : ∀ x ∈ o.deliveries, x.entity ∈ es := by
  unfold ActionBind.update at h
  simp only at h
  split at h
  · cases h
  · simp only [Option.some.injEq] at h
    subst h
    intro x hx
    simp only at hx
    split at hx
    · simp at hx
    · exact (fanout_exact _ _ es).2.1 x hx

theorem instance_recipients (t : Tick) (es : List Nat) :
    ∀ (bs : List ActionBind) (r : Reader) (av : ActionsView) bs' r' av' dl lg,
      ContextInstance.loopActions r av t es bs = some (bs', r', av', dl, lg) → ∀ x ∈ dl, x.entity ∈ es := by
  intro bs
  induction bs with
  | nil =>
    intro r av bs' r' av' dl lg h
    simp only [ContextInstance.loopActions, Option.some.injEq, Prod.mk.injEq] at h
    obtain ⟨_, _, _, rfl, _⟩ := h
    intro x hx; cases hx
  | cons ab rest ih =>
    intro r av bs' r' av' dl lg h
    simp only [ContextInstance.loopActions] at h
    split at h
    · cases h
    · rename_i o ho
      split at h
      · cases h
      · rename_i rest' r'' av'' dl' lg' hrest
        simp only [Option.some.injEq, Prod.mk.injEq] at h
        obtain ⟨_, _, _, rfl, _⟩ := h
        intro x hx
        rcases List.mem_append.mp hx with hx | hx
        · exact update_recipients ab r av t es o ho x hx
        · exact ih _ _ _ _ _ _ _ hrest x hx

/-- (2) a shared group is evaluated once per frame with its full holder list: its events reach exactly the holders;
    an exclusive group evaluates each per-entity instance with that entity alone -/
theorem shared_update_recipients (ctx : ContextInstance) (r : Reader) (t : Tick) (es : List Nat) (o : ContextInstance.Out)
    (h : ctx.update r t es = some o) : ∀ x ∈ o.deliveries, x.entity ∈ es := by
  unfold ContextInstance.update at h
  split at h
  · cases h
  · rename_i bs r' av' dl lg hl
    simp only [Option.some.injEq] at h
    subst h
    exact instance_recipients t es _ _ _ _ _ _ _ _ hl

theorem exclusive_update_isolated (t : Tick) :
    ∀ (is : List (Nat × ContextInstance)) (r : Reader) is' r' dl lg,
      Registry.updateExclusive r t is = some (is', r', dl, lg) →
      (∀ x ∈ dl, x.entity ∈ is.map (·.1))
      ∧ is'.map (·.1) = is.map (·.1) := by
  intro is
  induction is with
  | nil =>
    intro r is' r' dl lg h
    simp only [Registry.updateExclusive, Option.some.injEq, Prod.mk.injEq] at h
    obtain ⟨rfl, _, rfl, _⟩ := h
    exact ⟨(fun x hx => nomatch hx), rfl⟩
  | cons p ps ih =>
    intro r is' r' dl lg h
    obtain ⟨e, ctx⟩ := p
    simp only [Registry.updateExclusive] at h
    split at h
    · cases h
    · rename_i o ho
      split at h
      · cases h
      · rename_i rest' r'' dl' lg' hrest
        simp only [Option.some.injEq, Prod.mk.injEq] at h
        obtain ⟨rfl, _, rfl, _⟩ := h
        obtain ⟨ih1, ih2⟩ := ih _ _ _ _ _ hrest
        constructor
        · intro x hx
          rcases List.mem_append.mp hx with hx | hx
          · have := shared_update_recipients ctx r t [e] o ho x hx
            simp at this
            simp [this]
          · have := ih1 x hx
            simp only [List.map_cons, List.mem_cons]
            exact Or.inr this
        · simp [ih2]

/-- (3) exclusive instances evolve independently apart from input consumption: the new state of the instance of entity
    `e` is a function of its own previous state, the reader as it stands at its turn, and the tick — nothing of the other
    instances' states enters (they only act through the reader) -/
theorem exclusive_independent (r : Reader) (t : Tick) (e : Nat) (ctx : ContextInstance) (rest : List (Nat × ContextInstance)) :
    Registry.updateExclusive r t ((e, ctx) :: rest) =
      match ctx.update r t [e] with
      | none => none
      | some o =>
        match Registry.updateExclusive o.reader t rest with
        | none => none
        | some (rest', r', dl, lg) => some ((e, o.inst) :: rest', r', o.deliveries ++ dl, o.log ++ lg) := rfl

/-- the holder list a shared instance fans out to has no duplicates in every reachable state (from the registry invariant) -/
theorem holders_nodup (su : Setup) (st : AppState) (h : Reachable su st) (g : Group) (hg : g ∈ st.reg) : g.entities.Nodup := by
  have hm := reachable_pred su Mirror (mirror_appPred su) mirror_init st h
  exact hm.wf.nodup (g.ty, g.entities) (by simp only [shape, List.mem_map]; exact ⟨g, hg, rfl⟩)

end BEI.Props.C14
