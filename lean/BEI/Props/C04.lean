/- C04 — theorems under construction. -/
import BEI.Model.App
namespace BEI.Props.C04
theorem placeholder_true : True := trivial
end BEI.Props.C04
