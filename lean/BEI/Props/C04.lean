/-
  C04 — Most significant inputs win; values accumulate and keep the output type; evaluation never panics.
-/
import BEI.Proofs.Update
import Mathlib.Tactic.Ring
namespace BEI.Props.C04
open BEI

/-- (1) which inputs contribute: exactly those whose *own* state is the most significant non-None state among all
    evaluated inputs of the action (in binding order) -/
theorem contributing_iff (es : List Ev) (e : Ev) :
    e ∈ contributing es ↔ e ∈ es ∧ e.state = topState es ∧ topState es ≠ .none := by
  simp [contributing, List.mem_filter]

/-- the most significant state dominates every evaluated input, and is attained when it is not None -/
theorem topState_max (es : List Ev) : ∀ x ∈ es, x.state.rank ≤ (topState es).rank := rank_le_top es

theorem topState_attained (es : List Ev) (h : topState es ≠ .none) : ∃ x ∈ es, x.state = topState es := by
  have key : ∀ (es : List Ev) (m : AState),
      es.foldl (fun m e => AState.maxS m e.state) m = m ∨
      ∃ x ∈ es, x.state = es.foldl (fun m e => AState.maxS m e.state) m := by
    intro es
    induction es with
    | nil => intro m; left; rfl
    | cons y ys ih =>
      intro m
      simp only [List.foldl_cons]
      rcases ih (AState.maxS m y.state) with h | ⟨x, hx, hxs⟩
      · rw [h]
        unfold AState.maxS
        split
        · right; exact ⟨y, by simp, rfl⟩
        · left; rfl
      · right; exact ⟨x, by simp [hx], hxs⟩
  rcases key es .none with h' | h'
  · exact absurd h' h
  · exact h'

/-- (2) the value and the state reported after one `ActionBind::update`, for every configuration (any number of inputs of
    any raw dimension, arbitrary modifier and condition machines at both levels, both accumulation modes, all four
    output dimensions): each contributing raw value passes through that input's modifiers in declaration order, the
    results are accumulated in binding order, the merged value passes through the action-level modifiers in declaration
    order, and the reported value is that converted to the action's dimension. -/
theorem value_spec (ab : ActionBind) (r : Reader) (av : ActionsView) (t : Tick) (es : List Nat)
    (o : ActionBind.Out) (h : ab.update r av t es = some o) :
    ∃ d, o.actions.get? ab.action = some d ∧
      let C := contributing (evalAll r av t ab.bindings)
      d.value = (runMods av t ab.mods (mergedValue ab.dim ab.accum (C.map (·.tracker.value)))).convert ab.dim
      ∧ d.value.dim = ab.dim
      ∧ (∀ e ∈ C, ∃ b ∈ ab.bindings, e.input = b.input ∧ e.tracker.value = runMods av t b.mods (r.value b.input)) := by
  obtain ⟨old, d, hold, hd, hchar⟩ := update_char ab r av t es o h
  obtain ⟨hdv, _⟩ := hchar
  refine ⟨d, hd, ?_, ?_, ?_⟩
  · rw [hdv]; simp [ActionData.update]
  · rw [hdv]; simp [ActionData.update, convert_dim']
  · intro e he
    have hmem : e ∈ evalAll r av t ab.bindings := (List.mem_filter.mp he).1
    simp only [evalAll, List.mem_filterMap] at hmem
    obtain ⟨b, hb, hbe⟩ := hmem
    obtain ⟨h1, h2, _⟩ := evalInput_spec r av t b e hbe
    exact ⟨b, hb, h1, h2⟩

/-- sum of 3-vectors -/
def sum3 (vs : List Value) : V3 := vs.foldl (fun a v => a + v.as3) V3.zero

/-- keep the first `n` axes -/
def trunc (d : Dim) (p : V3) : V3 :=
  match d with
  | .bool => p | .a1 => ⟨p.x, 0, 0⟩ | .a2 => ⟨p.x, p.y, 0⟩ | .a3 => p

theorem V3.add_def (a b : V3) : a + b = ⟨a.x + b.x, a.y + b.y, a.z + b.z⟩ := rfl

theorem ofV3_as3 (p : V3) (d : Dim) (hd : d ≠ .bool) : (Value.ofV3 p d).as3 = trunc d p := by
  cases d <;> simp_all [Value.ofV3, Value.convert, Value.as3, Value.as1, Value.as2, trunc]

theorem trunc_add (d : Dim) (a b : V3) : trunc d (a + b) = trunc d a + trunc d b := by
  cases d <;> simp [trunc, V3.add_def]

theorem trunc_trunc (d : Dim) (a : V3) : trunc d (trunc d a) = trunc d a := by
  cases d <;> simp [trunc]

/-- (3) Cumulative accumulation into a numeric output: the merged value is the sum of the contributing values with the
    extra axes dropped and the missing axes zero ("sum then convert" = what the code does step by step) -/
theorem merged_cumulative (d : Dim) (hd : d ≠ .bool) (vs : List Value) :
    (mergedValue d .cumulative vs).as3 = trunc d (sum3 vs) := by
  unfold mergedValue sum3
  have key : ∀ (vs : List Value) (a : Value) (p : V3), a.dim = d → a.as3 = trunc d p →
      (vs.foldl (combineValue .cumulative) a).as3 = trunc d (vs.foldl (fun a v => a + v.as3) p) := by
    intro vs
    induction vs with
    | nil => intro a p _ h; simpa using h
    | cons v vs ih =>
      intro a p hdim h
      simp only [List.foldl_cons]
      apply ih
      · rw [combineValue_dim]; exact hdim
      · simp only [combineValue]
        rw [hdim, ofV3_as3 _ _ hd, trunc_add, h, trunc_add, trunc_trunc]
  apply key
  · exact zero_dim' d
  · cases d <;> simp [Value.zero, Value.as3, trunc, V3.zero]

/-- (3') MaxAbs accumulation: per axis the largest magnitude wins (ties keep the earlier one) -/
theorem merged_maxabs_step (a b : Value) (hd : a.dim ≠ .bool) :
    (combineValue .maxAbs a b).as3 =
      trunc a.dim ⟨Tracker.maxAbs1 a.as3.x b.as3.x, Tracker.maxAbs1 a.as3.y b.as3.y, Tracker.maxAbs1 a.as3.z b.as3.z⟩ := by
  simp only [combineValue]
  exact ofV3_as3 _ _ hd

theorem maxAbs1_cases (a b : Rat) : Tracker.maxAbs1 a b = a ∨ Tracker.maxAbs1 a b = b := by
  unfold Tracker.maxAbs1; split <;> simp

theorem maxAbs1_ge (a b : Rat) :
    Tracker.absR a ≤ Tracker.absR (Tracker.maxAbs1 a b) ∧ Tracker.absR b ≤ Tracker.absR (Tracker.maxAbs1 a b) := by
  unfold Tracker.maxAbs1
  split <;> constructor <;> grind

/-- (4) the merged value always has the action's dimension, whatever dimension changes the modifiers perform -/
theorem merged_dim (d : Dim) (acc : Accum) (vs : List Value) : (mergedValue d acc vs).dim = d := mergedValue_dim d acc vs

/-- (5) no panic: `update` succeeds whenever the action has an `ActionsData` entry — independent of every value and
    dimension involved (the entry exists by the registry invariant, see C07; `as_output`'s `unreachable!` cannot be hit
    because the stored value has the declared dimension, `value_spec`) -/
theorem no_panic (ab : ActionBind) (r : Reader) (av : ActionsView) (t : Tick) (es : List Nat)
    (h : (av.get? ab.action).isSome) : (ab.update r av t es).isSome := update_total ab r av t es h

/-- the cancellation corner after the D7 fix: the contributing set is decided by the inputs' own states, so two
    condition-less inputs cancelling to zero followed by a lower-state input leave `(None-or-Fired by the law, 0)` —
    the later input does not take over. Concretely: +1, −1 (both Fired), then an Ongoing input. -/
example :
    let mk (v : Rat) (st : AState) : Ev :=
      { input := .key 0 {},
        tracker := { value := .a1 v, foundExplicit := true, anyExplicitFired := st == .fired, foundActive := st != .none },
        results := [(.explicit, st)] }
    let es := [mk 1 .fired, mk (-1) .fired, mk 5 .ongoing]
    (contributing es).length = 2 ∧ topState es = .fired := by
  decide

end BEI.Props.C04
