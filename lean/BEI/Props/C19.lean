/-
  C19 — Equivalent binding constructions behave identically; presets match the compass.
-/
import BEI.Model.BindSet
import BEI.Proofs.Update
namespace BEI.Props.C19
open BEI BSet

/-! ### constructions -/

/-- a tuple denotes the concatenation of its members' bindings (so nesting and flattening tuples changes nothing) -/
theorem tuple_assoc (a b c : BSet) : (tuple (tuple a b) c).bindings = (tuple a (tuple b c)).bindings := by
  simp [bindings, List.append_assoc]

theorem tuple_empty (a : BSet) : (tuple a empty).bindings = a.bindings ∧ (tuple empty a).bindings = a.bindings := by
  simp [bindings]

/-- array, slice and `Vec` of plain inputs = the tuple of the single inputs -/
theorem list_is_tuple (i : Input) (is : List Input) :
    (list (i :: is)).bindings = (tuple (single { input := i }) (list is)).bindings := by
  simp [bindings]

/-- the `each` helpers append to every element, in order, after the element's own modifiers / conditions; they
    distribute over tuples; attaching per input or through the helper is the same -/
theorem modsEach_tuple (a b : BSet) (ms : List Mod) :
    (modsEach (tuple a b) ms).bindings = (tuple (modsEach a ms) (modsEach b ms)).bindings := by
  simp [bindings]

theorem condsEach_tuple (a b : BSet) (cs : List Cond) :
    (condsEach (tuple a b) cs).bindings = (tuple (condsEach a cs) (condsEach b cs)).bindings := by
  simp [bindings]

theorem modsEach_single (b : InputBind) (ms : List Mod) :
    (modsEach (single b) ms).bindings = (single { b with mods := b.mods ++ ms }).bindings := rfl

theorem condsEach_single (b : InputBind) (cs : List Cond) :
    (condsEach (single b) cs).bindings = (single { b with conds := b.conds ++ cs }).bindings := rfl

theorem modsEach_twice (s : BSet) (m1 m2 : List Mod) :
    (modsEach (modsEach s m1) m2).bindings = (modsEach s (m1 ++ m2)).bindings := by
  simp [bindings, withMods, List.map_map, Function.comp_def, List.append_assoc]

theorem each_commute (s : BSet) (ms : List Mod) (cs : List Cond) :
    (condsEach (modsEach s ms) cs).bindings = (modsEach (condsEach s cs) ms).bindings := by
  simp [bindings, withMods, withConds, List.map_map, Function.comp_def]

/-- (1) passing a set in one call or its parts by repeated calls yields literally the same `ActionBind` -/
theorem to_tuple_is_repeated_to (ab : ActionBind) (a b : BSet) : ab.to (tuple a b) = (ab.to a).to b := by
  simp [ActionBind.to, bindings, List.append_assoc]

/-- (2) two constructions that denote the same sequence of (input, modifiers, conditions) yield literally the same
    `ActionBind` — hence the same behaviour on every input script (the evaluation is a function of the `ActionBind`) -/
theorem behaviour_congr (ab : ActionBind) (s1 s2 : BSet) (h : s1.bindings = s2.bindings) : ab.to s1 = ab.to s2 := by
  simp [ActionBind.to, h]

theorem behaviour_congr_update (ab : ActionBind) (s1 s2 : BSet) (h : s1.bindings = s2.bindings)
    (r : Reader) (av : ActionsView) (t : Tick) (es : List Nat) :
    ((ab.to s1).update r av t es).map (fun o => (o.deliveries, o.actions, o.log)) =
    ((ab.to s2).update r av t es).map (fun o => (o.deliveries, o.actions, o.log)) := by
  rw [behaviour_congr ab s1 s2 h]

/-- binding an action a second time extends it in place (see also C13.bind_idempotent_position) -/
theorem rebind_extends (ci : ContextInstance) (a : Nat) (d : Dim) (cons : Bool) (acc : Accum) (s : BSet)
    (h : ci.actions.get? a ≠ none) :
    (ci.bind a d cons acc (fun ab => ab.to s)).bindings
      = ci.bindings.map (fun b => if b.action == a then b.to s else b) := by
  unfold ContextInstance.bind
  cases hg : ci.actions.get? a with
  | none => exact absurd hg h
  | some x => rfl

/-! ### presets: the compass -/

/-- what one binding contributes for a pressed button (`Bool(true)`) after its modifiers -/
def contribution (b : InputBind) (av : ActionsView) (t : Tick) (raw : Value) : V3 := (runMods av t b.mods raw).as3

/-- (3) Cardinal: north ↦ +Y, east ↦ +X, south ↦ −Y, west ↦ −X, for arbitrary inputs in the four fields
    (each field's own bindings get exactly the listed modifiers appended) -/
theorem cardinal_compass (n e s w : Input) (av : ActionsView) (t : Tick) :
    let bs := (cardinal (single { input := n }) (single { input := e }) (single { input := s }) (single { input := w })).bindings
    bs.map (·.input) = [n, e, s, w]
    ∧ bs.map (fun b => contribution b av t (.bool true)) = [⟨0, 1, 0⟩, ⟨1, 0, 0⟩, ⟨0, -1, 0⟩, ⟨-1, 0, 0⟩]
    ∧ bs.map (fun b => contribution b av t (.bool false)) = [⟨0, 0, 0⟩, ⟨0, 0, 0⟩, ⟨0, 0, 0⟩, ⟨0, 0, 0⟩] := by
  simp [bindings, withMods, swzYXZ, negAll, contribution, runMods, Mod.apply, Mod.swizzle, Mod.negate, Mod.stateless,
    Mod.swizzleV, Mod.swizzleV.swizzle1, Mod.negateV, Value.as3, boolToRat]

/-- Bidirectional: positive ↦ +, negative ↦ − -/
theorem bidirectional_signs (p n : Input) (av : ActionsView) (t : Tick) :
    let bs := (bidir (single { input := p }) (single { input := n })).bindings
    bs.map (·.input) = [p, n]
    ∧ bs.map (fun b => contribution b av t (.bool true)) = [⟨1, 0, 0⟩, ⟨-1, 0, 0⟩] := by
  simp [bindings, withMods, negAll, contribution, runMods, Mod.apply, Mod.negate, Mod.stateless, Mod.negateV, Value.as3, boolToRat]

/-- a gamepad stick maps its X axis to X and its Y axis to Y -/
theorem stick_axes (right : Bool) (av : ActionsView) (t : Tick) (x y : Rat) :
    let bs := (stick right).bindings
    bs.map (·.input) = [.padAxis (if right then 2 else 0), .padAxis (if right then 3 else 1)]
    ∧ (bs.zip [Value.a1 x, Value.a1 y]).map (fun p => contribution p.1 av t p.2) = [⟨x, 0, 0⟩, ⟨0, y, 0⟩] := by
  simp [bindings, withMods, swzYXZ, contribution, runMods, Mod.apply, Mod.swizzle, Mod.stateless, Mod.swizzleV,
    Mod.swizzleV.swizzle1, Value.as3]

/-- presets of sets: every binding of the field is treated alike (e.g. `Cardinal { north: &vec, … }`) -/
theorem cardinal_of_sets (n e s w : BSet) :
    (cardinal n e s w).bindings =
      (tuple (tuple (tuple (modsEach n [swzYXZ]) e) (modsEach s [negAll, swzYXZ])) (modsEach w [negAll])).bindings := by
  simp [bindings]

theorem runMods_append (av : ActionsView) (t : Tick) (ms ns : List Mod) (v : Value) :
    runMods av t (ms ++ ns) v = runMods av t ns (runMods av t ms v) := by
  induction ms generalizing v with
  | nil => rfl
  | cons m ms ih => simp only [List.cons_append, runMods]; exact ih _

/-- Bidirectional of arbitrary field sets: the positive field's bindings unchanged, then every binding of the negative
    field with `Negate::all()` appended -/
theorem bidirectional_of_sets (p n : BSet) :
    (bidir p n).bindings = (tuple p (modsEach n [negAll])).bindings := by
  simp [bindings]

/-- "negative ↦ −" for whatever the negative field produces: **every** axis of the field's own result is reversed (the
    field may be a binding with its own swizzle, a nested stick preset, …, so Y and Z matter) -/
theorem bidirectional_negates_every_axis (b : InputBind) (av : ActionsView) (t : Tick) (raw : Value) :
    contribution (withMods b [negAll]) av t raw
      = ⟨-(contribution b av t raw).x, -(contribution b av t raw).y, -(contribution b av t raw).z⟩ := by
  simp only [contribution, withMods, runMods_append, runMods, negAll, Mod.apply, Mod.negate, Mod.stateless]
  cases runMods av t b.mods raw <;> simp [Mod.negateV, Value.as3, boolToRat]

/-- e.g. a vertical Bidirectional whose fields carry their own `SwizzleAxis::YXZ`: up ↦ +Y, down ↦ −Y -/
example (p n : Input) (av : ActionsView) (t : Tick) :
    ((bidir (single (withMods { input := p } [swzYXZ])) (single (withMods { input := n } [swzYXZ]))).bindings).map
      (fun b => contribution b av t (.bool true)) = [⟨0, 1, 0⟩, ⟨0, -1, 0⟩] := by
  simp [bindings, withMods, swzYXZ, negAll, contribution, runMods, Mod.apply, Mod.swizzle, Mod.negate, Mod.stateless,
    Mod.swizzleV, Mod.swizzleV.swizzle1, Mod.negateV, Value.as3, boolToRat]

/-- D5 (fixed by bc1fcbe): the pinned code attached `Negate` to *east* and nothing to west: east gave −X -/
theorem legacy_east_west (av : ActionsView) (t : Tick) :
    contribution (withMods { input := .key 0 {} } [negAll]) av t (.bool true) = ⟨-1, 0, 0⟩ := by
  simp [withMods, negAll, contribution, runMods, Mod.apply, Mod.negate, Mod.stateless, Mod.negateV, Value.as3, boolToRat]

end BEI.Props.C19
