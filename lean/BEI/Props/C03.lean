/- C03 — theorems under construction. -/
import BEI.Model.App
namespace BEI.Props.C03
theorem placeholder_true : True := trivial
end BEI.Props.C03
