/-
  C03 — Condition results combine by the explicit / implicit / blocker law, for any number, order and mix of
  conditions (built-in or user-defined: `Cond` is an arbitrary state machine), at input level, at action level and
  when both levels are combined.  `lawState` / `lawEventsBlocked` (Proofs/Law.lean) transcribe the statement.
-/
import BEI.Proofs.Update
import BEI.Model.Conditions
namespace BEI.Props.C03
open BEI

/-- (1) one level: for every value and every list of conditions, evaluating them all with `apply_conditions` from a
    fresh tracker gives the law's state and event suppression; the value is untouched; every condition ran once -/
theorem tracker_fold_law (av : ActionsView) (t : Tick) (v : Value) (cs : List Cond) :
    let out := (Tracker.new v).applyConditions av t cs
    out.1.state = lawState (runConds av t cs v) v.asBool
    ∧ out.1.eventsBlocked = lawEventsBlocked (runConds av t cs v)
    ∧ out.1.value = v
    ∧ (runConds av t cs v).length = cs.length := by
  have hc := applyConditions_spec av t cs (Tracker.new v) [] (TInv.new v)
  have hr := applyConditions_results av t cs (Tracker.new v)
  simp only [List.nil_append, hr] at hc
  refine ⟨?_, hc.1.eb, hc.2.1, by simp [runConds]⟩
  have := state_of_TInv _ _ hc.1
  rw [hc.2.1] at this
  exact this

/-- the law does not depend on anything but the multiset structure the statement names: in particular the position
    of a failed blocker is irrelevant (any order) -/
theorem law_blocker_anywhere (pre post : List Res) (nz : Bool) :
    lawState (pre ++ (Kind.blocker, AState.none) :: post) nz = .none := by
  simp [lawState]

theorem law_events_blocker_anywhere (pre post : List Res) :
    lawEventsBlocked (pre ++ (Kind.eventsBlocker, AState.none) :: post) = true := by
  simp [lawEventsBlocked]

/-- with no explicit or implicit condition present and no failed blocker: Fired iff the value is non-zero -/
theorem law_no_conditions (rs : List Res) (nz : Bool)
    (h : ∀ r ∈ rs, (r.1 = .blocker ∨ r.1 = .eventsBlocker) ∧ (r.1 = .blocker → r.2 ≠ .none)) :
    lawState rs nz = if nz then .fired else .none := by
  unfold lawState
  have h1 : (rs.any fun r => r.1 == .blocker && r.2 == .none) = false := by
    rw [List.any_eq_false]; intro r hr; have := h r hr; cases hk : r.1 <;> simp_all
  have h2 : rs.any Res.isExplicit = false := by
    rw [List.any_eq_false]; intro r hr; have := (h r hr).1; simp [Res.isExplicit]; rcases this with h | h <;> simp [h]
  have h3 : rs.any Res.isImplicit = false := by
    rw [List.any_eq_false]; intro r hr; have := (h r hr).1; simp [Res.isImplicit]; rcases this with h | h <;> simp [h]
  simp [h1, h2, h3]

/-- (2) input level: an evaluated input's own state is the law applied to the results of its own conditions on its
    modified raw value -/
theorem input_level_law (r : Reader) (av : ActionsView) (t : Tick) (b : InputBind) (e : Ev)
    (h : (evalInput r av t b).2.1 = some e) :
    e.state = lawState (runConds av t b.conds (runMods av t b.mods (r.value b.input)))
                       (runMods av t b.mods (r.value b.input)).asBool := by
  obtain ⟨_, hv, hr, hs, _⟩ := evalInput_spec r av t b e h
  rw [hs, hr, hv]

/-- (3) both levels combined: after one `ActionBind::update` the polled state is the law applied to the results of
    the contributing inputs' conditions (C04) together with the action-level conditions' results, on the value after
    the action-level modifiers; events are suppressed iff some events-only blocker among them failed — and the new
    state and value are stored (and polled) in either case. -/
theorem action_level_law (ab : ActionBind) (r : Reader) (av : ActionsView) (t : Tick) (es : List Nat)
    (o : ActionBind.Out) (h : ab.update r av t es = some o) :
    ∃ d, o.actions.get? ab.action = some d ∧
      let C := contributing (evalAll r av t ab.bindings)
      let v' := runMods av t ab.mods (mergedValue ab.dim ab.accum (C.map (·.tracker.value)))
      let rs := C.flatMap (·.results) ++ runConds av t ab.conds v'
      d.state = lawState rs v'.asBool
      ∧ d.value = v'.convert ab.dim
      ∧ o.eventsBlocked = lawEventsBlocked rs
      ∧ (o.eventsBlocked = true → o.deliveries = [])
      ∧ (o.eventsBlocked = false → o.deliveries = triggerEvents ab.action d es) := by
  obtain ⟨old, d, hold, hd, hchar⟩ := update_char ab r av t es o h
  obtain ⟨hdv, heb, _⟩ := hchar
  refine ⟨d, hd, ?_, ?_, heb, ?_, ?_⟩
  · rw [hdv]; simp [ActionData.update]
  · rw [hdv]; simp [ActionData.update]
  all_goals
    intro hb
    unfold ActionBind.update at h
    simp only at h
    split at h
    · cases h
    · rename_i old' hold'
      simp only [Option.some.injEq] at h
      subst h
      simp only at hb hd ⊢
      rw [ActionsView.get?_set_same _ _ _ _ hold'] at hd
      cases hd
      simp [hb]

/-- non-vacuity / realisability: *every* finite sequence of (kind, result) letters is produced by some list of
    (scripted, user-defined) conditions, so the quantification over result lists in the law is not vacuous -/
theorem every_result_list_realised (av : ActionsView) (t : Tick) (v : Value) (rs : List Res) :
    ∃ cs : List Cond, runConds av t cs v = rs := by
  refine ⟨rs.map (fun r => Cond.scripted 0 r.1 [r.2]), ?_⟩
  induction rs with
  | nil => rfl
  | cons r rs ih =>
    simp only [runConds, List.map_cons, List.map_map] at ih ⊢
    rw [ih]
    simp [Cond.eval, Cond.scripted]

/-- D1 (fixed by 90cc871): the pinned code *assigned* the blocker flags instead of accumulating them; that fold
    violates the law — two blockers [fails, passes] do not block. Kept as documentation of the defect. -/
def legacyNote (tr : Tracker) (k : Kind) (st : AState) : Tracker :=
  match k with
  | .blocker => { tr with blocked := st == .none }
  | .eventsBlocker => { tr with eventsBlocked := st == .none }
  | _ => tr.note k st

theorem legacy_counterexample :
    ((legacyNote (legacyNote (Tracker.new (.bool true)) .blocker .none) .blocker .fired).state
      ≠ lawState [(.blocker, .none), (.blocker, .fired)] true)
    ∧ (((Tracker.new (.bool true)).note .blocker .none).note .blocker .fired).state
      = lawState [(.blocker, .none), (.blocker, .fired)] true := by decide

end BEI.Props.C03
