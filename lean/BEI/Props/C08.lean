/-
  C08 — A new context ignores inputs that were already held when it was created, until the input it names has been
  physically inactive at least once (D6 fix: the test reads the physical state, not the consumed / UI-masked reading).
-/
import BEI.Proofs.Update
namespace BEI.Props.C08
open BEI

/-- a binding as `InputBind::new` creates it is under suppression; `context_instance` is called again by a rebuild, so
    every binding of a rebuilt instance starts suppressed as well -/
theorem fresh_binding_ignored (i : Input) : ({ input := i } : InputBind).ignored = true := rfl

/-- the suppression test reads only the physical input and the gamepad selection: consumption by other actions and
    the UI mask cannot lift it (D6) -/
theorem physical_only (r r' : Reader) (h1 : r.raw = r'.raw) (h2 : r.device = r'.device) (i : Input) :
    r.activeUnconsumed i = r'.activeUnconsumed i := by
  cases i <;> simp [Reader.activeUnconsumed, Reader.modsDown, Reader.findPad, h1, h2]

/-- what "the input it names is active" means for keyboard / mouse bindings: the key (button, non-zero delta) together
    with, for every required modifier, its left or right variant -/
theorem active_key (r : Reader) (k : Nat) (m : ModKeys) :
    r.activeUnconsumed (.key k m) = (r.raw.keys.contains k && m.keyPairs.all (fun p => r.raw.keys.contains p.1 || r.raw.keys.contains p.2)) := rfl

/-- (1) while suppressed and still physically active: the binding contributes nothing, none of its modifiers or
    conditions is driven, and it is left exactly as it was -/
theorem suppressed_skips (r : Reader) (av : ActionsView) (t : Tick) (b : InputBind)
    (h1 : b.ignored = true) (h2 : r.activeUnconsumed b.input = true) :
    evalInput r av t b = (b, none, []) := by
  simp [evalInput, h1, h2]

/-- (2) at the first evaluation at which the input is physically inactive the suppression ends, and from then on the
    binding behaves exactly like a binding that was never suppressed -/
theorem release_lifts (r : Reader) (av : ActionsView) (t : Tick) (b : InputBind) (h2 : r.activeUnconsumed b.input = false) :
    evalInput r av t b = evalInput r av t { b with ignored := false }
    ∧ (evalInput r av t b).1.ignored = false
    ∧ (evalInput r av t b).2.1.isSome := by
  simp [evalInput, h2]

theorem unsuppressed_stays (r : Reader) (av : ActionsView) (t : Tick) (b : InputBind) (h : b.ignored = false) :
    (evalInput r av t b).1.ignored = false ∧ (evalInput r av t b).2.1.isSome := by
  simp [evalInput, h]

/-- one frame as the binding sees it -/
abbrev Frame := Reader × ActionsView × Tick

/-- the binding after a history of frames -/
def runBinding (b : InputBind) (fs : List Frame) : InputBind :=
  fs.foldl (fun b f => (evalInput f.1 f.2.1 f.2.2 b).1) b

/-- (3) for **every** history: as long as the input has been physically active at every evaluation since creation, the
    binding is untouched (no machine stepped) and contributes nothing in any of those frames -/
theorem ignored_while_held (b : InputBind) (hb : b.ignored = true) (fs : List Frame)
    (hheld : ∀ f ∈ fs, f.1.activeUnconsumed b.input = true) :
    runBinding b fs = b ∧ ∀ f ∈ fs, (evalInput f.1 f.2.1 f.2.2 b).2.1 = none ∧ (evalInput f.1 f.2.1 f.2.2 b).2.2 = [] := by
  induction fs with
  | nil => exact ⟨rfl, by simp⟩
  | cons f rest ih =>
    have hf := suppressed_skips f.1 f.2.1 f.2.2 b hb (hheld f (by simp))
    obtain ⟨ih1, ih2⟩ := ih (fun g hg => hheld g (by simp [hg]))
    constructor
    · simp only [runBinding, List.foldl_cons, hf]
      exact ih1
    · intro g hg
      rcases List.mem_cons.mp hg with rfl | hg
      · simp [hf]
      · exact ih2 g hg

/-- (4) after the first inactive frame the history continues exactly as for a never-suppressed binding:
    held … held, released, then anything -/
theorem after_release (b : InputBind) (hb : b.ignored = true) (held : List Frame) (rel : Frame) (later : List Frame)
    (hheld : ∀ f ∈ held, f.1.activeUnconsumed b.input = true) (hrel : rel.1.activeUnconsumed b.input = false) :
    runBinding b (held ++ rel :: later) = runBinding { b with ignored := false } (rel :: later) := by
  have h1 := (ignored_while_held b hb held hheld).1
  simp only [runBinding, List.foldl_append, List.foldl_cons] at h1 ⊢
  rw [h1, (release_lifts rel.1 rel.2.1 rel.2.2 b hrel).1]

/-- input identity is preserved by evaluation, so "the input it names" is the same along the whole history -/
theorem evalInput_input (r : Reader) (av : ActionsView) (t : Tick) (b : InputBind) : (evalInput r av t b).1.input = b.input := by
  unfold evalInput; split <;> rfl

/-- non-vacuity: key held at creation, consumed by someone else this frame (reads zero!) — still suppressed -/
example :
    let b : InputBind := { input := .key 0 {} }
    let r : Reader := { raw := { keys := [0] }, consumed := { keys := [0] } }
    r.value b.input = .bool false ∧ (evalInput r [] ⟨0, 1⟩ b).2.1.isNone = true := by
  decide

end BEI.Props.C08
