/- C08 — theorems under construction. -/
import BEI.Model.App
namespace BEI.Props.C08
theorem placeholder_true : True := trivial
end BEI.Props.C08
