/-
  C20 — Action value conversions only drop trailing axes or zero-fill missing ones.
  All statements are about `BEI.Value` (Model/Value.lean), for *all* values and dimensions.
-/
import BEI.Model.Value
import Mathlib.Algebra.Order.Ring.Abs
import Mathlib.Tactic.Linarith
namespace BEI.Props.C20
open BEI Value

/-- number of axes of a dimension (`Bool` counts as one axis holding 0/1) -/
def axes : Dim → Nat
  | .bool => 1 | .a1 => 1 | .a2 => 2 | .a3 => 3

/-- keep the first `n` axes, zero the rest -/
def trunc (n : Nat) (p : V3) : V3 := ⟨if 0 < n then p.x else 0, if 1 < n then p.y else 0, if 2 < n then p.z else 0⟩

/-- "widening": `d` has at least as many axes, and we never go from a numeric value to `Bool` -/
def widens (src dst : Dim) : Prop := axes src ≤ axes dst ∧ (dst = .bool → src = .bool)

/-- converting yields the requested dimension -/
theorem convert_dim (v : Value) (d : Dim) : (v.convert d).dim = d := by
  cases d <;> rfl

/-- converting to the own dimension is the identity -/
theorem convert_self (v : Value) : v.convert v.dim = v := by
  cases v <;> simp [convert, dim, asBool, as1, as2, as3]

/-- the zero value has the requested dimension and is falsy -/
theorem zero_dim (d : Dim) : (Value.zero d).dim = d := by cases d <;> rfl
theorem zero_falsy (d : Dim) : (Value.zero d).asBool = false := by cases d <;> simp [Value.zero, asBool]

/-- a value is truthy iff some component is non-zero (Bool ↔ 0/1 on X) -/
theorem asBool_iff (v : Value) : v.asBool = true ↔ v.as3 ≠ V3.zero := by
  cases v with
  | bool b => cases b <;> simp [asBool, as3, V3.zero]
  | a1 x => simp [asBool, as3, V3.zero]
  | a2 x y => simp [asBool, as3, V3.zero]; tauto
  | a3 x y z => simp [asBool, as3, V3.zero]; tauto

/-- narrowing / widening to a numeric dimension keeps the leading axes in place, drops the trailing ones and
    zero-fills the missing ones: no axis is ever permuted -/
theorem convert_as3 (v : Value) (d : Dim) (hd : d ≠ .bool) :
    (v.convert d).as3 = trunc (axes d) v.as3 := by
  cases d with
  | bool => exact absurd rfl hd
  | a1 => cases v <;> simp [convert, as1, as3, trunc, axes]
  | a2 => cases v <;> simp [convert, as2, as3, trunc, axes]
  | a3 => cases v <;> simp [convert, as3, trunc, axes]

/-- widening never changes the components: the 3-vector view of the value is unchanged -/
theorem widen_as3 (v : Value) (d : Dim) (h : widens v.dim d) : (v.convert d).as3 = v.as3 := by
  obtain ⟨h1, h2⟩ := h
  cases d <;> cases v <;> simp_all [convert, as1, as2, as3, asBool, dim, axes]

/-- widening then narrowing back returns the original (Bool corresponds to 0/1 on X) -/
theorem widen_narrow (v : Value) (d : Dim) (h : widens v.dim d) : (v.convert d).convert v.dim = v := by
  obtain ⟨h1, h2⟩ := h
  cases d <;> cases v <;> simp_all [convert, as1, as2, as3, asBool, dim, axes]
  all_goals first | (rename_i b; cases b <;> simp) | simp [bne] | skip

/-- truthiness is preserved by widening -/
theorem widen_truthy (v : Value) (d : Dim) (h : widens v.dim d) : (v.convert d).asBool = v.asBool := by
  obtain ⟨h1, h2⟩ := h
  cases d <;> cases v <;> simp_all [convert, as1, as2, as3, asBool, dim, axes]
  all_goals first | (rename_i b; cases b <;> simp) | simp [bne] | skip

/-- narrowing to Bool is exactly truthiness; a numeric value narrowed to Bool comes back as 0/1 only -/
theorem to_bool (v : Value) : v.convert .bool = .bool v.asBool := rfl

theorem bool_roundtrip_guard (x : Rat) :
    ((Value.a1 x).convert .bool).convert .a1 = .a1 x ↔ (x = 0 ∨ x = 1) := by
  simp only [convert, asBool, as1]
  by_cases hx : x = 0
  · simp [hx]
  · simp [hx]; constructor <;> intro h <;> simp_all

/-- actuation: `isActuated v t` iff the magnitude of the value is at least `|t|` — stated for *any* length
    `l ≥ 0` with `l² = ‖v‖²` (the rationals have no square root; the code compares squares as well). -/
theorem isActuated_iff (v : Value) (t l : Rat) (hl : 0 ≤ l) (hsq : l * l = v.as3.normSq) :
    v.isActuated t = true ↔ |t| ≤ l := by
  simp only [isActuated, decide_eq_true_eq, ← hsq]
  constructor
  · intro h
    have h2 : |t| * |t| ≤ l * l := by rwa [abs_mul_abs_self]
    by_contra hc
    have hc' : l < |t| := lt_of_not_ge hc
    nlinarith [abs_nonneg t]
  · intro h
    have h0 := abs_nonneg t
    have : |t| * |t| ≤ l * l := by nlinarith
    rwa [abs_mul_abs_self] at this

/-- non-vacuity: a concrete value with an exact length -/
example : (Value.a2 3 4).isActuated 5 = true ∧ (Value.a2 3 4).isActuated (-5) = true
    ∧ (Value.a2 3 4).isActuated (11/2) = false := by
  refine ⟨?_, ?_, ?_⟩ <;> simp [isActuated, as3, V3.normSq] <;> norm_num

example : widens (Value.a1 (3/4)).dim .a3 := by simp [widens, axes, dim]

end BEI.Props.C20
