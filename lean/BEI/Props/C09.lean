/-
  C09 — Input is reflected in actions and events within the same frame, before Update (*partial*: Bevy's executor,
  its sync-point insertion and the internals of `InputSystem` are modelled by `BEI.Sched`, not verified; the hypotheses
  of the theorems below are the facts the harness reads off the real schedule graph on every run).
-/
import BEI.Model.Sched
import BEI.Props.C01
namespace BEI.Props.C09
open BEI BEI.Sched

variable {R E D : Type}

theorem runAll_others (absorb : R → E → R) (ne : E) (eval : R → D) (w : Sched.World R E D) (l : List PSys)
    (h : ∀ x ∈ l, ∃ n, x = PSys.other n) : runAll absorb ne eval w l = w := by
  induction l generalizing w with
  | nil => rfl
  | cons x xs ih =>
    obtain ⟨n, rfl⟩ := h x (by simp)
    simp only [runAll, List.foldl_cons, runSys]
    exact ih w (fun y hy => h y (by simp [hy]))

/-- (1) same frame: in **every** linearisation of `PreUpdate` that respects the two edges, the systems ordered after the
    crate's set (and therefore everything in `Update`, which runs after `PreUpdate`) see the deliveries computed from the
    input that reached the input resources in *this* frame: events sent before the frame, direct mutations between
    frames, and mutations made by systems in `First` (all of which are in `w.res` / `w.events` when `PreUpdate` starts) -/
theorem c09_same_frame (absorb : R → E → R) (ne : E) (eval : R → D) (w : Sched.World R E D) (lin : List PSys)
    (hw : w.probed = []) (h : Respects lin) :
    (runAll absorb ne eval w lin).probed = [some (eval (absorb w.res w.events))]
    ∧ (runAll absorb ne eval w lin).delivered = some (eval (absorb w.res w.events)) := by
  obtain ⟨a, b, c, d, rfl, hoth⟩ := h.shape
  have ha : ∀ x ∈ a, ∃ n, x = PSys.other n := fun x hx => hoth x (by simp [hx])
  have hb : ∀ x ∈ b, ∃ n, x = PSys.other n := fun x hx => hoth x (by simp [hx])
  have hc : ∀ x ∈ c, ∃ n, x = PSys.other n := fun x hx => hoth x (by simp [hx])
  have hd : ∀ x ∈ d, ∃ n, x = PSys.other n := fun x hx => hoth x (by simp [hx])
  simp only [runAll, List.foldl_append, List.foldl_cons, List.foldl_nil]
  have e1 := runAll_others absorb ne eval w a ha
  simp only [runAll] at e1
  rw [e1]
  simp only [runSys]
  have e2 := runAll_others absorb ne eval ({ w with res := absorb w.res w.events, events := ne }) b hb
  simp only [runAll] at e2
  rw [e2]
  have e3 := runAll_others absorb ne eval
    ({ res := absorb w.res w.events, events := ne, delivered := some (eval (absorb w.res w.events)), probed := w.probed }) c hc
  simp only [runAll] at e3
  rw [e3]
  have e4 := runAll_others absorb ne eval
    ({ res := absorb w.res w.events, events := ne, delivered := some (eval (absorb w.res w.events)),
       probed := w.probed ++ [some (eval (absorb w.res w.events))] }) d hd
  simp only [runAll] at e4
  rw [e4]
  simp [hw]

/-- (2) the edge `InputSystem → EnhancedInputSystem` is needed (the hypothesis is not vacuous): without it there is a
    linearisation in which the crate evaluates stale resources — the events of this frame are reflected one frame late -/
theorem c09_edge_needed (absorb : R → E → R) (ne : E) (eval : R → D) (w : Sched.World R E D) (hw : w.probed = []) :
    (runAll absorb ne eval w [PSys.eis, PSys.input, PSys.probe]).probed = [some (eval w.res)] := by
  simp [runAll, runSys, hw]

/-- the facts required of the real schedule; the check compares the harness' `sched` line with these on every run -/
def requiredFacts : Facts := { eisInPreUpdate := true, inputBeforeEis := true, preUpdateBeforeUpdate := true }

/-- (3) second sentence of C09: `Started`, `Canceled` and `Completed` are only ever delivered on a change of the
    action's state, so a frame in which no condition changes its result delivers none of them -/
theorem edge_events_need_state_change (p c : AState) (k : EvKind) (hk : k = .started ∨ k = .canceled ∨ k = .completed)
    (hmem : k ∈ eventsOf p c) : p ≠ c := by
  rcases hk with rfl | rfl | rfl <;> cases p <;> cases c <;> revert hmem <;> decide

theorem steady_state_no_edge_events (s : AState) :
    EvKind.started ∉ eventsOf s s ∧ EvKind.canceled ∉ eventsOf s s ∧ EvKind.completed ∉ eventsOf s s := by
  cases s <;> decide

end BEI.Props.C09
