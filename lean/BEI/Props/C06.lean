/- C06 — theorems under construction. -/
import BEI.Model.App
namespace BEI.Props.C06
theorem placeholder_true : True := trivial
end BEI.Props.C06
