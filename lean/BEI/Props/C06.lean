/-
  C06 — Contexts are evaluated in descending priority whatever the insertion history.
-/
import BEI.Proofs.AppInv
import BEI.Props.C05
namespace BEI.Props.C06
open BEI BEI.Props.C05

/-- (1) for every reachable application state — any order of registration, insertion, removal, re-insertion, rebuild and
    despawn over any entities, issued between frames, through commands or from observers, interleaved with any input
    frames — the registry is ordered by descending priority -/
theorem registry_sorted (su : Setup) (st : AppState) (h : Reachable su st) : SortedDesc st.reg :=
  reachable_pred su (fun _ reg => SortedDesc reg) (sorted_appPred su) List.Pairwise.nil st h

/-- (2) the per-frame update walks the registry in list order: the groups of a prefix are evaluated — and consume
    input — before those of the rest, which see only what is left in the reader -/
theorem update_in_list_order (t : Tick) : ∀ (a b : Registry) (r : Reader),
    Registry.update r t (a ++ b) =
      match Registry.update r t a with
      | none => none
      | some oa =>
        match Registry.update oa.reader t b with
        | none => none
        | some ob => some { reg := oa.reg ++ ob.reg, reader := ob.reader,
                            deliveries := oa.deliveries ++ ob.deliveries, log := oa.log ++ ob.log } := by
  intro a
  induction a with
  | nil =>
    intro b r
    simp only [List.nil_append, Registry.update]
    cases Registry.update r t b <;> simp
  | cons g rest ih =>
    intro b r
    cases g with
    | exclusive ty is =>
      simp only [List.cons_append, Registry.update]
      cases hex : Registry.updateExclusive r t is with
      | none => rfl
      | some x =>
        obtain ⟨is', r', dl, lg⟩ := x
        simp only
        rw [ih]
        cases Registry.update r' t rest with
        | none => rfl
        | some oa =>
          simp only
          cases Registry.update oa.reader t b with
          | none => rfl
          | some ob => simp [List.append_assoc]
    | shared ty es ctx =>
      simp only [List.cons_append, Registry.update]
      cases ctx.update r t es with
      | none => rfl
      | some oc =>
        simp only
        rw [ih]
        cases Registry.update oc.reader t rest with
        | none => rfl
        | some oa =>
          simp only
          cases Registry.update oa.reader t b with
          | none => rfl
          | some ob => simp [List.append_assoc]

theorem lt_length_of_getElem? {α : Type _} (l : List α) (i : Nat) (x : α) (h : l[i]? = some x) : i < l.length := by
  rcases Nat.lt_or_ge i l.length with h' | h'
  · exact h'
  · simp [List.getElem?_eq_none h'] at h

theorem split_at {α : Type _} : ∀ (l : List α) (i : Nat) (x : α), l[i]? = some x → l = l.take i ++ x :: l.drop (i + 1) := by
  intro l
  induction l with
  | nil => intro i x h; simp at h
  | cons y ys ih =>
    intro i x h
    cases i with
    | zero => simp at h; subst h; simp
    | succ n =>
      simp only [List.getElem?_cons_succ] at h
      simp only [List.take_succ_cons, List.drop_succ_cons, List.cons_append]
      rw [← ih n x h]

/-- (3) in a sorted registry a strictly higher priority type sits strictly earlier in the evaluation order -/
theorem higher_priority_earlier (reg : Registry) (h : SortedDesc reg) (i j : Nat) (gi gj : Group)
    (hi : reg[i]? = some gi) (hj : reg[j]? = some gj) (hp : gi.ty.priority > gj.ty.priority) : i < j := by
  rcases Nat.lt_or_ge i j with hlt | hle
  · exact hlt
  · exfalso
    rcases Nat.lt_or_eq_of_le hle with hlt | heq
    · have hjl := lt_length_of_getElem? _ _ _ hj
      have hil := lt_length_of_getElem? _ _ _ hi
      have := List.pairwise_iff_getElem.mp h j i hjl hil hlt
      rw [List.getElem?_eq_getElem hil] at hi
      rw [List.getElem?_eq_getElem hjl] at hj
      cases hi; cases hj
      omega
    · subst heq
      rw [hi] at hj
      cases hj
      omega

/-- (3') hence the registry splits as `before ++ higher :: between ++ lower :: after`: by (2) the higher-priority
    context is evaluated, and consumes, first; the lower one reads the reader it leaves behind (C05) -/
theorem split_by_priority (reg : Registry) (h : SortedDesc reg) (i j : Nat) (gi gj : Group)
    (hi : reg[i]? = some gi) (hj : reg[j]? = some gj) (hp : gi.ty.priority > gj.ty.priority) :
    ∃ pre mid post, reg = pre ++ gi :: mid ++ gj :: post := by
  have hlt := higher_priority_earlier reg h i j gi gj hi hj hp
  have h1 := split_at reg i gi hi
  have hidx : (reg.drop (i + 1))[j - i - 1]? = some gj := by
    rw [List.getElem?_drop]
    have : i + 1 + (j - i - 1) = j := by omega
    rw [this]; exact hj
  have h2 := split_at (reg.drop (i + 1)) (j - i - 1) gj hidx
  refine ⟨reg.take i, (reg.drop (i + 1)).take (j - i - 1), (reg.drop (i + 1)).drop (j - i - 1 + 1), ?_⟩
  calc reg = reg.take i ++ gi :: reg.drop (i + 1) := h1
    _ = reg.take i ++ gi :: ((reg.drop (i + 1)).take (j - i - 1) ++ gj :: (reg.drop (i + 1)).drop (j - i - 1 + 1)) := by
        rw [← h2]
    _ = _ := by simp

/-- with distinct priorities the insertion point used by `add` is the only one that keeps the registry sorted, so the
    model's choice coincides with whatever a correct `binary_search_by_key` returns -/
theorem insertion_point_unique (reg : Registry) (g : Group) (n : Nat) (hn : n ≤ reg.length)
    (hdist : ∀ x ∈ reg, x.ty.priority ≠ g.ty.priority)
    (hs : SortedDesc (reg.take n ++ [g] ++ reg.drop n)) : n = reg.insertPos g.ty.priority := by
  unfold Registry.insertPos
  unfold SortedDesc at hs
  rw [List.append_assoc, List.pairwise_append] at hs
  obtain ⟨_, h2, h3⟩ := hs
  have h2' : List.Pairwise (fun a b : Group => a.ty.priority ≥ b.ty.priority) (g :: reg.drop n) := h2
  have hbefore : ∀ x ∈ reg.take n, x.ty.priority > g.ty.priority := by
    intro x hx
    have := h3 x hx g (by simp)
    have := hdist x (List.mem_of_mem_take hx)
    omega
  have hafter : ∀ x ∈ reg.drop n, x.ty.priority < g.ty.priority := by
    intro x hx
    have := (List.pairwise_cons.mp h2').1 x hx
    have := hdist x (List.mem_of_mem_drop hx)
    omega
  have hsplit : reg.takeWhile (fun x => decide (x.ty.priority > g.ty.priority))
      = (reg.take n ++ reg.drop n).takeWhile (fun x => decide (x.ty.priority > g.ty.priority)) := by
    rw [List.take_append_drop]
  rw [hsplit, List.takeWhile_append_of_pos (by intro a ha; simpa using hbefore a ha)]
  cases hd : reg.drop n with
  | nil => simp [List.length_take]; omega
  | cons y ys =>
    have hy := hafter y (by rw [hd]; simp)
    have hny : ¬ ((fun x : Group => decide (x.ty.priority > g.ty.priority)) y = true) := by simp; omega
    have htw : List.takeWhile (fun x : Group => decide (x.ty.priority > g.ty.priority)) (y :: ys) = [] :=
      List.takeWhile_cons_of_neg hny
    rw [htw]
    simp [List.length_take]
    omega

/-- splitting a successful update of `a ++ b` into the update of `a` and the update of `b` with the reader `a` leaves -/
theorem update_append_some (t : Tick) (a b : Registry) (r : Reader) (o : Registry.Out)
    (h : Registry.update r t (a ++ b) = some o) :
    ∃ oa ob, Registry.update r t a = some oa ∧ Registry.update oa.reader t b = some ob ∧ o.reader = ob.reader := by
  rw [update_in_list_order] at h
  cases ha : Registry.update r t a with
  | none => rw [ha] at h; cases h
  | some oa =>
    rw [ha] at h
    simp only at h
    cases hb : Registry.update oa.reader t b with
    | none => rw [hb] at h; cases h
    | some ob =>
      rw [hb] at h
      simp only [Option.some.injEq] at h
      exact ⟨oa, ob, rfl, hb, by rw [← h]⟩

/-- **the higher-priority context wins contested inputs.**  In every reachable application state, for two context types
    present with priorities `gi > gj`, the frame update evaluates `gi` first; whatever is hidden when `gi` is done (in
    particular every input a consuming, non-None action of `gi` contributed to, `C05.update_consumes`) is still hidden when
    `gj`'s turn comes, so every binding of `gj` that names such an input reads it as inactive, whichever gamepad `gj`'s
    instances select. -/
theorem higher_priority_wins (su : Setup) (st : AppState) (hr : Reachable su st) (i j : Nat) (gi gj : Group)
    (hi : st.reg[i]? = some gi) (hj : st.reg[j]? = some gj) (hp : gi.ty.priority > gj.ty.priority)
    (r : Reader) (t : Tick) (o : Registry.Out) (hu : Registry.update r t st.reg = some o) :
    ∃ pre mid post opre ogi omid,
      st.reg = pre ++ gi :: mid ++ gj :: post
      ∧ Registry.update r t pre = some opre
      ∧ Registry.update opre.reader t [gi] = some ogi
      ∧ Registry.update ogi.reader t mid = some omid
      ∧ (∃ ogj, Registry.update omid.reader t [gj] = some ogj)
      ∧ ∀ (x : Input) (dev : Device), hiddenBy ogi.reader.consumed dev x = true →
          ((omid.reader.setGamepad dev).value x = inactive x) := by
  obtain ⟨pre, mid, post, hsplit⟩ := split_by_priority st.reg (registry_sorted su st hr) i j gi gj hi hj hp
  rw [hsplit] at hu
  have e1 : pre ++ gi :: mid ++ gj :: post = pre ++ ([gi] ++ (mid ++ ([gj] ++ post))) := by simp
  rw [e1] at hu
  obtain ⟨opre, o1, hpre, h1, _⟩ := update_append_some t _ _ r o hu
  obtain ⟨ogi, o2, hgi, h2, _⟩ := update_append_some t _ _ _ o1 h1
  obtain ⟨omid, o3, hmid, h3, _⟩ := update_append_some t _ _ _ o2 h2
  obtain ⟨ogj, _, hgj, _, _⟩ := update_append_some t _ _ _ o3 h3
  refine ⟨pre, mid, post, opre, ogi, omid, hsplit, hpre, hgi, hmid, ⟨ogj, hgj⟩, ?_⟩
  intro x dev hx
  have hk := registry_keeps_hidden t x dev mid ogi.reader omid hmid hx
  apply hidden_reads_inactive
  simpa [Reader.setGamepad] using hk
end BEI.Props.C06
