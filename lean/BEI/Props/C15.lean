/- C15 — theorems under construction. -/
import BEI.Model.App
namespace BEI.Props.C15
theorem placeholder_true : True := trivial
end BEI.Props.C15
