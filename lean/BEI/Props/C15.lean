/-
  C15 — Bindings read exactly the device, key and modifier combination they name.
  Statements are about `Reader.value` at the start of a frame (`updateState`: empty consumed set) without UI masking;
  that Bevy's `ButtonInput`, accumulated mouse deltas and `Gamepad` components hold what the devices sent is Bevy's
  contract (modelled by `RawInput`, exercised by the correspondence only) — hence *partly partial*.
-/
import BEI.Model.Reader
import BEI.Props.C16
import BEI.Props.C13
namespace BEI.Props.C15
open BEI BEI.Props.C05 BEI.Props.C16

/-- a reader at the start of a frame with no UI interaction -/
def fresh (raw : RawInput) (dev : Device) : Reader := { raw := raw, consumed := {}, device := dev }

theorem intersects_empty (m : ModKeys) : ({} : ModKeys).intersects m = false := by
  simp [ModKeys.intersects]

/-- the left / right key table of the modifier bits, as extracted from `ModKeys::iter_keys` on this run -/
theorem modkey_table :
    (ModKeys.keyPairs { alt := true }) = [(8, 9)] ∧ (ModKeys.keyPairs { control := true }) = [(10, 11)]
    ∧ (ModKeys.keyPairs { shift := true }) = [(12, 13)] ∧ (ModKeys.keyPairs { super := true }) = [(14, 15)]
    ∧ (ModKeys.keyPairs {}) = [] := by decide

/-- every required modifier bit contributes its (left, right) pair and nothing else does -/
theorem keyPairs_mem (m : ModKeys) (p : Nat × Nat) :
    p ∈ m.keyPairs ↔ (m.alt = true ∧ p = (8, 9)) ∨ (m.control = true ∧ p = (10, 11)) ∨ (m.shift = true ∧ p = (12, 13))
      ∨ (m.super = true ∧ p = (14, 15)) := by
  obtain ⟨a, c, s, u⟩ := m
  cases a <;> cases c <;> cases s <;> cases u <;> simp [ModKeys.keyPairs, Gen.modKeys, ModKeys.has] <;> grind

/-- (1) a keyboard binding is active iff its key is down and for every required modifier the left or the right
    variant is down -/
theorem key_active (raw : RawInput) (dev : Device) (k : Nat) (m : ModKeys) :
    (fresh raw dev).value (.key k m) =
      .bool (raw.keys.contains k && m.keyPairs.all (fun p => raw.keys.contains p.1 || raw.keys.contains p.2)) := by
  simp [fresh, Reader.value, Reader.modKeysPressed, Reader.modsDown, intersects_empty]

theorem mbtn_active (raw : RawInput) (dev : Device) (b : Nat) (m : ModKeys) :
    (fresh raw dev).value (.mbtn b m) =
      .bool (raw.mouseButtons.contains b && m.keyPairs.all (fun p => raw.keys.contains p.1 || raw.keys.contains p.2)) := by
  simp [fresh, Reader.value, Reader.modKeysPressed, Reader.modsDown, intersects_empty]

/-- (2) irrespective of any other keys: two raw states that agree on the named key and on the modifier keys of the
    required bits give the same reading -/
theorem key_congr (raw raw' : RawInput) (dev : Device) (k : Nat) (m : ModKeys)
    (hk : raw.keys.contains k = raw'.keys.contains k)
    (hm : ∀ p ∈ m.keyPairs, raw.keys.contains p.1 = raw'.keys.contains p.1 ∧ raw.keys.contains p.2 = raw'.keys.contains p.2) :
    (fresh raw dev).value (.key k m) = (fresh raw' dev).value (.key k m) := by
  rw [key_active, key_active, hk]
  congr 2
  apply List.all_congr rfl
  intro p hp
  rw [(hm p hp).1, (hm p hp).2]
where
  List.all_congr {α} {l1 l2 : List α} {f g : α → Bool} (h : l1 = l2) (hf : ∀ x ∈ l1, f x = g x) : l1.all f = l2.all g := by
    subst h
    induction l1 with
    | nil => rfl
    | cons x xs ih => simp only [List.all_cons]; rw [hf x (by simp), ih (fun y hy => hf y (by simp [hy]))]

/-- (3) a binding without modifier requirements ignores the modifier keys (and everything but its own key) -/
theorem no_mods_ignores_modifiers (raw : RawInput) (dev : Device) (k : Nat) :
    (fresh raw dev).value (.key k {}) = .bool (raw.keys.contains k) := by
  rw [key_active]; simp [modkey_table.2.2.2.2]

/-- (4) mouse motion and wheel report the frame's accumulated delta under the same modifier rule, zero on quiet frames -/
theorem motion_value (raw : RawInput) (dev : Device) (m : ModKeys) :
    (fresh raw dev).value (.motion m) =
      if m.keyPairs.all (fun p => raw.keys.contains p.1 || raw.keys.contains p.2) then .a2 raw.motion.1 raw.motion.2 else .a2 0 0 := by
  simp only [fresh, Reader.value, Reader.modKeysPressed, Reader.modsDown, intersects_empty]
  generalize (m.keyPairs.all fun p => raw.keys.contains p.1 || raw.keys.contains p.2) = bb
  cases bb <;> simp

theorem wheel_value (raw : RawInput) (dev : Device) (m : ModKeys) :
    (fresh raw dev).value (.wheel m) =
      if m.keyPairs.all (fun p => raw.keys.contains p.1 || raw.keys.contains p.2) then .a2 raw.wheel.1 raw.wheel.2 else .a2 0 0 := by
  simp only [fresh, Reader.value, Reader.modKeysPressed, Reader.modsDown, intersects_empty]
  generalize (m.keyPairs.all fun p => raw.keys.contains p.1 || raw.keys.contains p.2) = bb
  cases bb <;> simp

theorem quiet_frame (raw : RawInput) (dev : Device) (m : ModKeys) (h : raw.motion = (0, 0)) :
    (fresh raw dev).value (.motion m) = .a2 0 0 := by
  rw [motion_value]; split <;> simp [h]

/-- (5) a context tied to gamepad `g` reads only that gamepad: the reading depends on nothing but `g`'s own state, and
    is inactive if `g` is gone -/
theorem single_reads_only_g (raw raw' : RawInput) (g : Nat)
    (h : raw.pads.find? (fun p => p.handle == g) = raw'.pads.find? (fun p => p.handle == g)) (b x : Nat) :
    (fresh raw (.single g)).value (.padBtn b) = (fresh raw' (.single g)).value (.padBtn b)
    ∧ (fresh raw (.single g)).value (.padAxis x) = (fresh raw' (.single g)).value (.padAxis x) := by
  simp [fresh, Reader.value, Reader.findPad, h]

theorem single_absent_inactive (raw : RawInput) (g : Nat) (h : raw.pads.find? (fun p => p.handle == g) = none) (b x : Nat) :
    (fresh raw (.single g)).value (.padBtn b) = .bool false ∧ (fresh raw (.single g)).value (.padAxis x) = .a1 0 := by
  simp [fresh, Reader.value, Reader.findPad, h]

/-- (6) an unrestricted context sees a button pressed on any gamepad -/
theorem any_button (raw : RawInput) (b : Nat) :
    (fresh raw .any).value (.padBtn b) = .bool (raw.pads.any (fun p => p.pressed b)) := by
  simp [fresh, Reader.value]

/-- … and, when exactly one gamepad reports a non-zero value on an axis, that value -/
theorem any_axis_unique (raw : RawInput) (x : Nat) (pre post : List Pad) (p : Pad) (q : Rat)
    (hsplit : raw.pads = pre ++ p :: post) (hp : p.axisRaw x = some q) (hq : q ≠ 0)
    (hpre : ∀ p' ∈ pre, (p'.axisRaw x).filter (fun q => q != 0) = none)
    : (fresh raw .any).value (.padAxis x) = .a1 q := by
  simp only [fresh, Reader.value, hsplit]
  have : (pre ++ p :: post).findSome? (fun p => (p.axisRaw x).filter (fun q => q != 0)) = some q := by
    rw [List.findSome?_append]
    have h1 : pre.findSome? (fun p => (p.axisRaw x).filter (fun q => q != 0)) = none := by
      rw [List.findSome?_eq_none_iff]; exact hpre
    rw [h1]
    simp [List.findSome?_cons, hp, hq]
  simp [this]

/-- (7) with a single gamepad both settings behave identically (axis values within the device range [-1, 1]) -/
theorem one_gamepad_same (p : Pad) (raw : RawInput) (hone : raw.pads = [p]) (b x : Nat)
    (hrange : ∀ q, p.axisRaw x = some q → -1 ≤ q ∧ q ≤ 1) :
    (fresh raw .any).value (.padBtn b) = (fresh raw (.single p.handle)).value (.padBtn b)
    ∧ (fresh raw .any).value (.padAxis x) = (fresh raw (.single p.handle)).value (.padAxis x) := by
  constructor
  · simp [fresh, Reader.value, Reader.findPad, hone]
  · simp only [fresh, Reader.value, Reader.findPad, hone, List.findSome?_cons, List.findSome?_nil, List.find?_cons,
      beq_self_eq_true]
    cases hq : p.axisRaw x with
    | none => simp [hq]
    | some q =>
      obtain ⟨h1, h2⟩ := hrange q hq
      have hclamp : Pad.clamp1 q = q := by
        unfold Pad.clamp1
        split
        · rename_i h; exact absurd h (by grind)
        · split
          · rename_i h; exact absurd h (by grind)
          · rfl
      by_cases h0 : q = 0
      · subst h0; simp [hclamp, hq, Option.filter]
      · simp [h0, hclamp, hq, Option.filter]

/-- **every reading, anywhere in the frame**: a binding whose input is not hidden by consumption, read with the UI flag
    clear, reads exactly what the fresh reader of this frame reads — so the characterisations above (`key_active`,
    `mbtn_active`, `motion_value`, `single_reads_only_g`, `any_button`, …) hold for every context at its turn, not only
    for the first one; a hidden input reads inactive (`C05.hidden_reads_inactive`), a mouse input under the UI flag
    too (`C16.masked_reader`) -/
theorem unhidden_reads_physical (r : Reader) (j : Input) (h : hiddenBy r.consumed r.device j = false)
    (hui : r.consumed.uiWantsMouse = false) : r.value j = (fresh r.raw r.device).value j := by
  have hi : ∀ m : ModKeys, ({} : ModKeys).intersects m = false := by intro m; simp [ModKeys.intersects]
  cases j with
  | key k m =>
    simp [hiddenBy] at h
    simp [fresh, Reader.value, Reader.modKeysPressed, Reader.modsDown, h, hi]
  | mbtn b m =>
    simp [hiddenBy] at h
    simp [fresh, Reader.value, Reader.modKeysPressed, Reader.modsDown, h, hi, hui]
  | motion m =>
    simp [hiddenBy] at h
    have hc : (r.consumed.uiWantsMouse || !r.modKeysPressed m || r.consumed.motion)
        = ((fresh r.raw r.device).consumed.uiWantsMouse || !(fresh r.raw r.device).modKeysPressed m
            || (fresh r.raw r.device).consumed.motion) := by
      simp [fresh, Reader.modKeysPressed, Reader.modsDown, hui, h.1, h.2, hi]
    simp only [Reader.value]
    rw [hc]
    rfl
  | wheel m =>
    simp [hiddenBy] at h
    have hc : (r.consumed.uiWantsMouse || !r.modKeysPressed m || r.consumed.wheel)
        = ((fresh r.raw r.device).consumed.uiWantsMouse || !(fresh r.raw r.device).modKeysPressed m
            || (fresh r.raw r.device).consumed.wheel) := by
      simp [fresh, Reader.modKeysPressed, Reader.modsDown, hui, h.1, h.2, hi]
    simp only [Reader.value]
    rw [hc]
    rfl
  | padBtn b =>
    simp [hiddenBy] at h
    simp [fresh, Reader.value, Reader.findPad, h]
  | padAxis x =>
    simp [hiddenBy] at h
    simp [fresh, Reader.value, Reader.findPad, h]

theorem foldl_consume_pres {P : Reader → Prop} (hP : ∀ r i, P r → P (r.consume i)) (is : List Input) :
    ∀ r, P r → P (is.foldl Reader.consume r) := by
  induction is with
  | nil => intro r h; exact h
  | cons i is ih => intro r h; exact ih _ (hP r i h)

/-- a reader predicate preserved by `consume` holds for the reader every action of an instance is evaluated with
    (the loop changes the reader only by consuming) -/
theorem loopActions_consume_inv {P : Reader → Prop} (hP : ∀ r i, P r → P (r.consume i)) (t : Tick) (es : List Nat) :
    ∀ (bs : List ActionBind) (r : Reader) (av : ActionsView) bs' r' av' dl lg,
      ContextInstance.loopActions r av t es bs = some (bs', r', av', dl, lg) → P r → P r' := by
  intro bs
  induction bs with
  | nil =>
    intro r av bs' r' av' dl lg h hj
    simp only [ContextInstance.loopActions, Option.some.injEq, Prod.mk.injEq] at h
    obtain ⟨_, rfl, _, _, _⟩ := h
    exact hj
  | cons ab rest ih =>
    intro r av bs' r' av' dl lg h hj
    simp only [ContextInstance.loopActions] at h
    split at h
    · cases h
    · rename_i o ho
      split at h
      · cases h
      · rename_i rest' r'' av'' dl' lg' hrest
        simp only [Option.some.injEq, Prod.mk.injEq] at h
        obtain ⟨_, rfl, _, _, _⟩ := h
        refine ih _ _ _ _ _ _ _ hrest ?_
        obtain ⟨_, _, _, hreader, _⟩ := update_consumes ab r av t es o ho
        rw [hreader]
        exact foldl_consume_pres hP _ r hj

/-- **every action of a context instance is evaluated with the instance's own gamepad selection**: split the instance's
    bindings anywhere — the reader handed to the rest (after the actions before it were evaluated and consumed whatever they
    consumed) still selects `ci.gamepad`, and still carries this frame's raw device state.  So a context tied to one gamepad
    reads only that gamepad (`single_reads_only_g`, `single_absent_inactive`) at every action's turn, whatever other
    contexts with other selections were evaluated before it. -/
theorem action_turn_device (ci : ContextInstance) (r : Reader) (t : Tick) (es : List Nat) (pre : List ActionBind)
    (pre' : List ActionBind) (r1 : Reader) (av1 : ActionsView) (dl1 : List Delivery) (lg1 : List Inv)
    (h : ContextInstance.loopActions (r.setGamepad ci.gamepad) ci.actions t es pre = some (pre', r1, av1, dl1, lg1)) :
    r1.device = ci.gamepad ∧ r1.raw = r.raw := by
  have := loopActions_consume_inv (P := fun x => x.device = ci.gamepad ∧ x.raw = r.raw)
    (by intro x i hx; exact ⟨by rw [consume_device]; exact hx.1, by cases i <;> exact hx.2⟩)
    t es pre _ _ _ _ _ _ _ h ⟨rfl, rfl⟩
  exact this

end BEI.Props.C15
