/-
  C16 — While the UI is interacted with, mouse input is masked and nothing else is.
  `RawInput.uiActive` is "some `Interaction` component is not `None`" (that `bevy_ui` sets these components correctly is
  outside the model: the harness sets them directly — partly partial).
-/
import BEI.Model.Reader
namespace BEI.Props.C16
open BEI

/-- the reader at the start of a frame (`update_state` has run) -/
def start (raw : RawInput) (dev : Device) : Reader := ({ raw := raw, device := dev } : Reader).updateState

/-- the flag is recomputed from scratch on every frame: it is exactly "some element is hovered or pressed now" -/
theorem flag_recomputed (r : Reader) : r.updateState.consumed.uiWantsMouse = r.raw.uiActive := rfl

theorem flag_forgets_history (r : Reader) (c : Consumed) :
    ({ r with consumed := c } : Reader).updateState = r.updateState := rfl

/-- (1) in a frame with an interacted UI element every mouse-sourced input — buttons, motion, wheel, with or without
    modifier keys — reads as inactive, for every context (any gamepad selection) -/
theorem ui_masks_mouse (raw : RawInput) (dev : Device) (h : raw.uiActive = true) (b : Nat) (m : ModKeys) :
    (start raw dev).value (.mbtn b m) = .bool false
    ∧ (start raw dev).value (.motion m) = .a2 0 0
    ∧ (start raw dev).value (.wheel m) = .a2 0 0 := by
  simp [start, Reader.updateState, Reader.value, h]

/-- (2) keyboard and gamepad inputs read exactly as they would without the UI -/
theorem ui_keeps_rest (raw : RawInput) (dev : Device) (k : Nat) (m : ModKeys) (b x : Nat) :
    (start raw dev).value (.key k m) = (start { raw with uiActive := false } dev).value (.key k m)
    ∧ (start raw dev).value (.padBtn b) = (start { raw with uiActive := false } dev).value (.padBtn b)
    ∧ (start raw dev).value (.padAxis x) = (start { raw with uiActive := false } dev).value (.padAxis x) := by
  simp [start, Reader.updateState, Reader.value, Reader.modKeysPressed, Reader.modsDown, Reader.findPad]

/-- (3) in a frame with no interacted element nothing is masked: mouse inputs read their physical state -/
theorem no_ui_no_mask (raw : RawInput) (dev : Device) (h : raw.uiActive = false) (b : Nat) (m : ModKeys) :
    (start raw dev).value (.mbtn b m) = .bool (raw.mouseButtons.contains b && (start raw dev).modsDown m)
    ∧ (start raw dev).value (.motion m) = (if (start raw dev).modsDown m then .a2 raw.motion.1 raw.motion.2 else .a2 0 0)
    ∧ (start raw dev).value (.wheel m) = (if (start raw dev).modsDown m then .a2 raw.wheel.1 raw.wheel.2 else .a2 0 0) := by
  have hi : ∀ m : ModKeys, ({} : ModKeys).intersects m = false := by intro m; simp [ModKeys.intersects]
  simp only [start, Reader.updateState, Reader.value, Reader.modKeysPressed, h, hi]
  refine ⟨by simp, ?_, ?_⟩ <;>
  · generalize (Reader.modsDown _ m) = bb
    cases bb <;> simp

/-- the mask does not survive consumption bookkeeping either way: consuming an input never changes the UI flag -/
theorem consume_keeps_flag (r : Reader) (i : Input) : (r.consume i).consumed.uiWantsMouse = r.consumed.uiWantsMouse := by
  cases i <;> rfl

/-- non-vacuity: hovered UI, left button and Ctrl+key pressed: the button is masked, the key is not -/
example :
    let raw : RawInput := { keys := [0, 10], mouseButtons := [0], uiActive := true }
    (start raw .any).value (.mbtn 0 {}) = .bool false ∧ (start raw .any).value (.key 0 { control := true }) = .bool true := by
  decide

end BEI.Props.C16
