/-
  C16 — While the UI is interacted with, mouse input is masked and nothing else is.
  `RawInput.uiActive` is "some `Interaction` component is not `None`" (that `bevy_ui` sets these components correctly is
  outside the model: the harness sets them directly — partly partial).
-/
import BEI.Model.Reader
import BEI.Props.C05
namespace BEI.Props.C16
open BEI BEI.Props.C05

/-- the reader at the start of a frame (`update_state` has run) -/
def start (raw : RawInput) (dev : Device) : Reader := ({ raw := raw, device := dev } : Reader).updateState

/-- the flag is recomputed from scratch on every frame: it is exactly "some element is hovered or pressed now" -/
theorem flag_recomputed (r : Reader) : r.updateState.consumed.uiWantsMouse = r.raw.uiActive := rfl

theorem flag_forgets_history (r : Reader) (c : Consumed) :
    ({ r with consumed := c } : Reader).updateState = r.updateState := rfl

/-- (1) in a frame with an interacted UI element every mouse-sourced input — buttons, motion, wheel, with or without
    modifier keys — reads as inactive, for every context (any gamepad selection) -/
theorem ui_masks_mouse (raw : RawInput) (dev : Device) (h : raw.uiActive = true) (b : Nat) (m : ModKeys) :
    (start raw dev).value (.mbtn b m) = .bool false
    ∧ (start raw dev).value (.motion m) = .a2 0 0
    ∧ (start raw dev).value (.wheel m) = .a2 0 0 := by
  simp [start, Reader.updateState, Reader.value, h]

/-- (2) keyboard and gamepad inputs read exactly as they would without the UI -/
theorem ui_keeps_rest (raw : RawInput) (dev : Device) (k : Nat) (m : ModKeys) (b x : Nat) :
    (start raw dev).value (.key k m) = (start { raw with uiActive := false } dev).value (.key k m)
    ∧ (start raw dev).value (.padBtn b) = (start { raw with uiActive := false } dev).value (.padBtn b)
    ∧ (start raw dev).value (.padAxis x) = (start { raw with uiActive := false } dev).value (.padAxis x) := by
  simp [start, Reader.updateState, Reader.value, Reader.modKeysPressed, Reader.modsDown, Reader.findPad]

/-- (3) in a frame with no interacted element nothing is masked: mouse inputs read their physical state -/
theorem no_ui_no_mask (raw : RawInput) (dev : Device) (h : raw.uiActive = false) (b : Nat) (m : ModKeys) :
    (start raw dev).value (.mbtn b m) = .bool (raw.mouseButtons.contains b && (start raw dev).modsDown m)
    ∧ (start raw dev).value (.motion m) = (if (start raw dev).modsDown m then .a2 raw.motion.1 raw.motion.2 else .a2 0 0)
    ∧ (start raw dev).value (.wheel m) = (if (start raw dev).modsDown m then .a2 raw.wheel.1 raw.wheel.2 else .a2 0 0) := by
  have hi : ∀ m : ModKeys, ({} : ModKeys).intersects m = false := by intro m; simp [ModKeys.intersects]
  simp only [start, Reader.updateState, Reader.value, Reader.modKeysPressed, h, hi]
  refine ⟨by simp, ?_, ?_⟩ <;>
  · generalize (Reader.modsDown _ m) = bb
    cases bb <;> simp

/-- the mask does not survive consumption bookkeeping either way: consuming an input never changes the UI flag -/
theorem consume_keeps_flag (r : Reader) (i : Input) : (r.consume i).consumed.uiWantsMouse = r.consumed.uiWantsMouse := by
  cases i <;> rfl

/-- non-vacuity: hovered UI, left button and Ctrl+key pressed: the button is masked, the key is not -/
example :
    let raw : RawInput := { keys := [0, 10], mouseButtons := [0], uiActive := true }
    (start raw .any).value (.mbtn 0 {}) = .bool false ∧ (start raw .any).value (.key 0 { control := true }) = .bool true := by
  decide

/-! ### lifting to the whole frame -/

/-- A predicate on readers that `consume` and `set_gamepad` preserve is preserved by the whole frame update: the reader is
    only ever changed by those two operations while the registry is evaluated. -/
structure ReaderInv (P : Reader → Prop) : Prop where
  consume : ∀ r i, P r → P (r.consume i)
  setGamepad : ∀ r d, P r → P (r.setGamepad d)

theorem foldl_consume_inv {P : Reader → Prop} (hP : ReaderInv P) (is : List Input) : ∀ r, P r → P (is.foldl Reader.consume r) := by
  induction is with
  | nil => intro r h; exact h
  | cons i is ih => intro r h; exact ih _ (hP.consume r i h)

theorem update_inv {P : Reader → Prop} (hP : ReaderInv P) (ab : ActionBind) (r : Reader) (av : ActionsView) (t : Tick)
    (es : List Nat) (o : ActionBind.Out) (h : ab.update r av t es = some o) (hr : P r) : P o.reader := by
  obtain ⟨_, _, _, hreader, _⟩ := update_consumes ab r av t es o h
  rw [hreader]
  exact foldl_consume_inv hP _ r hr

theorem loopActions_inv {P : Reader → Prop} (hP : ReaderInv P) (t : Tick) (es : List Nat) :
    ∀ (bs : List ActionBind) (r : Reader) (av : ActionsView) bs' r' av' dl lg,
      ContextInstance.loopActions r av t es bs = some (bs', r', av', dl, lg) → P r → P r' := by
  intro bs
  induction bs with
  | nil =>
    intro r av bs' r' av' dl lg h hj
    simp only [ContextInstance.loopActions, Option.some.injEq, Prod.mk.injEq] at h
    obtain ⟨_, rfl, _, _, _⟩ := h
    exact hj
  | cons ab rest ih =>
    intro r av bs' r' av' dl lg h hj
    simp only [ContextInstance.loopActions] at h
    split at h
    · cases h
    · rename_i o ho
      split at h
      · cases h
      · rename_i rest' r'' av'' dl' lg' hrest
        simp only [Option.some.injEq, Prod.mk.injEq] at h
        obtain ⟨_, rfl, _, _, _⟩ := h
        exact ih _ _ _ _ _ _ _ hrest (update_inv hP ab r av t es o ho hj)

theorem instance_inv {P : Reader → Prop} (hP : ReaderInv P) (ci : ContextInstance) (r : Reader) (t : Tick) (es : List Nat)
    (o : ContextInstance.Out) (h : ci.update r t es = some o) (hj : P r) : P o.reader := by
  unfold ContextInstance.update at h
  split at h
  · cases h
  · rename_i bs r' av' dl lg hl
    simp only [Option.some.injEq] at h
    subst h
    exact loopActions_inv hP t es _ _ _ _ _ _ _ _ hl (hP.setGamepad r _ hj)

theorem updateExclusive_inv {P : Reader → Prop} (hP : ReaderInv P) (t : Tick) :
    ∀ (is : List (Nat × ContextInstance)) (r : Reader) is' r' dl lg,
      Registry.updateExclusive r t is = some (is', r', dl, lg) → P r → P r' := by
  intro is
  induction is with
  | nil =>
    intro r is' r' dl lg h hj
    simp only [Registry.updateExclusive, Option.some.injEq, Prod.mk.injEq] at h
    obtain ⟨_, rfl, _, _⟩ := h
    exact hj
  | cons p ps ih =>
    intro r is' r' dl lg h hj
    obtain ⟨e, ctx⟩ := p
    simp only [Registry.updateExclusive] at h
    split at h
    · cases h
    · rename_i o ho
      split at h
      · cases h
      · rename_i rest' r'' dl' lg' hrest
        simp only [Option.some.injEq, Prod.mk.injEq] at h
        obtain ⟨_, rfl, _, _⟩ := h
        exact ih _ _ _ _ _ hrest (instance_inv hP ctx r t [e] o ho hj)

theorem registry_inv {P : Reader → Prop} (hP : ReaderInv P) (t : Tick) :
    ∀ (reg : Registry) (r : Reader) (o : Registry.Out), Registry.update r t reg = some o → P r → P o.reader := by
  intro reg
  induction reg with
  | nil => intro r o h hj; simp only [Registry.update, Option.some.injEq] at h; subst h; exact hj
  | cons g rest ih =>
    intro r o h hj
    cases g with
    | exclusive ty is =>
      simp only [Registry.update] at h
      split at h
      · cases h
      · rename_i is' r' dl lg hex
        split at h
        · cases h
        · rename_i o' ho'
          simp only [Option.some.injEq] at h
          subst h
          exact ih r' o' ho' (updateExclusive_inv hP t _ _ _ _ _ _ hex hj)
    | shared ty es ctx =>
      simp only [Registry.update] at h
      split at h
      · cases h
      · rename_i oc hoc
        split at h
        · cases h
        · rename_i o' ho'
          simp only [Option.some.injEq] at h
          subst h
          exact ih oc.reader o' ho' (instance_inv hP ctx r t es oc hoc hj)

/-- the UI flag and the raw device state are untouched by everything the frame update does to the reader -/
theorem flagInv (raw : RawInput) (b : Bool) : ReaderInv (fun r => r.raw = raw ∧ r.consumed.uiWantsMouse = b) where
  consume := by
    intro r i h
    refine ⟨?_, by rw [consume_keeps_flag]; exact h.2⟩
    cases i <;> exact h.1
  setGamepad := by intro r d h; exact h

/-- whatever the reader has been through, while the flag is set every mouse-sourced input reads inactive under every
    gamepad selection -/
theorem masked_reader (r : Reader) (h : r.consumed.uiWantsMouse = true) (dev : Device) (b : Nat) (m : ModKeys) :
    (r.setGamepad dev).value (.mbtn b m) = .bool false
    ∧ (r.setGamepad dev).value (.motion m) = .a2 0 0
    ∧ (r.setGamepad dev).value (.wheel m) = .a2 0 0 := by
  simp [Reader.setGamepad, Reader.value, h]

/-- **(1) for the whole frame**: in a frame with an interacted UI element the reader every context is evaluated with —
    whatever was evaluated and consumed before it, in any registry — still masks every mouse-sourced input; split the
    registry anywhere (`before ++ after`): the reader handed to `after` masks the mouse. -/
theorem ui_masks_mouse_all_frame (raw : RawInput) (h : raw.uiActive = true) (t : Tick) (before : Registry) (o : Registry.Out)
    (hu : Registry.update (start raw .any) t before = some o) (dev : Device) (b : Nat) (m : ModKeys) :
    (o.reader.setGamepad dev).value (.mbtn b m) = .bool false
    ∧ (o.reader.setGamepad dev).value (.motion m) = .a2 0 0
    ∧ (o.reader.setGamepad dev).value (.wheel m) = .a2 0 0 := by
  have h0 : (start raw .any).raw = raw ∧ (start raw .any).consumed.uiWantsMouse = true := by
    constructor
    · rfl
    · rw [start, flag_recomputed]; exact h
  have := registry_inv (flagInv raw true) t before _ o hu h0
  exact masked_reader o.reader this.2 dev b m

/-- the flag is constant over the frame: at every point of the evaluation it is "some element is interacted with now" -/
theorem ui_flag_constant (raw : RawInput) (t : Tick) (before : Registry) (o : Registry.Out)
    (hu : Registry.update (start raw .any) t before = some o) : o.reader.consumed.uiWantsMouse = raw.uiActive := by
  have h0 : (start raw .any).raw = raw ∧ (start raw .any).consumed.uiWantsMouse = raw.uiActive := ⟨rfl, by rw [start, flag_recomputed]⟩
  exact (registry_inv (flagInv raw raw.uiActive) t before _ o hu h0).2

/-- **(2) for every reader**: what a keyboard or gamepad binding reads does not depend on the UI flag at all -/
theorem ui_flag_irrelevant_for_keys_and_pads (r : Reader) (f : Bool) (k : Nat) (m : ModKeys) (b x : Nat) :
    let r' : Reader := { r with consumed := { r.consumed with uiWantsMouse := f } }
    r'.value (.key k m) = r.value (.key k m) ∧ r'.value (.padBtn b) = r.value (.padBtn b)
      ∧ r'.value (.padAxis x) = r.value (.padAxis x) := by
  simp [Reader.value, Reader.modKeysPressed, Reader.modsDown, Reader.findPad]

end BEI.Props.C16
