/- C16 — theorems under construction. -/
import BEI.Model.App
namespace BEI.Props.C16
theorem placeholder_true : True := trivial
end BEI.Props.C16
