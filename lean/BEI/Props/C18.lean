/-
  C18 — Built-in modifiers obey their algebraic laws and never invent input (over exact rationals; *partly partial*:
  the radial dead zone is stated for an abstract length function, exponents are natural numbers, `f32` rounding is not
  modelled).  AccumulateBy is covered in C13 (`accumulateBy_spec`).
-/
import BEI.Model.Modifiers
import Mathlib.Tactic.Linarith
import Mathlib.Tactic.Positivity
import Mathlib.Tactic.Ring
import Mathlib.Tactic.FieldSimp
import Mathlib.Algebra.Order.Field.Basic
import Mathlib.Algebra.Order.Ring.Abs
import Mathlib.Algebra.Order.AbsoluteValue.Basic
import Mathlib.Analysis.SpecialFunctions.Pow.Real
namespace BEI.Props.C18
open BEI Mod

/-! ### Negate, Scale, DeltaScale -/

/-- Negate flips the sign of exactly the selected axes -/
theorem negate_axes (nx ny nz : Bool) (x y z : Rat) :
    negateV nx ny nz (.a3 x y z) = .a3 (if nx then -x else x) (if ny then -y else y) (if nz then -z else z)
    ∧ negateV nx ny nz (.a2 x y) = .a2 (if nx then -x else x) (if ny then -y else y)
    ∧ negateV nx ny nz (.a1 x) = .a1 (if nx then -x else x) := ⟨rfl, rfl, rfl⟩

/-- twice is the identity (a Bool input has become its 0/1 axis value) -/
theorem negate_involution (nx ny nz : Bool) (v : Value) :
    negateV nx ny nz (negateV nx ny nz v) = v.promote := by
  cases v <;> cases nx <;> cases ny <;> cases nz <;> simp [negateV, Value.promote]

/-- Scale multiplies per axis -/
theorem scale_axes (fx fy fz x y z : Rat) :
    scaleV fx fy fz (.a3 x y z) = .a3 (x * fx) (y * fy) (z * fz) ∧ scaleV fx fy fz (.a2 x y) = .a2 (x * fx) (y * fy)
    ∧ scaleV fx fy fz (.a1 x) = .a1 (x * fx) := ⟨rfl, rfl, rfl⟩

/-- DeltaScale multiplies by the frame delta -/
theorem deltaScale_axes (d x y z : Rat) :
    deltaScaleV d (.a3 x y z) = .a3 (x * d) (y * d) (z * d) ∧ deltaScaleV d (.a2 x y) = .a2 (x * d) (y * d)
    ∧ deltaScaleV d (.a1 x) = .a1 (x * d) := ⟨rfl, rfl, rfl⟩

/-! ### SwizzleAxis -/

/-- the stated permutation of a 3-vector -/
def perm : Swz → V3 → V3
  | .yxz, p => ⟨p.y, p.x, p.z⟩ | .zyx, p => ⟨p.z, p.y, p.x⟩ | .xzy, p => ⟨p.x, p.z, p.y⟩
  | .yzx, p => ⟨p.y, p.z, p.x⟩ | .zxy, p => ⟨p.z, p.x, p.y⟩

/-- on 3D input the output is exactly the stated permutation -/
theorem swizzle_3d (s : Swz) (x y z : Rat) : (swizzleV s (.a3 x y z)).as3 = perm s ⟨x, y, z⟩ := by
  cases s <;> rfl

/-- on Bool / 1D / 2D input the output is the stated permutation of the zero-padded input, truncated to the output
    dimension (2D stays 2D: the axis moved to Z is dropped; 1D is promoted to the dimension that holds its axis) -/
theorem swizzle_low (s : Swz) (v : Value) (hv : v.dim ≠ .a3) :
    (swizzleV s v).as3 =
      (let p := perm s v.promote.as3
       match (swizzleV s v).dim with
       | .bool => p | .a1 => ⟨p.x, 0, 0⟩ | .a2 => ⟨p.x, p.y, 0⟩ | .a3 => p) := by
  cases v with
  | bool b => cases s <;> cases b <;> simp [swizzleV, swizzleV.swizzle1, perm, Value.as3, Value.dim, Value.promote, boolToRat]
  | a1 x => cases s <;> simp [swizzleV, swizzleV.swizzle1, perm, Value.as3, Value.dim, Value.promote]
  | a2 x y => cases s <;> simp [swizzleV, perm, Value.as3, Value.dim, Value.promote]
  | a3 x y z => exact absurd rfl hv

/-- nothing is lost for Bool, 1D and 3D inputs: the input can be read back from the output -/
theorem swizzle_lossless (s : Swz) (v w : Value) (hv : v.dim ≠ .a2) (hw : w.dim ≠ .a2) (hd : v.promote.dim = w.promote.dim)
    (h : swizzleV s v = swizzleV s w) : v.promote = w.promote := by
  cases v <;> cases w <;> cases s <;>
    simp_all [swizzleV, swizzleV.swizzle1, Value.promote, Value.dim]

/-! ### DeadZone (0 ≤ lower < upper) -/

theorem absQ_eq (x : Rat) : absQ x = |x| := by
  unfold absQ; split
  · rename_i h; rw [abs_of_neg h]
  · rename_i h; rw [abs_of_nonneg (not_lt.mp h)]

theorem minQ_eq (a b : Rat) : minQ a b = min a b := by
  unfold minQ; split
  · rename_i h; rw [min_eq_right (le_of_lt h)]
  · rename_i h; rw [min_eq_left (not_lt.mp h)]

theorem maxQ_eq (a b : Rat) : maxQ a b = max a b := by
  unfold maxQ; split
  · rename_i h; rw [max_eq_right (le_of_lt h)]
  · rename_i h; rw [max_eq_left (not_lt.mp h)]

/-- the unsigned magnitude of the dead-zone output as a function of the input magnitude -/
def dzMag (lo hi a : Rat) : Rat := min (max (a - lo) 0 / (hi - lo)) 1

theorem deadZone1_eq (lo hi x : Rat) : deadZone1 lo hi x = dzMag lo hi |x| * signumQ x := by
  simp [deadZone1, dzMag, absQ_eq, minQ_eq, maxQ_eq]

theorem dzMag_range (lo hi a : Rat) (h : lo < hi) : 0 ≤ dzMag lo hi a ∧ dzMag lo hi a ≤ 1 := by
  unfold dzMag
  have hd : 0 < hi - lo := by linarith
  constructor
  · apply le_min
    · exact div_nonneg (le_max_right _ _) (le_of_lt hd)
    · norm_num
  · exact min_le_right _ _

theorem dzMag_mono (lo hi a b : Rat) (h : lo < hi) (hab : a ≤ b) : dzMag lo hi a ≤ dzMag lo hi b := by
  unfold dzMag
  have hd : 0 < hi - lo := by linarith
  apply min_le_min _ (le_refl _)
  apply div_le_div_of_nonneg_right _ (le_of_lt hd)
  exact max_le_max (by linarith) (le_refl _)

theorem signumQ_mul_self (x : Rat) : signumQ x * x = |x| := by
  unfold signumQ; split
  · rename_i h; rw [abs_of_neg h]; ring
  · rename_i h; rw [abs_of_nonneg (not_lt.mp h)]; ring

theorem signumQ_abs (x : Rat) : |signumQ x| = 1 := by unfold signumQ; split <;> simp

/-- zero inside the lower threshold -/
theorem deadZone_inside (lo hi x : Rat) (h0 : 0 ≤ lo) (h : lo < hi) (hx : |x| ≤ lo) : deadZone1 lo hi x = 0 := by
  rw [deadZone1_eq]
  have : dzMag lo hi |x| = 0 := by
    unfold dzMag
    have : max (|x| - lo) 0 = 0 := max_eq_right (by linarith)
    rw [this]; simp
  rw [this]; ring

/-- magnitude at most one -/
theorem deadZone_le_one (lo hi x : Rat) (h : lo < hi) : |deadZone1 lo hi x| ≤ 1 := by
  rw [deadZone1_eq, abs_mul, signumQ_abs, mul_one, abs_of_nonneg (dzMag_range lo hi _ h).1]
  exact (dzMag_range lo hi _ h).2

/-- the sign of the input is preserved (the output never points the other way) -/
theorem deadZone_sign (lo hi x : Rat) (h : lo < hi) : 0 ≤ deadZone1 lo hi x * x := by
  rw [deadZone1_eq, mul_assoc, signumQ_mul_self]
  exact mul_nonneg (dzMag_range lo hi _ h).1 (abs_nonneg x)

/-- monotone -/
theorem deadZone_mono (lo hi x y : Rat) (h : lo < hi) (hxy : x ≤ y) : deadZone1 lo hi x ≤ deadZone1 lo hi y := by
  rw [deadZone1_eq, deadZone1_eq]
  have rx := dzMag_range lo hi |x| h
  have ry := dzMag_range lo hi |y| h
  unfold signumQ
  by_cases hx : x < 0 <;> by_cases hy : y < 0 <;> simp only [hx, hy, if_true, if_false]
  · -- both negative: |x| ≥ |y|
    have : dzMag lo hi |y| ≤ dzMag lo hi |x| := dzMag_mono lo hi _ _ h (by rw [abs_of_neg hx, abs_of_neg hy]; linarith)
    linarith
  · linarith [rx.1, ry.1]
  · exact absurd (lt_of_le_of_lt hxy hy) hx
  · have : dzMag lo hi |x| ≤ dzMag lo hi |y| :=
      dzMag_mono lo hi _ _ h (by rw [abs_of_nonneg (not_lt.mp hx), abs_of_nonneg (not_lt.mp hy)]; exact hxy)
    linarith

/-- full scale at and beyond the upper threshold -/
theorem deadZone_saturates (lo hi x : Rat) (h : lo < hi) (hx : hi ≤ |x|) : |deadZone1 lo hi x| = 1 := by
  rw [deadZone1_eq, abs_mul, signumQ_abs, mul_one, abs_of_nonneg (dzMag_range lo hi _ h).1]
  unfold dzMag
  have hd : 0 < hi - lo := by linarith
  have : 1 ≤ max (|x| - lo) 0 / (hi - lo) := by
    rw [le_div_iff₀ hd]
    have : hi - lo ≤ |x| - lo := by linarith
    exact le_trans (by linarith) (le_max_left _ _)
  exact min_eq_right this

/-- radial dead zone, for any length function with `len v ≥ 0`: the output is the input direction scaled by a factor in
    [0, 1 / len v · 1]; in particular it is zero inside the lower threshold and has length `dzMag (len v) ≤ 1` -/
theorem deadZoneRadial_spec (len : V3 → Rat) (lo hi : Rat) (v : V3) (h0 : 0 ≤ lo) (h : lo < hi) (hl : 0 ≤ len v) :
    (len v ≤ lo → deadZoneRadial len lo hi v = V3.zero)
    ∧ (∃ k : Rat, 0 ≤ k ∧ deadZoneRadial len lo hi v = v.scale k ∧ k * len v ≤ 1) := by
  unfold deadZoneRadial
  simp only
  by_cases hz : len v = 0
  · simp only [hz, beq_self_eq_true, if_true, implies_true, true_and]
    exact ⟨0, le_refl _, by simp [V3.scale, V3.zero], by simp⟩
  · have hpos : 0 < len v := lt_of_le_of_ne hl (Ne.symm hz)
    have hne : (len v == 0) = false := by simpa using hz
    simp only [hne, Bool.false_eq_true, if_false]
    have hdz : deadZone1 lo hi (len v) = dzMag lo hi (len v) := by
      rw [deadZone1_eq, abs_of_nonneg hl]; unfold signumQ; simp [not_lt.mpr hl]
    constructor
    · intro hin
      have := deadZone_inside lo hi (len v) h0 h (by rw [abs_of_nonneg hl]; exact hin)
      rw [this]; simp [V3.scale, V3.zero]
    · refine ⟨1 / len v * dzMag lo hi (len v), ?_, ?_, ?_⟩
      · exact mul_nonneg (by positivity) (dzMag_range lo hi _ h).1
      · rw [hdz]; simp [V3.scale]; refine ⟨?_, ?_, ?_⟩ <;> ring
      · have := (dzMag_range lo hi (len v) h).2
        have : 1 / len v * dzMag lo hi (len v) * len v = dzMag lo hi (len v) := by field_simp
        linarith

/-! ### ExponentialCurve (natural exponent n > 0) -/

theorem expCurve_sign (x : Rat) (n : Nat) : 0 ≤ expCurve1 x n * x := by
  unfold expCurve1
  rw [absQ_eq, mul_assoc, signumQ_mul_self]
  positivity

theorem expCurve_fixed (n : Nat) (hn : 0 < n) : expCurve1 0 n = 0 ∧ expCurve1 1 n = 1 ∧ expCurve1 (-1) n = -1 := by
  unfold expCurve1 absQ signumQ
  refine ⟨?_, ?_, ?_⟩
  · simp [Nat.pos_iff_ne_zero.mp hn]
  · norm_num
  · norm_num

/-! ### zero ↦ zero, dimension changes only as documented -/

def isZero (v : Value) : Prop := v.as3 = V3.zero

theorem zero_to_zero (v : Value) (hz : isZero v) (lo hi : Rat) (h0 : 0 ≤ lo) (h : lo < hi) (n1 n2 n3 : Nat) (hn : 0 < n1 ∧ 0 < n2 ∧ 0 < n3)
    (nx ny nz : Bool) (fx fy fz d : Rat) (s : Swz) :
    isZero (negateV nx ny nz v) ∧ isZero (scaleV fx fy fz v) ∧ isZero (swizzleV s v) ∧ isZero (deadZoneAxialV lo hi v)
    ∧ isZero (expV n1 n2 n3 v) ∧ isZero (deltaScaleV d v) := by
  have dz0 : deadZone1 lo hi 0 = 0 := deadZone_inside lo hi 0 h0 h (by simpa using h0)
  have e1 := (expCurve_fixed n1 hn.1).1
  have e2 := (expCurve_fixed n2 hn.2.1).1
  have e3 := (expCurve_fixed n3 hn.2.2).1
  cases v with
  | bool b =>
    have hb : b = false := by cases b <;> simp_all [isZero, Value.as3, V3.zero]
    subst hb
    cases s <;> simp [isZero, negateV, scaleV, swizzleV, swizzleV.swizzle1, deadZoneAxialV, expV, deltaScaleV, Value.as3, V3.zero, boolToRat, dz0, e1]
  | a1 x =>
    have : x = 0 := by simpa [isZero, Value.as3, V3.zero] using hz
    subst this
    cases s <;> simp [isZero, negateV, scaleV, swizzleV, swizzleV.swizzle1, deadZoneAxialV, expV, deltaScaleV, Value.as3, V3.zero, dz0, e1]
  | a2 x y =>
    have : x = 0 ∧ y = 0 := by simpa [isZero, Value.as3, V3.zero] using hz
    obtain ⟨rfl, rfl⟩ := this
    cases s <;> simp [isZero, negateV, scaleV, swizzleV, deadZoneAxialV, expV, deltaScaleV, Value.as3, V3.zero, dz0, e1, e2]
  | a3 x y z =>
    have : x = 0 ∧ y = 0 ∧ z = 0 := by simpa [isZero, Value.as3, V3.zero] using hz
    obtain ⟨rfl, rfl, rfl⟩ := this
    cases s <;> simp [isZero, negateV, scaleV, swizzleV, deadZoneAxialV, expV, deltaScaleV, Value.as3, V3.zero, dz0, e1, e2, e3]

/-- Bool becomes 1D; every other dimension is kept by Negate, Scale, DeadZone, ExponentialCurve, DeltaScale -/
theorem dims_kept (v : Value) (nx ny nz : Bool) (fx fy fz lo hi d : Rat) (n1 n2 n3 : Nat) :
    (negateV nx ny nz v).dim = v.promote.dim ∧ (scaleV fx fy fz v).dim = v.promote.dim
    ∧ (deadZoneAxialV lo hi v).dim = v.promote.dim ∧ (expV n1 n2 n3 v).dim = v.promote.dim
    ∧ (deltaScaleV d v).dim = v.promote.dim := by
  cases v <;> simp [negateV, scaleV, deadZoneAxialV, expV, deltaScaleV, Value.promote, Value.dim]

/-- swizzle promotion: 1D (and Bool) input becomes 2D or 3D exactly when its axis moves to Y or Z -/
theorem swizzle_dims (s : Swz) (x : Rat) :
    (swizzleV s (.a1 x)).dim = (match s with | .yxz | .zxy => .a2 | .zyx | .yzx => .a3 | .xzy => .a1) := by
  cases s <;> rfl

/-- `value.abs().powf(e).copysign(value)` over the reals, for exponents that are not natural numbers -/
noncomputable def expReal (x e : ℝ) : ℝ := if x < 0 then -(|x| ^ e) else |x| ^ e

/-- 0 and ±1 are fixed points of the curve for **every** non-zero real exponent — which is why the exact model
    (`Mod.expFrac`: the promoted input itself) is right on the inputs whose components are 0, 1 or −1, the only ones the
    correspondence sends with such exponents -/
theorem expCurve_fixed_real (e : ℝ) (he : e ≠ 0) :
    expReal 0 e = 0 ∧ expReal 1 e = 1 ∧ expReal (-1) e = -1 := by
  refine ⟨?_, ?_, ?_⟩
  · simp [expReal, Real.zero_rpow he]
  · simp [expReal]
  · simp [expReal]

/-- sign is preserved for every real exponent -/
theorem expCurve_sign_real (x e : ℝ) : 0 ≤ expReal x e * x := by
  unfold expReal
  split
  · rename_i h
    have : 0 ≤ |x| ^ e := Real.rpow_nonneg (abs_nonneg x) e
    nlinarith
  · rename_i h
    have : 0 ≤ |x| ^ e := Real.rpow_nonneg (abs_nonneg x) e
    have hx : 0 ≤ x := not_lt.mp h
    exact mul_nonneg this hx

/-- on natural exponents the real curve is the model's `expCurve1` -/
theorem expReal_nat (x : ℚ) (n : ℕ) : expReal (x : ℝ) (n : ℝ) = ((expCurve1 x n : ℚ) : ℝ) := by
  unfold expReal expCurve1 absQ signumQ
  rw [Real.rpow_natCast]
  rcases lt_trichotomy x 0 with h | h | h
  · have hr : (x : ℝ) < 0 := by exact_mod_cast h
    simp [hr, h, not_lt.mpr (le_of_lt h), abs_of_neg hr]
  · subst h
    simp
  · have hr : ¬ (x : ℝ) < 0 := by push_cast; exact not_lt.mpr (by exact_mod_cast le_of_lt h)
    have hr' : (0 : ℝ) ≤ x := by exact_mod_cast le_of_lt h
    simp [hr, h, not_lt.mpr (le_of_lt h), abs_of_nonneg hr']

/-! ### DeltaLerp (speed ≥ 0, delta ≥ 0) -/

/-- a number lies between two others -/
def between (a b x : Rat) : Prop := (a ≤ x ∧ x ≤ b) ∨ (b ≤ x ∧ x ≤ a)

theorem lerp_between (a b s : Rat) (h0 : 0 ≤ s) (h1 : s ≤ 1) : between a b (a * (1 - s) + b * s) := by
  unfold between
  rcases le_total a b with h | h
  · left; constructor <;> nlinarith
  · right; constructor <;> nlinarith

/-- the output always lies between the previous output and the current input, in every axis, for every delta
    (D4 fix: the interpolation factor is clamped to 1) -/
theorem deltaLerp_between (speed : Rat) (prev : V3) (t : Tick) (v : Value) (hs : 0 ≤ speed) (hd : 0 ≤ t.delta) :
    let out := (deltaLerpStep speed prev t v).1
    let tgt := v.promote.as3
    between prev.x tgt.x out.x ∧ between prev.y tgt.y out.y ∧ between prev.z tgt.z out.z := by
  have hself : ∀ a b : Rat, between a b b := by
    intro a b; unfold between
    rcases le_total a b with h | h
    · exact Or.inl ⟨h, le_refl _⟩
    · exact Or.inr ⟨le_refl _, h⟩
  simp only [deltaLerpStep]
  split
  · exact ⟨hself _ _, hself _ _, hself _ _⟩
  · have hα0 : 0 ≤ minQ (t.delta * speed) 1 := by rw [minQ_eq]; exact le_min (mul_nonneg hd hs) (by norm_num)
    have hα1 : minQ (t.delta * speed) 1 ≤ 1 := by rw [minQ_eq]; exact min_le_right _ _
    simp only [lerp3, V3.scale, V3.add_def']
    exact ⟨lerp_between _ _ _ hα0 hα1, lerp_between _ _ _ hα0 hα1, lerp_between _ _ _ hα0 hα1⟩
where
  V3.add_def' (a b : V3) : a + b = ⟨a.x + b.x, a.y + b.y, a.z + b.z⟩ := rfl

/-- it reaches the input once close: within the snap distance the output *is* the input -/
theorem deltaLerp_snaps (speed : Rat) (prev : V3) (t : Tick) (v : Value)
    (h : (prev.sub v.promote.as3).normSq < Gen.dlerpSnapEps) :
    deltaLerpStep speed prev t v = (v.promote.as3, v.promote) := by
  simp [deltaLerpStep, h]

/-- the modifier's memory *is* its previous output: after every step the stored vector equals the returned value (read as
    3-D), and it has no component beyond the value's dimension — so `prev` in `deltaLerp_between` is "the previous output"
    along every history of inputs of one dimension (a snap that did not store the target would break exactly this) -/
theorem deltaLerp_state_is_output (speed : Rat) (prev : V3) (t : Tick) (v : Value)
    (hprev : (Value.ofV3 prev v.promote.dim).as3 = prev) :
    let r := deltaLerpStep speed prev t v
    r.2.as3 = r.1 ∧ (Value.ofV3 r.1 v.promote.dim).as3 = r.1 ∧ r.2.dim = v.promote.dim := by
  obtain ⟨px, py, pz⟩ := prev
  simp only [deltaLerpStep]
  split_ifs with hc
  · cases v <;> simp_all [Value.promote, Value.dim, Value.ofV3, Value.convert, Value.as3, Value.as1, Value.as2]
  · cases v <;>
      simp_all [Value.promote, Value.dim, Value.ofV3, Value.convert, Value.as3, Value.as1, Value.as2, lerp3, V3.scale,
        V3.add_def''] <;>
      first
        | (obtain ⟨rfl, rfl⟩ := hprev; constructor <;> ring)
        | (subst hprev; ring)
where
  V3.add_def'' (a b : V3) : a + b = ⟨a.x + b.x, a.y + b.y, a.z + b.z⟩ := rfl

/-- history form of "the output lies between the previous output and the current input": two consecutive applications to
    inputs of the same dimension -/
theorem deltaLerp_between_outputs (speed : Rat) (prev : V3) (t1 t2 : Tick) (v1 v2 : Value)
    (hdim : v1.promote.dim = v2.promote.dim) (hprev : (Value.ofV3 prev v1.promote.dim).as3 = prev)
    (hs : 0 ≤ speed) (hd : 0 ≤ t2.delta) :
    let r1 := deltaLerpStep speed prev t1 v1
    let r2 := deltaLerpStep speed r1.1 t2 v2
    between r1.2.as3.x v2.promote.as3.x r2.2.as3.x ∧ between r1.2.as3.y v2.promote.as3.y r2.2.as3.y
      ∧ between r1.2.as3.z v2.promote.as3.z r2.2.as3.z := by
  intro r1 r2
  have h1 := deltaLerp_state_is_output speed prev t1 v1 hprev
  have h2 := deltaLerp_state_is_output speed r1.1 t2 v2 (by rw [← hdim]; exact h1.2.1)
  rw [h1.1, h2.1]
  exact deltaLerp_between speed r1.1 t2 v2 hs hd

/-- the hypotheses are met by the initial memory (zero) and every input -/
example (v : Value) : (Value.ofV3 V3.zero v.promote.dim).as3 = V3.zero := by
  cases v <;> simp [Value.promote, Value.dim, Value.ofV3, Value.convert, Value.as3, Value.as1, Value.as2, V3.zero]

/-- D4 (fixed by 4a1b141): without the clamp the output overshoots when delta * speed > 1 -/
theorem legacy_overshoot : ¬ between (0 : Rat) 1 ((0 : Rat) * (1 - (1/4) * 8) + 1 * ((1/4) * 8)) := by
  unfold between; norm_num

end BEI.Props.C18
