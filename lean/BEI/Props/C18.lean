/- C18 — theorems under construction. -/
import BEI.Model.App
namespace BEI.Props.C18
theorem placeholder_true : True := trivial
end BEI.Props.C18
