/-
  C10 — Reported elapsed and fired durations follow the action's state history.
  `ActionData.update` is the only place durations change; `t.delta` is the frame's virtual delta (`virtualTick`).
-/
import BEI.Proofs.Basic
namespace BEI.Props.C10
open BEI

/-- on the frame an action leaves None (and on every frame it rests in None) both durations are zero -/
theorem from_none (d : ActionData) (t : Tick) (st : AState) (v : Value) (h : d.state = .none) :
    (d.update t st v).elapsed = 0 ∧ (d.update t st v).fired = 0 := by
  simp [ActionData.update, h]

/-- on every later frame of the episode — including the terminal one — elapsed grows by exactly the frame's virtual
    delta, and fired grows by that delta if the action was Fired after the previous frame and is zero otherwise -/
theorem later_frames (d : ActionData) (t : Tick) (st : AState) (v : Value) (h : d.state ≠ .none) :
    (d.update t st v).elapsed = d.elapsed + t.delta
    ∧ (d.update t st v).fired = (if d.state = .fired then d.fired + t.delta else 0) := by
  cases hs : d.state <;> simp_all [ActionData.update]

/-- a step of a state history: the frame's tick, the new state and value (driven by arbitrary conditions) -/
abbrev Step := Tick × AState × Value

/-- the action data after a whole history -/
def run (d : ActionData) (steps : List Step) : ActionData :=
  steps.foldl (fun d s => d.update s.1 s.2.1 s.2.2) d

/-- for every history with non-negative deltas (zero deltas, pauses and speed changes included):
    `0 ≤ fired ≤ elapsed` at every point -/
theorem durations_ordered (steps : List Step) (hpos : ∀ s ∈ steps, 0 ≤ s.1.delta) :
    ∀ (d : ActionData), 0 ≤ d.fired → d.fired ≤ d.elapsed →
      0 ≤ (run d steps).fired ∧ (run d steps).fired ≤ (run d steps).elapsed := by
  induction steps with
  | nil => intro d h1 h2; exact ⟨h1, h2⟩
  | cons s rest ih =>
    intro d h1 h2
    simp only [run, List.foldl_cons]
    have hs : 0 ≤ s.1.delta := hpos s (by simp)
    apply ih (fun x hx => hpos x (by simp [hx]))
    · cases hst : d.state <;> simp [ActionData.update, hst] <;> grind
    · cases hst : d.state <;> simp [ActionData.update, hst] <;> grind

theorem durations_ordered_from_new (dim : Dim) (steps : List Step) (hpos : ∀ s ∈ steps, 0 ≤ s.1.delta) :
    0 ≤ (run (ActionData.new dim) steps).fired
    ∧ (run (ActionData.new dim) steps).fired ≤ (run (ActionData.new dim) steps).elapsed := by
  apply durations_ordered steps hpos <;> simp [ActionData.new]

/-- both durations are zero while the action rests in None: after a None → None step, whatever happened before -/
theorem resting_zero (d : ActionData) (s1 s2 : Step) (h1 : s1.2.1 = .none) :
    ((d.update s1.1 s1.2.1 s1.2.2).update s2.1 s2.2.1 s2.2.2).elapsed = 0
    ∧ ((d.update s1.1 s1.2.1 s1.2.2).update s2.1 s2.2.1 s2.2.2).fired = 0 := by
  apply from_none
  simp [ActionData.update, h1]

/-- elapsed over an episode is the sum of the deltas of its frames after the first: closed form over any run of
    consecutive non-None states -/
theorem elapsed_is_sum (d : ActionData) (steps : List Step) (hd : d.state ≠ .none)
    (hall : ∀ s ∈ steps.dropLast, s.2.1 ≠ .none) :
    (run d steps).elapsed = d.elapsed + (steps.map (·.1.delta)).sum := by
  induction steps generalizing d with
  | nil => simp [run, Rat.add_zero]
  | cons s rest ih =>
    simp only [run, List.foldl_cons, List.map_cons, List.sum_cons]
    cases rest with
    | nil => simp [(later_frames d s.1 s.2.1 s.2.2 hd).1, Rat.add_zero]
    | cons s' rest' =>
      have hs : s.2.1 ≠ .none := hall s (by simp [List.dropLast])
      have hd' : (d.update s.1 s.2.1 s.2.2).state ≠ .none := by simpa [ActionData.update] using hs
      have := ih (d.update s.1 s.2.1 s.2.2) hd' (fun x hx => hall x (by simp [List.dropLast, hx]))
      simp only [run] at this
      rw [this, (later_frames d s.1 s.2.1 s.2.2 hd).1]
      simp only [List.map_cons, List.sum_cons]
      grind

/-- the virtual delta of a frame is non-negative whenever the raw delta and the relative speed are (also when paused
    or at speed zero), and never exceeds `max_delta * speed` -/
theorem virtualTick_nonneg (raw speed : Rat) (paused : Bool) (h1 : 0 ≤ raw) (h2 : 0 ≤ speed) :
    0 ≤ (virtualTick raw speed paused).delta := by
  unfold virtualTick
  simp only
  split <;> cases paused <;> simp <;> apply Rat.mul_nonneg <;> grind

theorem virtualTick_paused (raw speed : Rat) : (virtualTick raw speed true).delta = 0 := by
  simp [virtualTick]

/-- the durations carried by the events equal the polled ones (see also C01.mkDelivery_payload) -/
theorem payload_durations (a : Nat) (d : ActionData) (k : EvKind) (e : Nat) :
    (∀ q, (mkDelivery a d k e).elapsed = some q → q = d.elapsed) ∧ (∀ q, (mkDelivery a d k e).fired = some q → q = d.fired) := by
  cases k <;> simp [mkDelivery]

/-- the closing event of a deactivation carries the stored durations plus the last frame's delta, like any terminal frame -/
theorem closing_durations (d : ActionData) (t : Tick) (dim : Dim) (h : d.state ≠ .none) :
    (d.update t .none (Value.zero dim)).elapsed = d.elapsed + t.delta := (later_frames d t .none _ h).1

/-- non-vacuity: None → Ongoing → Fired → Fired → None with deltas 1/64, 0, 1/32, 1/16 -/
example :
    let steps : List Step := [(⟨1/64, 1⟩, .ongoing, .bool true), (⟨0, 1⟩, .fired, .bool true),
                              (⟨1/32, 1⟩, .fired, .bool true), (⟨1/16, 1⟩, .none, .bool false)]
    let d := run (ActionData.new .bool) steps
    d.elapsed = 0 + 0 + 1/32 + 1/16 ∧ d.fired = 1/32 + 1/16 := by
  simp [run, ActionData.update, ActionData.new]
  grind

end BEI.Props.C10
