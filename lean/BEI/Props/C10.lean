/- C10 — theorems under construction. -/
import BEI.Model.App
namespace BEI.Props.C10
theorem placeholder_true : True := trivial
end BEI.Props.C10
