/- C02 — theorems under construction. -/
import BEI.Model.App
namespace BEI.Props.C02
theorem placeholder_true : True := trivial
end BEI.Props.C02
