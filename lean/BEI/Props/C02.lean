/-
  C02 — Every activation episode is closed exactly once, also on deactivation.
-/
import BEI.Proofs.Mirror
namespace BEI.Props.C02
open BEI

/-- episode automaton over the per-frame event lists of one (entity, action): idle, or open with the last state -/
inductive Ep where
  | idle | openOngoing | openFired
  deriving DecidableEq, Repr

/-- one frame's events drive the automaton; `none` = the list is not allowed in this state -/
def Ep.step : Ep → List EvKind → Option Ep
  | .idle, [] => some .idle
  | .idle, [.started, .ongoing] => some .openOngoing
  | .idle, [.started, .fired] => some .openFired
  | .openOngoing, [.ongoing] => some .openOngoing
  | .openOngoing, [.fired] => some .openFired
  | .openOngoing, [.canceled] => some .idle
  | .openFired, [.fired] => some .openFired
  | .openFired, [.ongoing] => some .openOngoing
  | .openFired, [.completed] => some .idle
  | _, _ => none

/-- the automaton state that corresponds to an action state -/
def Ep.ofState : AState → Ep
  | .none => .idle | .ongoing => .openOngoing | .fired => .openFired

/-- (1a) one frame: the events of the transition (extracted table) are accepted and lead to the state of the new action state -/
theorem step_accepts (p c : AState) : (Ep.ofState p).step (eventsOf p c) = some (Ep.ofState c) := by
  cases p <;> cases c <;> decide

/-- running the automaton over a history of per-frame event lists -/
def Ep.run : Ep → List (List EvKind) → Option Ep
  | s, [] => some s
  | s, evs :: rest => match s.step evs with
    | some s' => Ep.run s' rest
    | none => none

/-- the per-frame event lists of a state history starting in `p` -/
def historyEvents : AState → List AState → List (List EvKind)
  | _, [] => []
  | p, c :: rest => eventsOf p c :: historyEvents c rest

/-- (1) for **every** state history (any length) the delivered events form well-formed episodes: Started, then exactly
    one Ongoing or Fired per frame, then exactly one Canceled (last state Ongoing) or Completed (last state Fired),
    and nothing outside episodes -/
theorem episodes_wf (p : AState) (hist : List AState) :
    (Ep.ofState p).run (historyEvents p hist) = some (Ep.ofState (hist.getLast?.getD p)) := by
  induction hist generalizing p with
  | nil => rfl
  | cons c rest ih =>
    simp only [historyEvents, Ep.run, step_accepts]
    rw [ih c]
    cases rest with
    | nil => rfl
    | cons x xs =>
      simp only [List.getLast?_cons_cons]
      cases h : (x :: xs).getLast? with
      | none => simp at h
      | some y => rfl

/-- exactly one of Ongoing / Fired on every frame inside an episode, and a terminal event exactly when leaving it -/
theorem one_progress_event (p c : AState) (hc : c ≠ .none) :
    ((eventsOf p c).filter (fun k => k == .ongoing || k == .fired)).length = 1
    ∧ (eventsOf p c).all (fun k => k != .canceled && k != .completed) = true := by
  cases p <;> cases c <;> first | exact absurd rfl hc | decide

theorem terminal_event (p : AState) (hp : p ≠ .none) :
    eventsOf p .none = [if p = .fired then .completed else .canceled] := by
  cases p <;> first | exact absurd rfl hp | decide

/-- (2) deactivation: the closing deliveries of one action — nothing if it rests in None, otherwise exactly one terminal
    event per affected entity (Canceled after Ongoing, Completed after Fired) with state None and the zero value of the
    action's dimension; it drives the automaton to idle -/
theorem closing_events (a : Nat) (d : ActionData) (t : Tick) (dim : Dim) (es : List Nat) :
    triggerEvents a (d.update t .none (Value.zero dim)) es =
      match d.state with
      | .none => []
      | .ongoing => es.map (fun e => mkDelivery a (d.update t .none (Value.zero dim)) .canceled e)
      | .fired => es.map (fun e => mkDelivery a (d.update t .none (Value.zero dim)) .completed e) := by
  have e1 : eventsOf .none .none = [] := by decide
  have e2 : eventsOf .ongoing .none = [.canceled] := by decide
  have e3 : eventsOf .fired .none = [.completed] := by decide
  cases hs : d.state <;> simp [triggerEvents, ActionData.update, hs, e1, e2, e3]

theorem closing_payload (a : Nat) (d : ActionData) (t : Tick) (dim : Dim) (k : EvKind) (e : Nat) :
    (mkDelivery a (d.update t .none (Value.zero dim)) k e).state = .none
    ∧ (mkDelivery a (d.update t .none (Value.zero dim)) k e).value = Value.zero dim := by
  cases k <;> simp [mkDelivery, ActionData.update]

theorem closing_closes (s : AState) : (Ep.ofState s).step (eventsOf s .none) = some .idle := step_accepts s .none

/-- (3) what `trigger_removed` delivers for a whole instance: the closing events of each bound action, in binding order -/
theorem triggerRemoved_spec (ci : ContextInstance) (t : Tick) (es : List Nat) (dl : List Delivery)
    (h : ci.triggerRemoved t es = some dl) :
    ∃ ds : List ActionData, ds.length = ci.bindings.length
      ∧ (∀ i (hi : i < ci.bindings.length) (hj : i < ds.length), ci.actions.get? (ci.bindings[i]).action = some ds[i])
      ∧ dl = ((ci.bindings.zip ds).flatMap (fun p => triggerEvents p.1.action (p.2.update t .none (Value.zero p.1.dim)) es)) := by
  unfold ContextInstance.triggerRemoved at h
  -- generalise the accumulator of the fold
  have key : ∀ (bs : List ActionBind) (acc : List Delivery) (dl : List Delivery),
      bs.foldlM (fun acc ab => match ci.actions.get? ab.action with
        | none => none
        | some d => some (acc ++ triggerEvents ab.action (d.update t .none (Value.zero ab.dim)) es)) acc = some dl →
      ∃ ds : List ActionData, ds.length = bs.length
        ∧ (∀ i (hi : i < bs.length) (hj : i < ds.length), ci.actions.get? (bs[i]).action = some ds[i])
        ∧ dl = acc ++ ((bs.zip ds).flatMap (fun p => triggerEvents p.1.action (p.2.update t .none (Value.zero p.1.dim)) es)) := by
    intro bs
    induction bs with
    | nil => intro acc dl h; simp at h; exact ⟨[], rfl, by simp, by simp [h]⟩
    | cons b bs ih =>
      intro acc dl h
      simp only [List.foldlM_cons] at h
      cases hg : ci.actions.get? b.action with
      | none => simp [hg] at h
      | some d =>
        simp only [hg] at h
        simp only [bind, Option.bind] at h
        obtain ⟨ds, hl, hget, hdl⟩ := ih _ _ h
        refine ⟨d :: ds, by simp [hl], ?_, ?_⟩
        · intro i hi hj
          cases i with
          | zero => simpa using hg
          | succ n => simpa using hget n (by simpa using hi) (by simpa using hj)
        · rw [hdl]; simp [List.append_assoc]
  obtain ⟨ds, h1, h2, h3⟩ := key ci.bindings [] dl h
  exact ⟨ds, h1, h2, by simpa using h3⟩

/-- (4) removing the component closes for exactly the leaving entity: the deliveries of `remove` are the closing events
    of *its* instance addressed to that entity alone, and afterwards the lookup fails -/
theorem remove_closes (su : Setup) (st : AppState) (hreach : Reachable su st) (e c : Nat) (st' : AppState) (dl : List Delivery)
    (hhas : st.world.has e c = true) (hop : applyOp su st (.remove e c) = some (st', dl)) :
    (∃ ctx, st.reg.get c e = some ctx ∧ ctx.triggerRemoved st.tick [e] = some dl)
    ∧ st'.reg.get c e = none
    ∧ (∀ d ∈ dl, d.entity = e) := by
  have hst' : Reachable su st' := Reachable.op st _ st' dl hreach hop
  have hm := reachable_pred su Mirror (mirror_appPred su) mirror_init st hreach
  simp only [applyOp] at hop
  split at hop
  · rename_i hcond
    have hal : st.world.alive e = true := by
      cases ha : st.world.alive e
      · have := World.comps_of_not_alive st.world e ha
        simp [World.has_def, this] at hhas
      · rfl
    simp [hal, hhas] at hcond
  · split at hop
    · cases hop
    · rename_i reg' dl' hr
      simp only [Option.some.injEq, Prod.mk.injEq] at hop
      obtain ⟨hop1, hop2⟩ := hop
      subst hop2
      obtain ⟨gi, g, ctx, hidx, hg, hctx, htr, _⟩ := remove_char _ _ _ _ _ _ hr
      refine ⟨⟨ctx, ?_, htr⟩, ?_, ?_⟩
      · simp only [Registry.get, hidx, hg]
        cases g <;> simpa [Group.ctxOf] using hctx
      · have hm' := reachable_pred su Mirror (mirror_appPred su) mirror_init st' hst'
        cases hget : st'.reg.get c e with
        | none => rfl
        | some x =>
          exfalso
          have hsome : (st'.reg.get c e).isSome := by simp [hget]
          rw [get_iff_memS _ hm'.wf, hm'.mirror] at hsome
          rw [← hop1] at hsome
          simp only [World.has_def, World.comps_setComps, if_true] at hsome
          split at hsome <;> simp at hsome
      · intro d hd
        obtain ⟨ds, _, _, hdl⟩ := triggerRemoved_spec ctx st.tick [e] dl' htr
        rw [hdl] at hd
        simp only [List.mem_flatMap, triggerEvents, List.mem_map, List.mem_singleton] at hd
        obtain ⟨p, _, k, _, e', he', hd⟩ := hd
        subst he'; subst hd
        cases k <;> rfl

/-- (5) a rebuild closes every holder of a shared instance (all holders receive the terminal events of every bound
    action) and installs an instance built from scratch; for an exclusive type every per-entity instance is closed for
    its own entity and replaced -/
theorem rebuild_shared_closes (reg : Registry) (mk : Factory) (t : Tick) (c gi : Nat) (ty : CtxType) (es : List Nat)
    (ctx : ContextInstance) (hi : reg.index c = some gi) (hg : reg[gi]? = some (.shared ty es ctx))
    (reg' : Registry) (dl : List Delivery) (hr : reg.rebuild mk t c = some (reg', dl)) :
    ctx.triggerRemoved t es = some dl ∧ ∃ e0, es.head? = some e0 ∧ reg' = reg.set gi (.shared ty es (mk c e0)) := by
  simp only [Registry.rebuild, hi, hg] at hr
  split at hr
  · rename_i dl' e0 h1 h2
    simp only [Option.some.injEq, Prod.mk.injEq] at hr
    exact ⟨by rw [h1, hr.2], e0, h2, hr.1.symm⟩
  · cases hr

theorem rebuild_exclusive_closes (mk : Factory) (t : Tick) (c : Nat) :
    ∀ (is is' : List (Nat × ContextInstance)) (dl : List Delivery),
      Registry.rebuildExclusive mk t c is = some (is', dl) →
      is' = is.map (fun p => (p.1, mk c p.1))
      ∧ ∃ dls : List (List Delivery), dls.length = is.length ∧ dl = dls.flatten
          ∧ ∀ i (h1 : i < is.length) (h2 : i < dls.length), (is[i]).2.triggerRemoved t [(is[i]).1] = some dls[i] := by
  intro is
  induction is with
  | nil => intro is' dl h; simp [Registry.rebuildExclusive] at h; exact ⟨by simp [h.1], [], rfl, by simp [h.2], by simp⟩
  | cons p ps ih =>
    intro is' dl h
    obtain ⟨e, ctx⟩ := p
    simp only [Registry.rebuildExclusive] at h
    split at h
    · rename_i dl1 rest' dl2 h1 h2
      simp only [Option.some.injEq, Prod.mk.injEq] at h
      obtain ⟨hr1, dls, hl, hd, hget⟩ := ih _ _ h2
      refine ⟨by rw [← h.1, hr1]; rfl, dl1 :: dls, by simp [hl], by rw [← h.2, hd]; rfl, ?_⟩
      intro i hi1 hi2
      cases i with
      | zero => simpa using h1
      | succ n => simpa using hget n (by simpa using hi1) (by simpa using hi2)
    · cases h

/-- (6) the command queue delivers every queued event exactly once, in order, when no observer reacts -/
theorem queue_plain (su : Setup) : ∀ (ds : List Delivery) (fuel : Nat) (st : AppState) (k : Nat) (seen : List Delivery),
    ds.length < fuel →
    runQueue su [] fuel (ds.map QItem.deliver) st k seen = some (st, k + ds.length, seen ++ ds) := by
  intro ds
  induction ds with
  | nil => intro fuel st k seen h; cases fuel with
    | zero => simp at h
    | succ n => simp [runQueue]
  | cons d ds ih =>
    intro fuel st k seen h
    cases fuel with
    | zero => simp at h
    | succ n =>
      simp only [List.map_cons, runQueue, List.filter_nil, List.map_nil, List.nil_append]
      rw [ih n st (k + 1) (seen ++ [d]) (by simpa using h)]
      simp [Nat.add_assoc, Nat.add_comm 1]

/-- what was delivered is never lost: the deliveries seen so far stay a prefix of the final sequence, whatever the
    observers do (reactions only ever *add* closing events) -/
theorem queue_seen_prefix (su : Setup) (reacts : Reactions) :
    ∀ (fuel : Nat) (stack : List QItem) (st : AppState) (k : Nat) (seen : List Delivery) st' k' seen',
      runQueue su reacts fuel stack st k seen = some (st', k', seen') → seen <+: seen' := by
  intro fuel
  induction fuel with
  | zero => intro stack st k seen st' k' seen' h; simp [runQueue] at h; rw [h.2.2]; exact List.prefix_refl _
  | succ n ih =>
    intro stack st k seen st' k' seen' h
    cases stack with
    | nil => simp [runQueue] at h; rw [h.2.2]; exact List.prefix_refl _
    | cons item rest =>
      cases item with
      | deliver d =>
        simp only [runQueue] at h
        exact List.IsPrefix.trans (List.prefix_append seen [d]) (ih _ _ _ _ _ _ _ h)
      | op o =>
        simp only [runQueue] at h
        split at h
        · cases h
        · exact ih _ _ _ _ _ _ _ h

/-- a deactivation requested from inside an observer: its closing events are put at the *front* of the queue — they
    overtake the rest of the frame's events (as the property allows) and each is still delivered exactly once -/
theorem reaction_closing_first (su : Setup) (reacts : Reactions) (fuel : Nat) (o : Op) (rest : List QItem)
    (st st2 : AppState) (dl : List Delivery) (k : Nat) (seen : List Delivery) (hop : applyOp su st o = some (st2, dl)) :
    runQueue su reacts (fuel + 1) (.op o :: rest) st k seen = runQueue su reacts fuel (dl.map QItem.deliver ++ rest) st2 k seen := by
  simp [runQueue, hop]

/-! ### exactly once, with arbitrary observer reactions -/

/-- the deliveries waiting in a queue -/
def pending : List QItem → List Delivery
  | [] => []
  | .deliver d :: rest => d :: pending rest
  | .op _ :: rest => pending rest

theorem pending_append (a b : List QItem) : pending (a ++ b) = pending a ++ pending b := by
  induction a with
  | nil => rfl
  | cons x xs ih => cases x <;> simp [pending, ih]

theorem pending_deliver (dl : List Delivery) : pending (dl.map QItem.deliver) = dl := by
  induction dl with
  | nil => rfl
  | cons d ds ih => simp [pending, ih]

theorem pending_ops (os : List Op) : pending (os.map QItem.op) = [] := by
  induction os with
  | nil => rfl
  | cons o os ih => simp [pending, ih]

/-- the run of the queue ended because the queue was empty (not because the fuel ran out) -/
def queueDone (su : Setup) (reacts : Reactions) : Nat → List QItem → AppState → Nat → Bool
  | 0, stack, _, _ => stack.isEmpty
  | _ + 1, [], _, _ => true
  | f + 1, .deliver _ :: rest, st, k =>
    queueDone su reacts f ((reacts.filter (fun r => r.1 == k)).map (fun r => QItem.op r.2) ++ rest) st (k + 1)
  | f + 1, .op o :: rest, st, k =>
    match applyOp su st o with
    | none => true
    | some (st', dl) => queueDone su reacts f (dl.map QItem.deliver ++ rest) st' k

/-- (7) **every** queued event — the frame's action events and every closing event produced by a deactivation that an
    observer requested while the queue was being applied — is delivered **exactly once**: the final delivery sequence
    extends what was seen before by a list `processed` that contains all pending events in their original relative
    order, and the delivery counter advanced by exactly `processed.length` (nothing is delivered twice, nothing is
    dropped), for arbitrary reaction scripts. Closing events may overtake the rest of the frame's events (they are
    inserted in front), which is why this is a sublist and not a prefix statement. -/
theorem queue_exactly_once (su : Setup) (reacts : Reactions) :
    ∀ (fuel : Nat) (stack : List QItem) (st : AppState) (k : Nat) (seen : List Delivery) st' k' seen',
      runQueue su reacts fuel stack st k seen = some (st', k', seen') →
      queueDone su reacts fuel stack st k = true →
      ∃ processed, seen' = seen ++ processed ∧ (pending stack).Sublist processed ∧ k' = k + processed.length := by
  intro fuel
  induction fuel with
  | zero =>
    intro stack st k seen st' k' seen' h hd
    simp only [queueDone, List.isEmpty_iff] at hd
    subst hd
    simp only [runQueue, Option.some.injEq, Prod.mk.injEq] at h
    obtain ⟨_, rfl, rfl⟩ := h
    exact ⟨[], by simp, by simp [pending], by simp⟩
  | succ n ih =>
    intro stack st k seen st' k' seen' h hd
    cases stack with
    | nil =>
      simp only [runQueue, Option.some.injEq, Prod.mk.injEq] at h
      obtain ⟨_, rfl, rfl⟩ := h
      exact ⟨[], by simp, by simp [pending], by simp⟩
    | cons item rest =>
      cases item with
      | deliver d =>
        simp only [runQueue] at h
        simp only [queueDone] at hd
        obtain ⟨p, hp1, hp2, hp3⟩ := ih _ _ _ _ _ _ _ h hd
        refine ⟨d :: p, by simp [hp1], ?_, by simp [hp3]; omega⟩
        simp only [pending]
        apply List.Sublist.cons₂
        rw [pending_append] at hp2
        have : pending ((reacts.filter (fun r => r.1 == k)).map (fun r => QItem.op r.2)) = [] := by
          have hgen : ∀ (l : List (Nat × Op)), pending (l.map (fun r => QItem.op r.2)) = [] := by
            intro l; induction l with
            | nil => rfl
            | cons x xs ih => simp [pending, ih]
          exact hgen _
        rw [this, List.nil_append] at hp2
        exact hp2
      | op o =>
        simp only [runQueue] at h
        simp only [queueDone] at hd
        cases hop : applyOp su st o with
        | none => simp [hop] at h
        | some x =>
          obtain ⟨st2, dl⟩ := x
          simp only [hop] at h hd
          obtain ⟨p, hp1, hp2, hp3⟩ := ih _ _ _ _ _ _ _ h hd
          refine ⟨p, hp1, ?_, hp3⟩
          simp only [pending]
          rw [pending_append, pending_deliver] at hp2
          exact List.Sublist.trans (List.sublist_append_right dl (pending rest)) hp2

/-- … and the closing events of an observer-requested deactivation are themselves among the delivered ones -/
theorem queue_closing_delivered (su : Setup) (reacts : Reactions) (fuel : Nat) (o : Op) (rest : List QItem)
    (st st2 : AppState) (dl : List Delivery) (k : Nat) (seen : List Delivery) st' k' seen'
    (hop : applyOp su st o = some (st2, dl))
    (h : runQueue su reacts (fuel + 1) (.op o :: rest) st k seen = some (st', k', seen'))
    (hd : queueDone su reacts (fuel + 1) (.op o :: rest) st k = true) :
    ∃ processed, seen' = seen ++ processed ∧ (dl ++ pending rest).Sublist processed := by
  simp only [runQueue, hop] at h
  simp only [queueDone, hop] at hd
  obtain ⟨p, hp1, hp2, _⟩ := queue_exactly_once su reacts fuel _ _ _ _ _ _ _ h hd
  rw [pending_append, pending_deliver] at hp2
  exact ⟨p, hp1, hp2⟩

end BEI.Props.C02
