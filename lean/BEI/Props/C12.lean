/-
  C12 — Every condition and modifier is invoked exactly once per frame, in order: per input (past the initial
  held-input suppression) its modifiers then its conditions in declaration order, inputs in binding order, then the
  action-level modifiers, then the action-level conditions — independent of results, blockers, consumption, state and
  activity (no hypothesis about any of them appears below).
-/
import BEI.Proofs.Update
import BEI.Model.Conditions
import BEI.Props.C16
namespace BEI.Props.C12
open BEI BEI.Props.C05 BEI.Props.C16

/-- the canonical invocation list of one action for a reader `r` (only its raw input and gamepad matter) -/
def canonIds (r : Reader) (ab : ActionBind) : List Nat :=
  ab.bindings.flatMap (fun b => if suppressed r b then [] else b.mods.map (·.id) ++ b.conds.map (·.id))
    ++ ab.mods.map (·.id) ++ ab.conds.map (·.id)

/-- (1) one action: the log of `ActionBind::update` is exactly the canonical list, each entry once -/
theorem invocation_log_canonical (ab : ActionBind) (r : Reader) (av : ActionsView) (t : Tick) (es : List Nat)
    (o : ActionBind.Out) (h : ab.update r av t es = some o) :
    o.log.map Inv.id = canonIds r ab := by
  obtain ⟨_, _, _, _, hchar⟩ := update_char ab r av t es o h
  obtain ⟨_, _, _, _, hlog, _⟩ := hchar
  rw [hlog, evalLog_ids]
  rfl

/-- the objects stay in place: after the update the action holds the same modifiers and conditions (same ids, same
    order, with their updated private state), so stateful ones are driven again next frame -/
theorem objects_persist (ab : ActionBind) (r : Reader) (av : ActionsView) (t : Tick) (es : List Nat)
    (o : ActionBind.Out) (h : ab.update r av t es = some o) :
    o.bind.mods.map (·.id) = ab.mods.map (·.id) ∧ o.bind.conds.map (·.id) = ab.conds.map (·.id)
    ∧ o.bind.bindings.map (fun b => (b.input, b.mods.map (·.id), b.conds.map (·.id)))
        = ab.bindings.map (fun b => (b.input, b.mods.map (·.id), b.conds.map (·.id))) := by
  obtain ⟨_, _, _, _, hchar⟩ := update_char ab r av t es o h
  obtain ⟨_, _, _, _, _, hm, hc, hb⟩ := hchar
  refine ⟨hm, hc, ?_⟩
  rw [hb, List.map_map]
  apply List.map_congr_left
  intro b _
  simp only [Function.comp]
  unfold evalInput
  split
  · rfl
  · have hm := applyModifiers_spec av t b.mods (Tracker.new (r.value b.input)) [] (TInv.new _)
    have hc := applyConditions_spec av t b.conds ((Tracker.new (r.value b.input)).applyModifiers av t b.mods).1 [] hm.1
    simp only [hm.2.2.2, hc.2.2.2.1]

/-- whether a binding is suppressed depends only on the raw input and the gamepad selection — not on consumption -/
theorem activeUnconsumed_consume (r : Reader) (i j : Input) : (r.consume i).activeUnconsumed j = r.activeUnconsumed j := by
  cases i <;> cases j <;> rfl

theorem suppressed_foldl_consume (is : List Input) : ∀ (r : Reader) (b : InputBind),
    suppressed (is.foldl Reader.consume r) b = suppressed r b := by
  induction is with
  | nil => intro r b; rfl
  | cons i is ih =>
    intro r b
    simp only [List.foldl_cons]
    rw [ih]
    simp [suppressed, activeUnconsumed_consume]

theorem canonIds_foldl_consume (is : List Input) (r : Reader) (ab : ActionBind) :
    canonIds (is.foldl Reader.consume r) ab = canonIds r ab := by
  simp only [canonIds, suppressed_foldl_consume]

/-- (2) a whole context instance: the log is the concatenation of the canonical lists of its actions in binding order;
    consumption by earlier actions (or earlier contexts) changes nothing -/
theorem instance_log_canonical (t : Tick) (es : List Nat) :
    ∀ (bs : List ActionBind) (r : Reader) (av : ActionsView) bs' r' av' dl lg,
      ContextInstance.loopActions r av t es bs = some (bs', r', av', dl, lg) →
      lg.map Inv.id = bs.flatMap (canonIds r)
      ∧ (∀ ab, canonIds r' ab = canonIds r ab) := by
  intro bs
  induction bs with
  | nil =>
    intro r av bs' r' av' dl lg h
    simp [ContextInstance.loopActions] at h
    obtain ⟨_, rfl, _, _, rfl⟩ := h
    simp
  | cons ab rest ih =>
    intro r av bs' r' av' dl lg h
    simp only [ContextInstance.loopActions] at h
    split at h
    · cases h
    · rename_i o ho
      split at h
      · cases h
      · rename_i rest' r'' av'' dl' lg' hrest
        simp only [Option.some.injEq, Prod.mk.injEq] at h
        obtain ⟨_, rfl, _, _, rfl⟩ := h
        obtain ⟨ih1, ih2⟩ := ih _ _ _ _ _ _ _ hrest
        obtain ⟨_, _, _, _, hchar⟩ := update_char ab r av t es o ho
        obtain ⟨_, _, _, hreader, _⟩ := hchar
        have hcan : ∀ x, canonIds o.reader x = canonIds r x := by
          intro x; rw [hreader]; exact canonIds_foldl_consume _ _ _
        constructor
        · simp only [List.map_append, List.flatMap_cons, invocation_log_canonical ab r av t es o ho, ih1]
          have : canonIds o.reader = canonIds r := funext hcan
          rw [this]
        · intro x; rw [ih2, hcan]

/-- non-vacuity: a failing blocker in front does not stop the later condition from being invoked, and an inactive
    input still drives its condition -/
example :
    let b : InputBind := { input := .key 0 {}, ignored := false, conds := [Cond.scripted 5 Kind.explicit [AState.none]] }
    let cs : List Cond := [Cond.scripted 7 Kind.blocker [AState.none], Cond.scripted 8 Kind.explicit [AState.fired]]
    let ab : ActionBind := { action := 0, dim := .bool, consume := true, accum := .cumulative, conds := cs, bindings := [b] }
    (match ab.update { raw := {} } [(0, ActionData.new .bool)] ⟨0, 1⟩ [0] with
     | some o => o.log.map Inv.id
     | none => []) = [5, 7, 8] := by
  decide

/-! ### the whole frame -/

/-- the canonical list depends on the reader only through the raw device state and the gamepad selection -/
theorem canonIds_congr (r r' : Reader) (h1 : r.raw = r'.raw) (h2 : r.device = r'.device) (ab : ActionBind) :
    canonIds r ab = canonIds r' ab := by
  have hs : ∀ b, suppressed r b = suppressed r' b := by
    intro b
    unfold suppressed
    congr 1
    cases hb : b.input <;> simp [Reader.activeUnconsumed, Reader.modsDown, Reader.findPad, h1, h2]
  simp only [canonIds, hs]

/-- the canonical invocation list of one context instance in a frame with raw device state `raw` -/
def instCanon (raw : RawInput) (ci : ContextInstance) : List Nat :=
  ci.bindings.flatMap (canonIds { raw := raw, device := ci.gamepad })

/-- … and of a whole registry: groups in registry order, the instances of an exclusive group in their order -/
def regCanon (raw : RawInput) : Registry → List Nat
  | [] => []
  | .exclusive _ is :: rest => is.flatMap (fun p => instCanon raw p.2) ++ regCanon raw rest
  | .shared _ _ ci :: rest => instCanon raw ci ++ regCanon raw rest

theorem rawInv (raw : RawInput) : ReaderInv (fun r => r.raw = raw) where
  consume := by intro r i h; cases i <;> exact h
  setGamepad := by intro r d h; exact h

theorem instance_log (ci : ContextInstance) (r : Reader) (t : Tick) (es : List Nat) (o : ContextInstance.Out)
    (h : ci.update r t es = some o) : o.log.map Inv.id = instCanon r.raw ci ∧ o.reader.raw = r.raw := by
  refine ⟨?_, instance_inv (rawInv r.raw) ci r t es o h rfl⟩
  unfold ContextInstance.update at h
  split at h
  · cases h
  · rename_i bs r' av' dl lg hl
    simp only [Option.some.injEq] at h
    subst h
    obtain ⟨h1, _⟩ := instance_log_canonical t es _ _ _ _ _ _ _ _ hl
    rw [h1]
    unfold instCanon
    congr 1

theorem updateExclusive_log (t : Tick) :
    ∀ (is : List (Nat × ContextInstance)) (r : Reader) is' r' dl lg,
      Registry.updateExclusive r t is = some (is', r', dl, lg) →
      lg.map Inv.id = is.flatMap (fun p => instCanon r.raw p.2) ∧ r'.raw = r.raw := by
  intro is
  induction is with
  | nil =>
    intro r is' r' dl lg h
    simp only [Registry.updateExclusive, Option.some.injEq, Prod.mk.injEq] at h
    obtain ⟨_, rfl, _, rfl⟩ := h
    simp
  | cons p ps ih =>
    intro r is' r' dl lg h
    obtain ⟨e, ctx⟩ := p
    simp only [Registry.updateExclusive] at h
    split at h
    · cases h
    · rename_i o ho
      split at h
      · cases h
      · rename_i rest' r'' dl' lg' hrest
        simp only [Option.some.injEq, Prod.mk.injEq] at h
        obtain ⟨_, rfl, _, rfl⟩ := h
        obtain ⟨hl, hr⟩ := instance_log ctx r t [e] o ho
        obtain ⟨ihl, ihr⟩ := ih _ _ _ _ _ hrest
        refine ⟨?_, by rw [ihr, hr]⟩
        simp only [List.map_append, List.flatMap_cons, hl, ihl, hr]

/-- **(3) the whole frame**: the invocation log of the frame update is the canonical list of the registry — every group in
    registry order, every instance, every action in binding order, per input modifiers then conditions (unless still under
    the initial suppression), then the action-level ones; each exactly once.  It depends on the raw device state and the
    gamepad selections only: not on results, blockers, consumption or states. -/
theorem registry_log_canonical (t : Tick) :
    ∀ (reg : Registry) (r : Reader) (o : Registry.Out), Registry.update r t reg = some o →
      o.log.map Inv.id = regCanon r.raw reg ∧ o.reader.raw = r.raw := by
  intro reg
  induction reg with
  | nil =>
    intro r o h
    simp only [Registry.update, Option.some.injEq] at h
    subst h
    simp [regCanon]
  | cons g rest ih =>
    intro r o h
    cases g with
    | exclusive ty is =>
      simp only [Registry.update] at h
      split at h
      · cases h
      · rename_i is' r' dl lg hex
        split at h
        · cases h
        · rename_i o' ho'
          simp only [Option.some.injEq] at h
          subst h
          obtain ⟨hl, hr⟩ := updateExclusive_log t _ _ _ _ _ _ hex
          obtain ⟨ihl, ihr⟩ := ih r' o' ho'
          refine ⟨?_, by simp only; rw [ihr, hr]⟩
          simp only [List.map_append, regCanon, hl, ihl, hr]
    | shared ty es ctx =>
      simp only [Registry.update] at h
      split at h
      · cases h
      · rename_i oc hoc
        split at h
        · cases h
        · rename_i o' ho'
          simp only [Option.some.injEq] at h
          subst h
          obtain ⟨hl, hr⟩ := instance_log ctx r t es oc hoc
          obtain ⟨ihl, ihr⟩ := ih oc.reader o' ho'
          refine ⟨?_, by simp only; rw [ihr, hr]⟩
          simp only [List.map_append, regCanon, hl, ihl, hr]

end BEI.Props.C12
