/- C12 — theorems under construction. -/
import BEI.Model.App
namespace BEI.Props.C12
theorem placeholder_true : True := trivial
end BEI.Props.C12
