/-
  C12 — Every condition and modifier is invoked exactly once per frame, in order: per input (past the initial
  held-input suppression) its modifiers then its conditions in declaration order, inputs in binding order, then the
  action-level modifiers, then the action-level conditions — independent of results, blockers, consumption, state and
  activity (no hypothesis about any of them appears below).
-/
import BEI.Proofs.Update
import BEI.Model.Conditions
namespace BEI.Props.C12
open BEI

/-- the canonical invocation list of one action for a reader `r` (only its raw input and gamepad matter) -/
def canonIds (r : Reader) (ab : ActionBind) : List Nat :=
  ab.bindings.flatMap (fun b => if suppressed r b then [] else b.mods.map (·.id) ++ b.conds.map (·.id))
    ++ ab.mods.map (·.id) ++ ab.conds.map (·.id)

/-- (1) one action: the log of `ActionBind::update` is exactly the canonical list, each entry once -/
theorem invocation_log_canonical (ab : ActionBind) (r : Reader) (av : ActionsView) (t : Tick) (es : List Nat)
    (o : ActionBind.Out) (h : ab.update r av t es = some o) :
    o.log.map Inv.id = canonIds r ab := by
  obtain ⟨_, _, _, _, hchar⟩ := update_char ab r av t es o h
  obtain ⟨_, _, _, _, hlog, _⟩ := hchar
  rw [hlog, evalLog_ids]
  rfl

/-- the objects stay in place: after the update the action holds the same modifiers and conditions (same ids, same
    order, with their updated private state), so stateful ones are driven again next frame -/
theorem objects_persist (ab : ActionBind) (r : Reader) (av : ActionsView) (t : Tick) (es : List Nat)
    (o : ActionBind.Out) (h : ab.update r av t es = some o) :
    o.bind.mods.map (·.id) = ab.mods.map (·.id) ∧ o.bind.conds.map (·.id) = ab.conds.map (·.id)
    ∧ o.bind.bindings.map (fun b => (b.input, b.mods.map (·.id), b.conds.map (·.id)))
        = ab.bindings.map (fun b => (b.input, b.mods.map (·.id), b.conds.map (·.id))) := by
  obtain ⟨_, _, _, _, hchar⟩ := update_char ab r av t es o h
  obtain ⟨_, _, _, _, _, hm, hc, hb⟩ := hchar
  refine ⟨hm, hc, ?_⟩
  rw [hb, List.map_map]
  apply List.map_congr_left
  intro b _
  simp only [Function.comp]
  unfold evalInput
  split
  · rfl
  · have hm := applyModifiers_spec av t b.mods (Tracker.new (r.value b.input)) [] (TInv.new _)
    have hc := applyConditions_spec av t b.conds ((Tracker.new (r.value b.input)).applyModifiers av t b.mods).1 [] hm.1
    simp only [hm.2.2.2, hc.2.2.2.1]

/-- whether a binding is suppressed depends only on the raw input and the gamepad selection — not on consumption -/
theorem activeUnconsumed_consume (r : Reader) (i j : Input) : (r.consume i).activeUnconsumed j = r.activeUnconsumed j := by
  cases i <;> cases j <;> rfl

theorem suppressed_foldl_consume (is : List Input) : ∀ (r : Reader) (b : InputBind),
    suppressed (is.foldl Reader.consume r) b = suppressed r b := by
  induction is with
  | nil => intro r b; rfl
  | cons i is ih =>
    intro r b
    simp only [List.foldl_cons]
    rw [ih]
    simp [suppressed, activeUnconsumed_consume]

theorem canonIds_foldl_consume (is : List Input) (r : Reader) (ab : ActionBind) :
    canonIds (is.foldl Reader.consume r) ab = canonIds r ab := by
  simp only [canonIds, suppressed_foldl_consume]

/-- (2) a whole context instance: the log is the concatenation of the canonical lists of its actions in binding order;
    consumption by earlier actions (or earlier contexts) changes nothing -/
theorem instance_log_canonical (t : Tick) (es : List Nat) :
    ∀ (bs : List ActionBind) (r : Reader) (av : ActionsView) bs' r' av' dl lg,
      ContextInstance.loopActions r av t es bs = some (bs', r', av', dl, lg) →
      lg.map Inv.id = bs.flatMap (canonIds r)
      ∧ (∀ ab, canonIds r' ab = canonIds r ab) := by
  intro bs
  induction bs with
  | nil =>
    intro r av bs' r' av' dl lg h
    simp [ContextInstance.loopActions] at h
    obtain ⟨_, rfl, _, _, rfl⟩ := h
    simp
  | cons ab rest ih =>
    intro r av bs' r' av' dl lg h
    simp only [ContextInstance.loopActions] at h
    split at h
    · cases h
    · rename_i o ho
      split at h
      · cases h
      · rename_i rest' r'' av'' dl' lg' hrest
        simp only [Option.some.injEq, Prod.mk.injEq] at h
        obtain ⟨_, rfl, _, _, rfl⟩ := h
        obtain ⟨ih1, ih2⟩ := ih _ _ _ _ _ _ _ hrest
        obtain ⟨_, _, _, _, hchar⟩ := update_char ab r av t es o ho
        obtain ⟨_, _, _, hreader, _⟩ := hchar
        have hcan : ∀ x, canonIds o.reader x = canonIds r x := by
          intro x; rw [hreader]; exact canonIds_foldl_consume _ _ _
        constructor
        · simp only [List.map_append, List.flatMap_cons, invocation_log_canonical ab r av t es o ho, ih1]
          have : canonIds o.reader = canonIds r := funext hcan
          rw [this]
        · intro x; rw [ih2, hcan]

/-- non-vacuity: a failing blocker in front does not stop the later condition from being invoked, and an inactive
    input still drives its condition -/
example :
    let b : InputBind := { input := .key 0 {}, ignored := false, conds := [Cond.scripted 5 Kind.explicit [AState.none]] }
    let cs : List Cond := [Cond.scripted 7 Kind.blocker [AState.none], Cond.scripted 8 Kind.explicit [AState.fired]]
    let ab : ActionBind := { action := 0, dim := .bool, consume := true, accum := .cumulative, conds := cs, bindings := [b] }
    (match ab.update { raw := {} } [(0, ActionData.new .bool)] ⟨0, 1⟩ [0] with
     | some o => o.log.map Inv.id
     | none => []) = [5, 7, 8] := by
  decide

end BEI.Props.C12
