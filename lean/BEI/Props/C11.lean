/- C11 — theorems under construction. -/
import BEI.Model.App
namespace BEI.Props.C11
theorem placeholder_true : True := trivial
end BEI.Props.C11
