/-
  C11 — Built-in conditions follow their documented patterns in the chosen time base.
  Histories are lists of (value, tick) frames, newest first; every statement holds for histories of any length.
-/
import BEI.Model.Conditions
import Mathlib.Algebra.Order.Field.Basic
import Mathlib.Tactic.Linarith
import Mathlib.Tactic.SplitIfs
namespace BEI.Props.C11
open BEI Cond

/-- a frame as a condition sees it -/
abbrev Frame := Value × Tick
/-- a history, newest frame first -/
abbrev Hist := List Frame

/-- running a condition's step function over a history (from its initial state) -/
def run {σ : Type} (step : σ → Tick → Value → σ × AState) (s0 : σ) : Hist → σ × AState
  | [] => (s0, .none)
  | f :: rest => step (run step s0 rest).1 f.2 f.1

theorem run_cons {σ : Type} (step : σ → Tick → Value → σ × AState) (s0 : σ) (f : Frame) (rest : Hist) :
    run step s0 (f :: rest) = step (run step s0 rest).1 f.2 f.1 := rfl

/-! ### the time base -/

/-- the timer increment of one frame: virtual delta when the condition is configured for relative (dilated) time, the
    virtual delta unscaled by the relative speed (= real time) otherwise; nothing at relative speed zero -/
def inc (rel : Bool) (t : Tick) : Rat :=
  let sc := if rel then 1 else t.speed
  if sc != 0 then t.delta / sc else 0

theorem timer_update (tm : CTimer) (t : Tick) : tm.update t = { tm with duration := tm.duration + inc tm.relative t } := by
  obtain ⟨rel, dur⟩ := tm
  unfold CTimer.update inc
  simp only
  cases rel
  · by_cases hs : t.speed = 0 <;> simp [hs]
  · simp

/-- relative (virtual) time base: the increment is the virtual delta -/
theorem inc_relative (t : Tick) : inc true t = t.delta := by simp [inc]

/-- default (real) time base: with `delta = raw * speed` and a positive speed the increment is the raw (real) delta -/
theorem inc_real (raw speed : Rat) (hs : speed ≠ 0) : inc false { delta := raw * speed, speed := speed } = raw := by
  simp only [inc, Bool.false_eq_true, if_false, bne_iff_ne, ne_eq, hs, not_false_eq_true, if_true]
  exact mul_div_cancel_right₀ raw hs

/-- paused (virtual delta 0) or relative speed 0: the timer does not advance — and stays finite (no division by zero) -/
theorem inc_paused (rel : Bool) (speed : Rat) : inc rel { delta := 0, speed := speed } = 0 := by
  unfold inc; simp only; split <;> simp

theorem inc_speed_zero (d : Rat) : inc false { delta := d, speed := 0 } = 0 := by simp [inc]

/-- how long the input has been actuated continuously up to and including the newest frame -/
def held (act : Rat) (rel : Bool) : Hist → Rat
  | [] => 0
  | (v, t) :: rest => if v.isActuated act then held act rel rest + inc rel t else 0

def actuatedNow (act : Rat) : Hist → Bool
  | [] => false
  | (v, _) :: _ => v.isActuated act

/-! ### Press, JustPress, Release -/

theorem press_spec (id : Nat) (act : Rat) (av : ActionsView) (t : Tick) (v : Value) :
    ((Cond.press id act).eval av t v).2.1 = (if v.isActuated act then .fired else .none) := rfl

def justPressStep (act : Rat) (prev : Bool) (_ : Tick) (v : Value) : Bool × AState :=
  let a := v.isActuated act
  (a, if a && !prev then .fired else .none)

theorem justPress_is_step (id : Nat) (act : Rat) : (Cond.justPress id act).step = fun s _ t v => justPressStep act s t v := rfl

theorem justPress_state (act : Rat) (h : Hist) : (run (justPressStep act) false h).1 = actuatedNow act h := by
  cases h with
  | nil => rfl
  | cons f rest => rfl

/-- JustPress fires exactly on a rising edge -/
theorem justPress_spec (act : Rat) (f : Frame) (rest : Hist) :
    (run (justPressStep act) false (f :: rest)).2 =
      (if f.1.isActuated act && !actuatedNow act rest then .fired else .none) := by
  simp only [run, justPressStep, justPress_state]

def releaseStep (act : Rat) (prev : Bool) (_ : Tick) (v : Value) : Bool × AState :=
  let a := v.isActuated act
  (a, if a then .ongoing else if prev then .fired else .none)

theorem release_is_step (id : Nat) (act : Rat) : (Cond.release id act).step = fun s _ t v => releaseStep act s t v := rfl

theorem release_state (act : Rat) (h : Hist) : (run (releaseStep act) false h).1 = actuatedNow act h := by
  cases h <;> rfl

/-- Release: Ongoing while actuated, Fired exactly on a falling edge -/
theorem release_spec (act : Rat) (f : Frame) (rest : Hist) :
    (run (releaseStep act) false (f :: rest)).2 =
      (if f.1.isActuated act then .ongoing else if actuatedNow act rest then .fired else .none) := by
  simp only [run, releaseStep, release_state]

/-! ### Hold -/

def holdInit (rel : Bool) : HoldSt := { timer := { relative := rel } }

/-- `Hold::evaluate` in terms of "actuated?" and the frame's timer increment -/
def holdCore (T : Rat) (os : Bool) (dur : Rat) (fired : Bool) (a : Bool) (i : Rat) : (Rat × Bool) × AState :=
  let dur' := if a then dur + i else 0
  let fired' := leQ T dur'
  ((dur', fired'),
   if fired' then (if !fired || !os then .fired else .none) else if a then .ongoing else .none)

theorem holdStep_core (T : Rat) (os : Bool) (act : Rat) (s : HoldSt) (t : Tick) (v : Value) :
    let r := holdStep T os act s t v
    let c := holdCore T os s.timer.duration s.fired (v.isActuated act) (inc s.timer.relative t)
    r.1.timer.duration = c.1.1 ∧ r.1.timer.relative = s.timer.relative ∧ r.1.fired = c.1.2 ∧ r.2 = c.2 := by
  simp only [holdStep, holdCore]
  generalize v.isActuated act = a
  cases a <;> simp [CTimer.reset, timer_update]

theorem hold_state (T : Rat) (os : Bool) (act : Rat) (rel : Bool) (h : Hist) :
    let s := (run (holdStep T os act) (holdInit rel) h).1
    s.timer.duration = held act rel h ∧ s.timer.relative = rel ∧ (h ≠ [] → s.fired = leQ T (held act rel h)) := by
  induction h with
  | nil => simp [run, holdInit, held]
  | cons f rest ih =>
    obtain ⟨v, t⟩ := f
    obtain ⟨ih1, ih2, _⟩ := ih
    simp only [run_cons]
    generalize (run (holdStep T os act) (holdInit rel) rest).1 = s at *
    obtain ⟨c1, c2, c3, _⟩ := holdStep_core T os act s t v
    refine ⟨?_, ?_, fun _ => ?_⟩
    · rw [c1]; simp only [holdCore, held, ih1, ih2]
    · rw [c2, ih2]
    · rw [c3]; simp only [holdCore, held, ih1, ih2]

/-- Hold fires once the input has been actuated continuously for the hold time (once only if one-shot); Ongoing while
    actuated before that; None otherwise (`leQ a b` is `a ≤ b`) -/
theorem hold_spec (T : Rat) (os : Bool) (act : Rat) (rel : Bool) (hT : 0 < T) (f : Frame) (rest : Hist) :
    (run (holdStep T os act) (holdInit rel) (f :: rest)).2 =
      (if leQ T (held act rel (f :: rest)) then (if !os || !leQ T (held act rel rest) then .fired else .none)
       else if f.1.isActuated act then .ongoing else .none) := by
  obtain ⟨v, t⟩ := f
  obtain ⟨ih1, ih2, ih3⟩ := hold_state T os act rel rest
  have hfired : (run (holdStep T os act) (holdInit rel) rest).1.fired = leQ T (held act rel rest) := by
    cases rest with
    | nil =>
      have : ¬ T ≤ 0 := not_le.mpr hT
      have h0 : leQ T 0 = false := by
        cases h : leQ T 0
        · rfl
        · exact absurd ((leQ_iff T 0).mp h) this
      simp [run, holdInit, held, h0]
    | cons g r => exact ih3 (by simp)
  rw [run_cons]
  generalize (run (holdStep T os act) (holdInit rel) rest).1 = s at *
  obtain ⟨_, _, _, c4⟩ := holdStep_core T os act s t v
  rw [c4]
  simp only [holdCore, held, ih1, ih2, hfired]
  rw [Bool.or_comm (!os)]
  split <;> split <;> first | rfl | simp_all

/-! ### HoldAndRelease (D2 fix) and Tap -/

def holdRelInit (rel : Bool) : HoldRelSt := { timer := { relative := rel } }

theorem holdRel_state (T act : Rat) (rel : Bool) (h : Hist) :
    let s := (run (holdRelStep T act) (holdRelInit rel) h).1
    s.timer.duration = held act rel h ∧ s.timer.relative = rel ∧ s.actuated = actuatedNow act h := by
  induction h with
  | nil => simp [run, holdRelInit, held, actuatedNow]
  | cons f rest ih =>
    obtain ⟨v, t⟩ := f
    obtain ⟨ih1, ih2, ih3⟩ := ih
    simp only [run]
    generalize (run (holdRelStep T act) (holdRelInit rel) rest).1 = s at *
    simp only [holdRelStep, held, actuatedNow]
    cases hv : v.isActuated act <;> simp [CTimer.reset, timer_update, ih1, ih2]

/-- HoldAndRelease: Ongoing while actuated; Fired exactly on a release frame that follows an actuation whose measured
    duration (the continuous actuation plus the release frame's own increment, as the code documents) reaches the hold
    time; None otherwise — in particular never without a preceding actuation -/
theorem holdRel_spec (T act : Rat) (rel : Bool) (f : Frame) (rest : Hist) :
    (run (holdRelStep T act) (holdRelInit rel) (f :: rest)).2 =
      (if f.1.isActuated act then .ongoing
       else if actuatedNow act rest && leQ T (held act rel rest + inc rel f.2) then .fired else .none) := by
  obtain ⟨v, t⟩ := f
  obtain ⟨ih1, ih2, ih3⟩ := holdRel_state T act rel rest
  simp only [run]
  generalize (run (holdRelStep T act) (holdRelInit rel) rest).1 = s at *
  simp only [holdRelStep]
  cases hv : v.isActuated act <;> simp [timer_update, ih1, ih2, ih3]

def tapInit (rel : Bool) : TapSt := { timer := { relative := rel } }

theorem tap_state (T act : Rat) (rel : Bool) (h : Hist) :
    let s := (run (tapStep T act) (tapInit rel) h).1
    s.timer.duration = held act rel h ∧ s.timer.relative = rel ∧ s.actuated = actuatedNow act h := by
  induction h with
  | nil => simp [run, tapInit, held, actuatedNow]
  | cons f rest ih =>
    obtain ⟨v, t⟩ := f
    obtain ⟨ih1, ih2, ih3⟩ := ih
    simp only [run]
    generalize (run (tapStep T act) (tapInit rel) rest).1 = s at *
    simp only [tapStep, held, actuatedNow]
    cases hv : v.isActuated act <;> simp [CTimer.reset, timer_update, ih1, ih2]

/-- Tap, one evaluation: Fired exactly when the input was actuated at the previous evaluation, is released now, and the
    continuous actuation measured so far (`tap_state`: the timer holds `held` of the history) lasted at most the release time -/
theorem tap_fires_iff (T act : Rat) (s : TapSt) (t : Tick) (v : Value) :
    (tapStep T act s t v).2 = .fired ↔ (s.actuated = true ∧ v.isActuated act = false ∧ s.timer.duration ≤ T) := by
  unfold tapStep
  simp only
  rw [← leQ_iff]
  cases s.actuated <;> cases v.isActuated act <;> cases leQ s.timer.duration T <;> simp <;>
    (split <;> simp)

/-- Tap, history form: on a release frame the decision reads the continuous actuation that preceded it -/
theorem tap_history (T act : Rat) (rel : Bool) (f : Frame) (rest : Hist) :
    (run (tapStep T act) (tapInit rel) (f :: rest)).2 = .fired ↔
      (actuatedNow act rest = true ∧ f.1.isActuated act = false ∧ held act rel rest ≤ T) := by
  obtain ⟨ih1, _, ih3⟩ := tap_state T act rel rest
  rw [run_cons, tap_fires_iff, ih1, ih3]

/-- Tap over a history: Fired exactly on a release frame whose preceding continuous actuation lasted at most the release
    time; once the actuation has lasted the release time nothing triggers until released; Ongoing while actuated before -/
theorem tap_spec (T act : Rat) (rel : Bool) (f : Frame) (rest : Hist) :
    (run (tapStep T act) (tapInit rel) (f :: rest)).2 =
      (if actuatedNow act rest && !f.1.isActuated act && leQ (held act rel rest) T then .fired
       else if leQ T (held act rel (f :: rest)) then .none
       else if f.1.isActuated act then .ongoing else .none) := by
  obtain ⟨v, t⟩ := f
  have hs := tap_state T act rel rest
  rw [run_cons]
  generalize (run (tapStep T act) (tapInit rel) rest).1 = s at *
  obtain ⟨ih1, ih2, ih3⟩ := hs
  unfold tapStep
  simp only [held, ih1, ih3]
  by_cases hv : v.isActuated act = true
  · simp [hv, timer_update, ih1, ih2]
  · simp [hv, CTimer.reset]

/-! ### Pulse -/

def pulseInit (rel : Bool) : PulseSt := { timer := { relative := rel } }

/-- Pulse, one evaluation: released ⇒ None and the trigger count is reset -/
theorem pulse_released (I : Rat) (limit : Nat) (onStart : Bool) (act : Rat) (s : PulseSt) (t : Tick) (v : Value)
    (h : v.isActuated act = false) :
    (pulseStep I limit onStart act s t v).2 = .none ∧ (pulseStep I limit onStart act s t v).1.count = 0 := by
  simp [pulseStep, h]

/-- Pulse, one evaluation: it fires only while actuated and only below its limit, each fire advances the count by one,
    and the count never exceeds the limit -/
theorem pulse_fire_condition (I : Rat) (limit : Nat) (onStart : Bool) (act : Rat) (s : PulseSt) (t : Tick) (v : Value)
    (hf : (pulseStep I limit onStart act s t v).2 = .fired) :
    v.isActuated act = true ∧ (limit = 0 ∨ s.count < limit) ∧ (pulseStep I limit onStart act s t v).1.count = s.count + 1 := by
  unfold pulseStep at hf ⊢
  cases hv : v.isActuated act
  · simp [hv] at hf
  · simp only [hv, if_true] at hf ⊢
    by_cases hl : (limit == 0 || decide (s.count < limit)) = true
    · have hl' : limit = 0 ∨ s.count < limit := by simpa using hl
      simp only [hl, if_true] at hf ⊢
      cases onStart
      · simp only [Bool.false_eq_true, if_false] at hf ⊢
        split at hf
        · rename_i hq; simp only [hq, if_true]; exact ⟨trivial, hl', trivial⟩
        · cases hf
      · simp only [if_true] at hf ⊢
        split at hf
        · rename_i hq; simp only [hq, if_true]; exact ⟨trivial, hl', trivial⟩
        · cases hf
    · simp only [hl, Bool.false_eq_true, if_false] at hf
      cases hf

theorem pulse_count_bounded (I : Rat) (limit : Nat) (onStart : Bool) (act : Rat) (s : PulseSt) (t : Tick) (v : Value)
    (hl : limit ≠ 0) (hs : s.count ≤ limit) : (pulseStep I limit onStart act s t v).1.count ≤ limit := by
  unfold pulseStep
  cases hv : v.isActuated act
  · simp
  · simp only [if_true]
    by_cases hc : (limit == 0 || decide (s.count < limit)) = true
    · have : s.count < limit := by
        simp only [Bool.or_eq_true, beq_iff_eq, decide_eq_true_eq] at hc
        rcases hc with h | h
        · exact absurd h hl
        · exact h
      simp only [hc, if_true]
      cases onStart <;> simp only [Bool.false_eq_true, if_false, if_true] <;> split <;>
        first | (show s.count + 1 ≤ limit; omega) | (show s.count ≤ limit; omega)
    · simp only [hc, Bool.false_eq_true, if_false]; exact hs

theorem pulseStep_timer (I : Rat) (limit : Nat) (onStart : Bool) (act : Rat) (s : PulseSt) (t : Tick) (v : Value) :
    (pulseStep I limit onStart act s t v).1.timer = (if v.isActuated act then s.timer.update t else s.timer.reset) := by
  unfold pulseStep
  by_cases hv : v.isActuated act = true
  · simp only [hv, if_true]
    split
    · split <;> (split <;> rfl)
    · rfl
  · simp [hv]

/-- Pulse over a history of any length: the timer measures the continuous actuation, the trigger count stays within the
    limit, and a release resets the count — so with `pulse_fire_condition` it fires at most once per elapsed interval,
    only while actuated, and at most `limit` times per actuation -/
theorem pulse_state (I : Rat) (limit : Nat) (onStart : Bool) (act : Rat) (rel : Bool) (h : Hist) :
    let r := run (pulseStep I limit onStart act) (pulseInit rel) h
    r.1.timer.duration = held act rel h ∧ r.1.timer.relative = rel
    ∧ (limit ≠ 0 → r.1.count ≤ limit)
    ∧ (actuatedNow act h = false → r.1.count = 0 ∧ (h ≠ [] → r.2 = .none)) := by
  induction h with
  | nil => simp [run, pulseInit, held, actuatedNow]
  | cons f rest ih =>
    obtain ⟨v, t⟩ := f
    obtain ⟨ih1, ih2, ih3, _⟩ := ih
    simp only [run_cons]
    generalize (run (pulseStep I limit onStart act) (pulseInit rel) rest).1 = s at *
    have htm := pulseStep_timer I limit onStart act s t v
    refine ⟨?_, ?_, ?_, ?_⟩
    · rw [htm]; simp only [held]
      by_cases hv : v.isActuated act = true
      · simp [hv, timer_update, ih1, ih2]
      · simp [hv, CTimer.reset]
    · rw [htm]
      by_cases hv : v.isActuated act = true
      · simp [hv, timer_update, ih2]
      · simp [hv, CTimer.reset, ih2]
    · intro hl
      exact pulse_count_bounded I limit onStart act s t v hl (ih3 hl)
    · intro ha
      simp only [actuatedNow] at ha
      have := pulse_released I limit onStart act s t v ha
      exact ⟨this.2, fun _ => this.1⟩

/-! ### none of them leaves None without the input having been actuated -/

theorem held_never (act : Rat) (rel : Bool) (h : Hist) (hn : ∀ f ∈ h, f.1.isActuated act = false) : held act rel h = 0 := by
  cases h with
  | nil => rfl
  | cons f rest => obtain ⟨v, t⟩ := f; simp [held, hn (v, t) (by simp)]

theorem actuatedNow_never (act : Rat) (h : Hist) (hn : ∀ f ∈ h, f.1.isActuated act = false) : actuatedNow act h = false := by
  cases h with
  | nil => rfl
  | cons f rest => obtain ⟨v, t⟩ := f; simp [actuatedNow, hn (v, t) (by simp)]

theorem never_actuated_none (T act : Rat) (os rel : Bool) (hT : 0 < T)
    (h : Hist) (hn : ∀ f ∈ h, f.1.isActuated act = false) :
    (run (justPressStep act) false h).2 = .none
    ∧ (run (releaseStep act) false h).2 = .none
    ∧ (run (holdStep T os act) (holdInit rel) h).2 = .none
    ∧ (run (holdRelStep T act) (holdRelInit rel) h).2 = .none
    ∧ (run (tapStep T act) (tapInit rel) h).2 ≠ .fired := by
  cases h with
  | nil => exact ⟨rfl, rfl, rfl, rfl, by simp [run]⟩
  | cons f rest =>
    have hrest : ∀ g ∈ rest, g.1.isActuated act = false := fun g hg => hn g (by simp [hg])
    have hf : f.1.isActuated act = false := hn f (by simp)
    have h0 := held_never act rel (f :: rest) hn
    have a1 := actuatedNow_never act rest hrest
    have hl0 : leQ T 0 = false := by
      cases h : leQ T 0
      · rfl
      · exact absurd ((leQ_iff T 0).mp h) (not_le.mpr hT)
    refine ⟨?_, ?_, ?_, ?_, ?_⟩
    · rw [justPress_spec]; simp [hf]
    · rw [release_spec]; simp [hf, a1]
    · rw [hold_spec T os act rel hT, h0, hl0]; simp [hf]
    · rw [holdRel_spec]; simp [hf, a1]
    · rw [Ne, tap_history]; simp [a1]

/-- the timers stay non-negative (and finite: they are rationals) for every non-negative relative speed, while paused
    and at speed zero -/
theorem held_nonneg (act : Rat) (rel : Bool) (h : Hist) (hd : ∀ f ∈ h, 0 ≤ f.2.delta ∧ 0 ≤ f.2.speed) : 0 ≤ held act rel h := by
  induction h with
  | nil => simp [held]
  | cons f rest ih =>
    obtain ⟨v, t⟩ := f
    have := ih (fun g hg => hd g (by simp [hg]))
    obtain ⟨h1, h2⟩ := hd (v, t) (by simp)
    have hi : 0 ≤ inc rel t := by
      unfold inc
      cases rel
      · by_cases hs : t.speed = 0
        · simp [hs]
        · simp only [Bool.false_eq_true, if_false, bne_iff_ne, ne_eq, hs, not_false_eq_true, if_true]
          exact div_nonneg h1 h2
      · simpa using h1
    simp only [held]
    split
    · linarith
    · exact le_refl _

/-- D2 (fixed by 582dab9): the pinned `HoldAndRelease` fired without any actuation when one frame's delta reached the hold time -/
def legacyHoldRelStep (T act : Rat) (tm : CTimer) (t : Tick) (v : Value) : CTimer × AState :=
  let timer := tm.update t
  if v.isActuated act then (timer, .ongoing)
  else (timer.reset, if leQ T timer.duration then .fired else .none)

theorem legacy_holdRel_counterexample :
    (legacyHoldRelStep (1/10) (1/2) {} ⟨1/4, 1⟩ (.bool false)).2 = .fired
    ∧ (holdRelStep (1/10) (1/2) (holdRelInit false) ⟨1/4, 1⟩ (.bool false)).2 = .none := by
  constructor <;> simp [legacyHoldRelStep, holdRelStep, holdRelInit, CTimer.update, CTimer.reset, Value.isActuated, Value.as3, V3.normSq, leQ] <;> norm_num

end BEI.Props.C11
