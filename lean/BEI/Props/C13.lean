/- C13 — theorems under construction. -/
import BEI.Model.App
namespace BEI.Props.C13
theorem placeholder_true : True := trivial
end BEI.Props.C13
