/-
  C13 — Actions evaluate in binding order and see each other's state accordingly.
-/
import BEI.Props.C01
import BEI.Model.Conditions
import BEI.Model.Modifiers
namespace BEI.Props.C13
open BEI

/-- (1) binding an action again extends it in place: the evaluation order (the list of bound actions) and the
    `ActionsData` keys do not change; a new action is appended at the end of both -/
theorem bind_idempotent_position (ci : ContextInstance) (a : Nat) (d : Dim) (cons : Bool) (acc : Accum)
    (f : ActionBind → ActionBind) (hf : ∀ b, (f b).action = b.action) :
    (ci.actions.get? a ≠ none →
        (ci.bind a d cons acc f).bindings.map (·.action) = ci.bindings.map (·.action)
        ∧ (ci.bind a d cons acc f).actions = ci.actions)
    ∧ (ci.actions.get? a = none →
        (ci.bind a d cons acc f).bindings.map (·.action) = ci.bindings.map (·.action) ++ [a]
        ∧ (ci.bind a d cons acc f).actions = ci.actions ++ [(a, ActionData.new d)]) := by
  constructor
  · intro h
    unfold ContextInstance.bind
    cases hg : ci.actions.get? a with
    | none => exact absurd hg h
    | some x =>
      simp only [List.map_map, and_true]
      apply List.map_congr_left
      intro b _
      simp only [Function.comp]
      split <;> simp [hf]
  · intro h
    unfold ContextInstance.bind
    simp [h, hf]

/-- bindings and `ActionsData` stay in bijection under `bind` (so the `expect`s on lookups cannot fail, see C04.no_panic) -/
theorem bind_keeps_bijection (ci : ContextInstance) (a : Nat) (d : Dim) (cons : Bool) (acc : Accum)
    (f : ActionBind → ActionBind) (hf : ∀ b, (f b).action = b.action)
    (hinv : ci.actions.map (·.1) = ci.bindings.map (·.action)) :
    (ci.bind a d cons acc f).actions.map (·.1) = (ci.bind a d cons acc f).bindings.map (·.action) := by
  obtain ⟨h1, h2⟩ := bind_idempotent_position ci a d cons acc f hf
  by_cases hg : ci.actions.get? a = none
  · obtain ⟨hb, ha⟩ := h2 hg
    rw [hb, ha]; simp [hinv]
  · obtain ⟨hb, ha⟩ := h1 hg
    rw [hb, ha, hinv]

/-- the action loop over a concatenation: the first part runs first, the second part sees what it leaves behind -/
theorem loopActions_append (t : Tick) (es : List Nat) :
    ∀ (pre post : List ActionBind) (r : Reader) (av : ActionsView),
      ContextInstance.loopActions r av t es (pre ++ post) =
        match ContextInstance.loopActions r av t es pre with
        | none => none
        | some (pre', r1, av1, dl1, lg1) =>
          match ContextInstance.loopActions r1 av1 t es post with
          | none => none
          | some (post', r2, av2, dl2, lg2) => some (pre' ++ post', r2, av2, dl1 ++ dl2, lg1 ++ lg2) := by
  intro pre
  induction pre with
  | nil =>
    intro post r av
    simp only [List.nil_append, ContextInstance.loopActions]
    cases ContextInstance.loopActions r av t es post with
    | none => rfl
    | some x => obtain ⟨a, b, c, d, e⟩ := x; simp
  | cons ab rest ih =>
    intro post r av
    simp only [List.cons_append, ContextInstance.loopActions]
    cases ab.update r av t es with
    | none => rfl
    | some o =>
      simp only
      rw [ih]
      cases ContextInstance.loopActions o.reader o.actions t es rest with
      | none => rfl
      | some x =>
        obtain ⟨a, b, c, d, e⟩ := x
        simp only
        cases ContextInstance.loopActions b c t es post with
        | none => rfl
        | some y => obtain ⟨a', b', c', d', e'⟩ := y; simp [List.append_assoc]

/-- (2) visibility: when the action at some position is evaluated, the `ActionsData` it is shown holds this frame's
    data for the actions bound earlier and still the previous frame's data for itself and for the actions bound later -/
theorem visibility (t : Tick) (es : List Nat) (pre : List ActionBind) (ab : ActionBind) (post : List ActionBind)
    (r : Reader) (av : ActionsView) (hnd : ((pre ++ ab :: post).map (·.action)).Nodup)
    pre' r1 av1 dl1 lg1 (hpre : ContextInstance.loopActions r av t es pre = some (pre', r1, av1, dl1, lg1)) :
    -- `ab` is evaluated with `(r1, av1)`:
    ContextInstance.loopActions r av t es (pre ++ ab :: post) =
      (match ContextInstance.loopActions r1 av1 t es (ab :: post) with
       | none => none
       | some (post', r2, av2, dl2, lg2) => some (pre' ++ post', r2, av2, dl1 ++ dl2, lg1 ++ lg2))
    -- earlier actions: already updated this frame
    ∧ (∀ x ∈ pre, ∃ old st v, av.get? x.action = some old ∧ av1.get? x.action = some (old.update t st v))
    -- itself and later actions: still the previous frame's data
    ∧ (∀ x ∈ ab :: post, av1.get? x.action = av.get? x.action) := by
  have hnd_pre : (pre.map (·.action)).Nodup := by
    simp only [List.map_append, List.nodup_append] at hnd
    exact hnd.1
  obtain ⟨h1, h2⟩ := C01.loopActions_threads t es pre r av pre' r1 av1 dl1 lg1 hnd_pre hpre
  refine ⟨?_, ?_, ?_⟩
  · rw [loopActions_append, hpre]
  · intro x hx
    obtain ⟨old, st, v, ha, hb, _⟩ := h1 x hx
    exact ⟨old, st, v, ha, hb⟩
  · intro x hx
    apply h2
    simp only [List.map_append, List.map_cons, List.nodup_append] at hnd
    intro hmem
    exact hnd.2.2 x.action hmem x.action (by
      simp only [List.mem_cons, List.mem_map] at hx ⊢
      rcases hx with rfl | hx
      · exact Or.inl rfl
      · exact Or.inr ⟨x, hx, rfl⟩) rfl

/-- (3) `Chord<A>` yields exactly the referenced action's state as it is shown; absent action chords nothing; implicit -/
theorem chord_is_state (id a : Nat) (av : ActionsView) (t : Tick) (v : Value) :
    ((Cond.chord id a).eval av t v).2.1 = (match av.get? a with | some d => d.state | none => .none)
    ∧ ((Cond.chord id a).eval av t v).2.2 = .implicit := by
  simp only [Cond.eval, Cond.chord, and_true]
  cases av.get? a <;> rfl

/-- (4) `BlockBy<A>` blocks (returns None) exactly while the referenced action is Fired — only the events when
    events-only; absent action blocks nothing -/
theorem blockBy_iff_fired (id a : Nat) (eo : Bool) (av : ActionsView) (t : Tick) (v : Value) :
    (((Cond.blockBy id a eo).eval av t v).2.1 = .none ↔ ∃ d, av.get? a = some d ∧ d.state = .fired)
    ∧ (((Cond.blockBy id a eo).eval av t v).2.1 ≠ .none → ((Cond.blockBy id a eo).eval av t v).2.1 = .fired)
    ∧ ((Cond.blockBy id a eo).eval av t v).2.2 = (if eo then .eventsBlocker else .blocker) := by
  simp only [Cond.eval, Cond.blockBy]
  cases hg : av.get? a with
  | none => simp
  | some d => cases hs : d.state <;> simp [hs]

/-- (5) `AccumulateBy<A>`: running sum exactly while the referenced action is Fired, the plain input otherwise;
    absent action accumulates nothing -/
theorem accumulateBy_spec (a : Nat) (acc : V3) (av : ActionsView) (v : Value) :
    Mod.accumulateByStep a acc av v =
      match av.get? a with
      | none => (acc, v)
      | some d => if d.state = .fired then (acc + v.as3, Value.ofV3 (acc + v.as3) v.dim)
                  else (v.as3, Value.ofV3 v.as3 v.dim) := by
  unfold Mod.accumulateByStep
  cases hg : av.get? a with
  | none => rfl
  | some d => by_cases hs : d.state = .fired <;> simp [hs]

/-- while not Fired the output is the plain input (converted back to its own dimension: identity) -/
theorem accumulateBy_plain (v : Value) :
    (Value.ofV3 v.as3 v.dim).as3 = v.as3 := by
  cases v with
  | bool b => cases b <;> simp [Value.ofV3, Value.convert, Value.as3, Value.dim, Value.asBool]
  | a1 x => simp [Value.ofV3, Value.convert, Value.as3, Value.dim, Value.as1]
  | a2 x y => simp [Value.ofV3, Value.convert, Value.as3, Value.dim, Value.as2]
  | a3 x y z => simp [Value.ofV3, Value.convert, Value.as3, Value.dim]

end BEI.Props.C13
