/-
  C05 — A consuming action hides exactly its contributing inputs from later actions (same and other contexts,
  including bindings that require a modifier key it used); nothing is hidden otherwise; nothing stays hidden in the
  next frame; earlier actions are never affected.
-/
import BEI.Proofs.Update
namespace BEI.Props.C05
open BEI

/-- modifier keys an input requires -/
def modsOf : Input → ModKeys
  | .key _ m => m | .mbtn _ m => m | .motion m => m | .wheel m => m | .padBtn _ => {} | .padAxis _ => {}

/-- same physical source (for gamepad inputs: read through the same gamepad setting) -/
def sameSource : Input → Input → Bool
  | .key k _, .key k' _ => k == k'
  | .mbtn b _, .mbtn b' _ => b == b'
  | .motion _, .motion _ => true
  | .wheel _, .wheel _ => true
  | .padBtn b, .padBtn b' => b == b'
  | .padAxis x, .padAxis x' => x == x'
  | _, _ => false

/-- `i` hides `j`: same source, or `j` requires a modifier key `i` used -/
def hides (i j : Input) : Bool := sameSource i j || (modsOf i).intersects (modsOf j)

/-- the inactive reading of an input -/
def inactive : Input → Value
  | .key _ _ => .bool false | .mbtn _ _ => .bool false | .motion _ => .a2 0 0 | .wheel _ => .a2 0 0
  | .padBtn _ => .bool false | .padAxis _ => .a1 0

/-- `j` is masked by the consumed set `c` when read through device `dev` -/
def hiddenBy (c : Consumed) (dev : Device) : Input → Bool
  | .key k m => c.keys.contains k || c.mods.intersects m
  | .mbtn b m => c.mouseButtons.contains b || c.mods.intersects m
  | .motion m => c.motion || c.mods.intersects m
  | .wheel m => c.wheel || c.mods.intersects m
  | .padBtn b => c.padButtons.contains (dev, b)
  | .padAxis x => c.padAxes.contains (dev, x)

/-- a masked input reads as inactive -/
theorem hidden_reads_inactive (r : Reader) (j : Input) (h : hiddenBy r.consumed r.device j = true) :
    r.value j = inactive j := by
  cases j <;> simp_all [hiddenBy, Reader.value, Reader.modKeysPressed, inactive] <;>
    (rcases h with h | h <;> simp [h])

theorem intersects_union_left (a b c : ModKeys) (h : a.intersects c = true) : (a.union b).intersects c = true := by
  simp only [ModKeys.intersects, ModKeys.union, Bool.or_eq_true, Bool.and_eq_true] at *
  grind

theorem intersects_union_right (a b c : ModKeys) (h : b.intersects c = true) : (a.union b).intersects c = true := by
  simp only [ModKeys.intersects, ModKeys.union, Bool.or_eq_true, Bool.and_eq_true] at *
  grind

/-- (1a) consuming `i` masks every input it hides (read through the same gamepad setting) -/
theorem consume_hides (r : Reader) (i j : Input) (h : hides i j = true) :
    hiddenBy (r.consume i).consumed (r.consume i).device j = true := by
  cases i <;> cases j <;>
    simp_all [hides, sameSource, modsOf, hiddenBy, Reader.consume, ModKeys.intersects, ModKeys.union] <;>
    grind

/-- (1b) consuming never unmasks anything (the consumed set only grows within a frame) -/
theorem consume_monotone (r : Reader) (i j : Input) (dev : Device) (h : hiddenBy r.consumed dev j = true) :
    hiddenBy (r.consume i).consumed dev j = true := by
  cases i <;> cases j <;>
    simp_all [hiddenBy, Reader.consume, ModKeys.intersects, ModKeys.union] <;>
    grind

theorem intersects_union_of_not (a b c : ModKeys) (h : b.intersects c = false) :
    (a.union b).intersects c = a.intersects c := by
  cases a; cases b; cases c
  simp only [ModKeys.intersects, ModKeys.union] at *
  grind

theorem contains_cons_ne {α : Type} [BEq α] [LawfulBEq α] (l : List α) (x y : α) (h : (x == y) = false) :
    (x :: l).contains y = l.contains y := by
  simp [List.contains_cons]
  intro hxy; subst hxy; simp at h

/-- (1c) consuming `i` changes nothing for an input it does not hide -/
theorem consume_keeps (r : Reader) (i j : Input) (h : hides i j = false) :
    (r.consume i).value j = r.value j := by
  simp only [hides, Bool.or_eq_false_iff] at h
  obtain ⟨hs, hm⟩ := h
  have hu := fun (m' : ModKeys) (hm' : (modsOf i).intersects m' = false) =>
    intersects_union_of_not r.consumed.mods (modsOf i) m' hm'
  cases i <;> cases j <;>
    simp only [sameSource, modsOf, beq_eq_false_iff_ne, ne_eq, Bool.true_eq_false, Bool.false_eq_true] at hs hm hu ⊢ <;>
    simp only [Reader.consume, Reader.value, Reader.modKeysPressed, Reader.modsDown, Reader.findPad] <;>
    (try simp only [hu _ hm]) <;>
    (try rfl) <;>
    (try (rw [contains_cons_ne _ _ _ (by simpa using hs)]))
  all_goals (have hs' := Ne.symm hs; simp [List.contains_cons, hs'])

/-- a gamepad input consumed under one gamepad setting is not hidden from a context with a different setting -/
theorem consume_pad_other_device (r : Reader) (b : Nat) (d' : Device) (hd : d' ≠ r.device) :
    ((r.consume (.padBtn b)).setGamepad d').value (.padBtn b) = (r.setGamepad d').value (.padBtn b) := by
  have hne : ¬ (d' = r.device) := hd
  simp [Reader.consume, Reader.setGamepad, Reader.value, Reader.findPad, List.contains_cons, hne]

theorem foldl_consume_monotone (is : List Input) :
    ∀ (r : Reader) (j : Input) (dev : Device), hiddenBy r.consumed dev j = true →
      hiddenBy (is.foldl Reader.consume r).consumed dev j = true := by
  induction is with
  | nil => intro r j dev h; exact h
  | cons i is ih => intro r j dev h; exact ih _ _ _ (consume_monotone r i j dev h)

theorem consume_device (r : Reader) (i : Input) : (r.consume i).device = r.device := by cases i <;> rfl

theorem foldl_consume_device (is : List Input) : ∀ (r : Reader), (is.foldl Reader.consume r).device = r.device := by
  induction is with
  | nil => intro r; rfl
  | cons i is ih => intro r; simp only [List.foldl_cons]; rw [ih, consume_device]

theorem foldl_consume_hides (is : List Input) :
    ∀ (r : Reader) (i j : Input), i ∈ is → hides i j = true →
      hiddenBy (is.foldl Reader.consume r).consumed r.device j = true := by
  induction is with
  | nil => intro r i j hi; simp at hi
  | cons x xs ih =>
    intro r i j hi hh
    simp only [List.foldl_cons]
    rcases List.mem_cons.mp hi with rfl | hi
    · have := consume_hides r i j hh
      rw [consume_device] at this
      exact foldl_consume_monotone xs _ _ _ this
    · have := ih (r.consume x) i j hi hh
      rwa [consume_device] at this

theorem foldl_consume_keeps (is : List Input) :
    ∀ (r : Reader) (j : Input), (∀ i ∈ is, hides i j = false) → (is.foldl Reader.consume r).value j = r.value j := by
  induction is with
  | nil => intro r j _; rfl
  | cons x xs ih =>
    intro r j h
    simp only [List.foldl_cons]
    rw [ih _ _ (fun i hi => h i (by simp [hi])), consume_keeps r x j (h x (by simp))]

/-- (2) what one action consumes: if (and only if) it consumes input and ends the frame in a state other than None,
    exactly the inputs that contributed to it (C04); afterwards every input hidden by one of them reads inactive
    through the same reader, and every other input reads exactly as before. -/
theorem update_consumes (ab : ActionBind) (r : Reader) (av : ActionsView) (t : Tick) (es : List Nat)
    (o : ActionBind.Out) (h : ab.update r av t es = some o) :
    ∃ d, o.actions.get? ab.action = some d ∧
      o.consumed = (if ab.consume && d.state != .none
                    then (contributing (evalAll r av t ab.bindings)).map (·.input) else [])
      ∧ o.reader = o.consumed.foldl Reader.consume r
      ∧ (∀ i ∈ o.consumed, ∀ j, hides i j = true → o.reader.value j = inactive j)
      ∧ (∀ j, (∀ i ∈ o.consumed, hides i j = false) → o.reader.value j = r.value j) := by
  obtain ⟨old, d, hold, hd, hchar⟩ := update_char ab r av t es o h
  obtain ⟨hdv, _, hcons, hreader, _⟩ := hchar
  refine ⟨d, hd, ?_, hreader, ?_, ?_⟩
  · rw [hcons, hdv]; simp [ActionData.update]
  · intro i hi j hh
    apply hidden_reads_inactive
    rw [hreader, foldl_consume_device]
    exact foldl_consume_hides _ r i j hi hh
  · intro j hj
    rw [hreader]
    exact foldl_consume_keeps _ r j hj

/-- nothing is hidden when the action's state is None or the action does not consume -/
theorem nothing_consumed (ab : ActionBind) (r : Reader) (av : ActionsView) (t : Tick) (es : List Nat)
    (o : ActionBind.Out) (h : ab.update r av t es = some o) (d : ActionData)
    (hd : o.actions.get? ab.action = some d) (hn : ab.consume = false ∨ d.state = .none) : o.reader = r := by
  obtain ⟨d', hd', hcons, hreader, _⟩ := update_consumes ab r av t es o h
  rw [hd] at hd'; cases hd'
  rw [hreader, hcons]
  rcases hn with hn | hn <;> simp [hn]

/-- (3) nothing stays hidden in the next frame: `update_state` empties the consumed set (only the UI mouse flag is
    recomputed, see C16) -/
theorem reset_unhides (r : Reader) (dev : Device) (j : Input) : hiddenBy r.updateState.consumed dev j = false := by
  cases j <;> simp [Reader.updateState, hiddenBy, ModKeys.intersects]

/-- (4) masking persists for everything evaluated later in the frame: every later `ActionBind::update` only adds to
    the consumed set (so an input hidden once stays hidden until the reset), and switching the gamepad selection at
    the start of a context does not touch the set -/
theorem later_updates_keep_hidden (ab : ActionBind) (r : Reader) (av : ActionsView) (t : Tick) (es : List Nat)
    (o : ActionBind.Out) (h : ab.update r av t es = some o) (j : Input) (dev : Device)
    (hj : hiddenBy r.consumed dev j = true) : hiddenBy o.reader.consumed dev j = true := by
  obtain ⟨_, _, _, hreader, _⟩ := update_consumes ab r av t es o h
  rw [hreader]
  exact foldl_consume_monotone _ r j dev hj

theorem setGamepad_consumed (r : Reader) (d : Device) : (r.setGamepad d).consumed = r.consumed := rfl

/-- (5) earlier actions are never affected: the result of an action depends only on the reader as it was at its turn —
    running further actions afterwards cannot change what was already computed (the evaluation is a left fold) -/
theorem earlier_unaffected (r : Reader) (av : ActionsView) (t : Tick) (es : List Nat) (ab : ActionBind)
    (rest rest' : List ActionBind) :
    (ContextInstance.loopActions r av t es (ab :: rest)).map (fun x => (x.1.head?.map (·.action), x.2.2.2.1.take (match ab.update r av t es with | some o => o.deliveries.length | none => 0)))
    = (ContextInstance.loopActions r av t es (ab :: rest)).map (fun x => (x.1.head?.map (·.action), match ab.update r av t es with | some o => o.deliveries | none => [])) := by
  simp only [ContextInstance.loopActions]
  cases hab : ab.update r av t es with
  | none => rfl
  | some o =>
    simp only
    cases hr : ContextInstance.loopActions o.reader o.actions t es rest with
    | none => rfl
    | some x =>
      obtain ⟨a, b, c, d, e⟩ := x
      simp

/-- masking survives a whole action loop … -/
theorem loopActions_keeps_hidden (t : Tick) (es : List Nat) (j : Input) (dev : Device) :
    ∀ (bs : List ActionBind) (r : Reader) (av : ActionsView) bs' r' av' dl lg,
      ContextInstance.loopActions r av t es bs = some (bs', r', av', dl, lg) →
      hiddenBy r.consumed dev j = true → hiddenBy r'.consumed dev j = true := by
  intro bs
  induction bs with
  | nil =>
    intro r av bs' r' av' dl lg h hj
    simp only [ContextInstance.loopActions, Option.some.injEq, Prod.mk.injEq] at h
    obtain ⟨_, rfl, _, _, _⟩ := h
    exact hj
  | cons ab rest ih =>
    intro r av bs' r' av' dl lg h hj
    simp only [ContextInstance.loopActions] at h
    split at h
    · cases h
    · rename_i o ho
      split at h
      · cases h
      · rename_i rest' r'' av'' dl' lg' hrest
        simp only [Option.some.injEq, Prod.mk.injEq] at h
        obtain ⟨_, rfl, _, _, _⟩ := h
        exact ih _ _ _ _ _ _ _ hrest (later_updates_keep_hidden ab r av t es o ho j dev hj)

/-- … a whole context instance (selecting its gamepad does not touch the consumed set) … -/
theorem instance_keeps_hidden (ci : ContextInstance) (r : Reader) (t : Tick) (es : List Nat) (o : ContextInstance.Out)
    (h : ci.update r t es = some o) (j : Input) (dev : Device) (hj : hiddenBy r.consumed dev j = true) :
    hiddenBy o.reader.consumed dev j = true := by
  unfold ContextInstance.update at h
  split at h
  · cases h
  · rename_i bs r' av' dl lg hl
    simp only [Option.some.injEq] at h
    subst h
    exact loopActions_keeps_hidden t es j dev _ _ _ _ _ _ _ _ hl hj

theorem updateExclusive_keeps_hidden (t : Tick) (j : Input) (dev : Device) :
    ∀ (is : List (Nat × ContextInstance)) (r : Reader) is' r' dl lg,
      Registry.updateExclusive r t is = some (is', r', dl, lg) →
      hiddenBy r.consumed dev j = true → hiddenBy r'.consumed dev j = true := by
  intro is
  induction is with
  | nil =>
    intro r is' r' dl lg h hj
    simp only [Registry.updateExclusive, Option.some.injEq, Prod.mk.injEq] at h
    obtain ⟨_, rfl, _, _⟩ := h
    exact hj
  | cons p ps ih =>
    intro r is' r' dl lg h hj
    obtain ⟨e, ctx⟩ := p
    simp only [Registry.updateExclusive] at h
    split at h
    · cases h
    · rename_i o ho
      split at h
      · cases h
      · rename_i rest' r'' dl' lg' hrest
        simp only [Option.some.injEq, Prod.mk.injEq] at h
        obtain ⟨_, rfl, _, _⟩ := h
        exact ih _ _ _ _ _ hrest (instance_keeps_hidden ctx r t [e] o ho j dev hj)

/-- (6) … and the rest of the frame: once an input is hidden it reads as inactive for every action evaluated later in
    that frame — later actions of the same context, later instances of the same type, and every lower-priority context -/
theorem registry_keeps_hidden (t : Tick) (j : Input) (dev : Device) :
    ∀ (reg : Registry) (r : Reader) (o : Registry.Out), Registry.update r t reg = some o →
      hiddenBy r.consumed dev j = true → hiddenBy o.reader.consumed dev j = true := by
  intro reg
  induction reg with
  | nil => intro r o h hj; simp only [Registry.update, Option.some.injEq] at h; subst h; exact hj
  | cons g rest ih =>
    intro r o h hj
    cases g with
    | exclusive ty is =>
      simp only [Registry.update] at h
      split at h
      · cases h
      · rename_i is' r' dl lg hex
        split at h
        · cases h
        · rename_i o' ho'
          simp only [Option.some.injEq] at h
          subst h
          exact ih r' o' ho' (updateExclusive_keeps_hidden t j dev _ _ _ _ _ _ hex hj)
    | shared ty es ctx =>
      simp only [Registry.update] at h
      split at h
      · cases h
      · rename_i oc hoc
        split at h
        · cases h
        · rename_i o' ho'
          simp only [Option.some.injEq] at h
          subst h
          exact ih oc.reader o' ho' (instance_keeps_hidden ctx r t es oc hoc j dev hj)

/-- non-vacuity: Ctrl+A consumed hides Ctrl+Shift+B (shares Ctrl) and A, but not plain B -/
example :
    let ctrl : ModKeys := { control := true }
    let cs : ModKeys := { control := true, shift := true }
    hides (.key 0 ctrl) (.key 1 cs) = true ∧ hides (.key 0 ctrl) (.key 0 {}) = true ∧ hides (.key 0 ctrl) (.key 1 {}) = false := by
  decide

/-- what a hidden input contributes: a binding of a later action that names an input hidden in the reader at that action's
    turn is evaluated on the *inactive* value of that input — its modifiers run on zero and its conditions on their result,
    exactly as if the device were at rest (the binding is not skipped, C12; whether it is hidden is decided by
    `update_consumes` / `registry_keeps_hidden`) -/
theorem hidden_binding_evaluates_inactive (r : Reader) (av : ActionsView) (t : Tick) (b : InputBind) (e : Ev)
    (h : (evalInput r av t b).2.1 = some e) (hj : hiddenBy r.consumed r.device b.input = true) :
    e.tracker.value = runMods av t b.mods (inactive b.input)
    ∧ e.results = runConds av t b.conds (runMods av t b.mods (inactive b.input)) := by
  obtain ⟨_, hv, hres, _, _⟩ := evalInput_spec r av t b e h
  have hin := hidden_reads_inactive r b.input hj
  rw [hin] at hv
  exact ⟨hv, by rw [hres, hv]⟩

/-- every evaluated input of an action comes from one of its bindings by `evalInput` -/
theorem evalAll_mem (r : Reader) (av : ActionsView) (t : Tick) (bs : List InputBind) (e : Ev) (he : e ∈ evalAll r av t bs) :
    ∃ b ∈ bs, (evalInput r av t b).2.1 = some e := by
  unfold evalAll at he
  rw [List.mem_filterMap] at he
  exact he

end BEI.Props.C05
