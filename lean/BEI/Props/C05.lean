/- C05 — theorems under construction. -/
import BEI.Model.App
namespace BEI.Props.C05
theorem placeholder_true : True := trivial
end BEI.Props.C05
