/- C01 — theorems under construction. -/
import BEI.Model.App
namespace BEI.Props.C01
theorem placeholder_true : True := trivial
end BEI.Props.C01
