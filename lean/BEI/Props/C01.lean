/-
  C01 — Per-frame events are exactly the documented function of the state transition; the polled data equal the
  payloads; the value has the action's declared output type.

  The transition table and the flag order are the ones the extractor read from `/repo/src` on this run
  (`BEI/Gen/Tables.lean`), so `eventsOf_eq_doc` is re-checked against the current source.
-/
import BEI.Proofs.Basic
namespace BEI.Props.C01
open BEI

/-- the table as documented (docs of `ActionEvents`, and the statement of C01) -/
def docEvents : AState → AState → List EvKind
  | .none, .none => []
  | .none, .ongoing => [.started, .ongoing]
  | .none, .fired => [.started, .fired]
  | .ongoing, .none => [.canceled]
  | .ongoing, .ongoing => [.ongoing]
  | .ongoing, .fired => [.fired]
  | .fired, .none => [.completed]
  | .fired, .ongoing => [.ongoing]
  | .fired, .fired => [.fired]

/-- (1) the events the code computes and triggers — extracted table, in `iter_names` order — are exactly the
    documented ones, with `Started` delivered before its companion -/
theorem eventsOf_eq_doc (p c : AState) : eventsOf p c = docEvents p c := by
  cases p <;> cases c <;> decide

theorem started_is_head (p c : AState) (h : EvKind.started ∈ eventsOf p c) :
    (eventsOf p c).head? = some .started := by
  cases p <;> cases c <;> revert h <;> decide

/-- the state order extracted from the source is None < Ongoing < Fired -/
theorem state_order : AState.rank .none < AState.rank .ongoing ∧ AState.rank .ongoing < AState.rank .fired := by decide

/-- every payload field of a delivery equals the corresponding polled field of the action data -/
theorem mkDelivery_payload (a : Nat) (d : ActionData) (k : EvKind) (e : Nat) :
    let x := mkDelivery a d k e
    x.entity = e ∧ x.action = a ∧ x.kind = k ∧ x.state = d.state ∧ x.value = d.value
      ∧ (∀ q, x.elapsed = some q → q = d.elapsed) ∧ (∀ q, x.fired = some q → q = d.fired) := by
  cases k <;> simp [mkDelivery]

/-- which durations each event carries (`Started`: none; `Ongoing`/`Canceled`: elapsed; `Fired`/`Completed`: both) -/
theorem mkDelivery_durations (a : Nat) (d : ActionData) (k : EvKind) (e : Nat) :
    (mkDelivery a d k e).elapsed = (if k = .started then none else some d.elapsed) ∧
    (mkDelivery a d k e).fired = (if k = .fired ∨ k = .completed then some d.fired else none) := by
  cases k <;> simp [mkDelivery]

/-- the deliveries of one `trigger_events` call: for each event of the transition, in table order, one copy per entity -/
theorem triggerEvents_spec (a : Nat) (d : ActionData) (es : List Nat) :
    triggerEvents a d es = d.events.flatMap (fun k => es.map (fun e => mkDelivery a d k e)) := rfl

/-- `ActionData::update` stores the table entry for (previous state, new state), the new state and value -/
theorem update_events (old : ActionData) (t : Tick) (st : AState) (v : Value) :
    (old.update t st v).events = eventsOf old.state st ∧ (old.update t st v).state = st
      ∧ (old.update t st v).value = v := by
  simp [ActionData.update]

/-- (2) For every action configuration (any dimension, any lists of arbitrary condition / modifier machines at both
    levels), reader, `ActionsData`, tick and entity list: one `ActionBind::update` stores data `d` whose events are the
    table entry for (state polled before, new state), whose value has the action's dimension, and delivers exactly
    `d`'s events to every entity — or nothing when an events-only blocker failed (state and value still stored). -/
theorem actionBind_update_deliveries (ab : ActionBind) (r : Reader) (av : ActionsView) (t : Tick) (es : List Nat)
    (o : ActionBind.Out) (h : ab.update r av t es = some o) :
    ∃ old d, av.get? ab.action = some old ∧ o.actions.get? ab.action = some d
      ∧ d.events = eventsOf old.state d.state
      ∧ d.value.dim = ab.dim
      ∧ o.deliveries = (if o.eventsBlocked then [] else triggerEvents ab.action d es) := by
  unfold ActionBind.update at h
  simp only at h
  split at h
  · cases h
  · rename_i old hold
    simp only [Option.some.injEq] at h
    subst h
    refine ⟨old, _, hold, ActionsView.get?_set_same _ _ _ _ hold, ?_, ?_, ?_⟩
    · simp [ActionData.update]
    · simp [ActionData.update, Props_convert_dim]
    · simp
where
  Props_convert_dim : ∀ (v : Value) (d : Dim), (v.convert d).dim = d := by
    intro v d; cases d <;> rfl

/-- other actions' data are left untouched by the update of one action -/
theorem actionBind_update_frame (ab : ActionBind) (r : Reader) (av : ActionsView) (t : Tick) (es : List Nat)
    (o : ActionBind.Out) (h : ab.update r av t es = some o) (b : Nat) (hb : b ≠ ab.action) :
    o.actions.get? b = av.get? b := by
  unfold ActionBind.update at h
  simp only at h
  split at h
  · cases h
  · simp only [Option.some.injEq] at h
    subst h
    exact ActionsView.get?_set_other _ _ _ _ hb

/-- the action id of a binding is not changed by its update -/
theorem actionBind_update_action (ab : ActionBind) (r : Reader) (av : ActionsView) (t : Tick) (es : List Nat)
    (o : ActionBind.Out) (h : ab.update r av t es = some o) : o.bind.action = ab.action ∧ o.bind.dim = ab.dim := by
  unfold ActionBind.update at h
  simp only at h
  split at h
  · cases h
  · simp only [Option.some.injEq] at h
    subst h
    simp

/-- (3) state threading over a whole instance: if the action ids of the bindings are distinct, then after
    `ContextInstance::update` the data polled for each bound action is `old.update …` of the data polled before the
    frame — so the table is always fed the state polled after the previous frame, for histories of any length. -/
theorem loopActions_threads (t : Tick) (es : List Nat) :
    ∀ (bs : List ActionBind) (r : Reader) (av : ActionsView) bs' r' av' dl lg,
      (bs.map (·.action)).Nodup →
      ContextInstance.loopActions r av t es bs = some (bs', r', av', dl, lg) →
      (∀ ab ∈ bs, ∃ old st v, av.get? ab.action = some old ∧ av'.get? ab.action = some (old.update t st v)
          ∧ (old.update t st v).value.dim = ab.dim)
      ∧ (∀ b, b ∉ bs.map (·.action) → av'.get? b = av.get? b) := by
  intro bs
  induction bs with
  | nil =>
    intro r av bs' r' av' dl lg _ h
    simp [ContextInstance.loopActions] at h
    obtain ⟨_, _, rfl, _, _⟩ := h
    simp
  | cons ab rest ih =>
    intro r av bs' r' av' dl lg hnd h
    simp only [ContextInstance.loopActions] at h
    split at h
    · cases h
    · rename_i o ho
      split at h
      · cases h
      · rename_i rest' r'' av'' dl' lg' hrest
        simp only [Option.some.injEq, Prod.mk.injEq] at h
        obtain ⟨_, _, rfl, _, _⟩ := h
        simp only [List.map_cons, List.nodup_cons] at hnd
        obtain ⟨hnotin, hnd'⟩ := hnd
        obtain ⟨ih1, ih2⟩ := ih _ _ _ _ _ _ _ hnd' hrest
        obtain ⟨old, d, hold, hd, hev, hdim, _⟩ := actionBind_update_deliveries ab r av t es o ho
        constructor
        · intro x hx
          rcases List.mem_cons.mp hx with rfl | hx
          · -- the head action: later updates do not touch it
            have := ih2 x.action hnotin
            refine ⟨old, d.state, d.value, hold, ?_, ?_⟩
            · rw [this, hd]
              -- d = old.update t d.state d.value
              unfold ActionBind.update at ho
              simp only at ho
              split at ho
              · cases ho
              · rename_i old' hold'
                simp only [Option.some.injEq] at ho
                subst ho
                rw [hold] at hold'
                cases hold'
                rw [ActionsView.get?_set_same _ _ _ _ hold] at hd
                cases hd
                simp [ActionData.update]
            · simpa [ActionData.update] using hdim
          · obtain ⟨old', st, v, h1, h2, h3⟩ := ih1 x hx
            have hne : x.action ≠ ab.action := by
              intro heq
              exact hnotin (heq ▸ List.mem_map_of_mem hx)
            refine ⟨old', st, v, ?_, h2, h3⟩
            rw [← actionBind_update_frame ab r av t es o ho _ hne]; exact h1
        · intro b hb
          simp only [List.map_cons, List.mem_cons, not_or] at hb
          rw [ih2 b hb.2, actionBind_update_frame ab r av t es o ho _ hb.1]

/-- non-vacuity: a concrete binding whose update delivers `Started` then `Fired` with the polled payload -/
example :
    let ab : ActionBind := { action := 0, dim := .bool, consume := true, accum := .cumulative,
                             bindings := [{ input := .key 0 {}, ignored := false }] }
    let r : Reader := { raw := { keys := [0] } }
    (match ab.update r [(0, ActionData.new .bool)] ⟨1/64, 1⟩ [7] with
     | some o => o.deliveries.map (fun d => (d.entity, d.kind, d.state, d.value))
     | none => []) = [(7, .started, .fired, .bool true), (7, .fired, .fired, .bool true)] := by
  decide

end BEI.Props.C01
