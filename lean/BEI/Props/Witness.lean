/-
  Non-vacuity witnesses: a concrete, non-trivial reachable application state and frames run on it (all by `decide`).
-/
import BEI.Props.C06
import BEI.Props.C07
import BEI.Model.BindSet
namespace BEI.Props.Witness
open BEI

/-- three context types (registered lowest priority first), each binding one consuming Bool action to key 0 -/
def demoSetup : Setup :=
  { types := [{ id := 2, priority := 2, shared := false }, { id := 1, priority := 5, shared := true },
              { id := 0, priority := 9, shared := false }],
    config := fun c _ =>
      ({ } : ContextInstance).bind c .bool true .cumulative
        (fun ab => ab.to (.single { input := .key 0 {} })) }

def ops : List Op := [.spawn 0, .spawn 1, .insert 0 2 0, .insert 1 1 0, .insert 0 0 0, .insert 0 1 0, .remove 1 1]

/-- run operations, `none` if one of them panics -/
def runOps (su : Setup) : AppState → List Op → Option AppState
  | st, [] => some st
  | st, o :: os => match applyOp su st o with
    | some (st', _) => runOps su st' os
    | none => none

theorem runOps_reachable (su : Setup) : ∀ (os : List Op) (st st' : AppState), Reachable su st → runOps su st os = some st' →
    Reachable su st' := by
  intro os
  induction os with
  | nil => intro st st' h hr; simp only [runOps, Option.some.injEq] at hr; subst hr; exact h
  | cons o os ih =>
    intro st st' h hr
    simp only [runOps] at hr
    split at hr
    · rename_i st1 dl hop
      exact ih st1 st' (Reachable.op st o st1 dl h hop) hr
    · cases hr

def demoState : AppState := (runOps demoSetup {} ops).getD {}

theorem demo_runs : runOps demoSetup {} ops = some demoState := by
  have hs : (runOps demoSetup {} ops).isSome = true := by decide
  unfold demoState
  cases h : runOps demoSetup {} ops with
  | none => rw [h] at hs; cases hs
  | some s => rfl

/-- a non-trivial reachable state: three context types inserted lowest priority first on two entities, one shared holder
    removed again — the hypotheses of the theorems over `Reachable` states are satisfiable by more than the empty app -/
theorem demo_reachable : Reachable demoSetup demoState :=
  runOps_reachable demoSetup ops {} demoState Reachable.init demo_runs

/-- … and in it the registry order is by descending priority although the insertion order was ascending -/
example : demoState.reg.map (fun g => g.ty.id) = [0, 1, 2] := by decide

example : SortedDesc demoState.reg := C06.registry_sorted demoSetup demoState demo_reachable

/-- an idle frame first (a fresh binding ignores its input until it has been seen inactive once, C08) … -/
def demoIdle : Option FrameOut := frame demoSetup demoState {} { delta := 0, speed := 1 } [] [] 100
def demoState' : AppState := (demoIdle.map (·.st)).getD {}

theorem demo_reachable' : Reachable demoSetup demoState' := by
  have hs : demoIdle.isSome = true := by decide
  unfold demoState'
  cases h : demoIdle with
  | none => rw [h] at hs; cases hs
  | some o => exact Reachable.frame demoState {} { delta := 0, speed := 1 } [] [] 100 o demo_reachable h

/-- with the key up nothing is delivered (C09: a steady frame delivers no edge events) -/
example : (demoIdle.map (fun o => o.deliveries.length)) = some 0 := by decide

/-- … then one frame with the contested key down: only the highest-priority context's action starts and fires; the key is
    consumed before the shared context (priority 5) and the low exclusive one (priority 2) read it (`higher_priority_wins`) -/
example : ((frame demoSetup demoState' { keys := [0] } { delta := 1 / 64, speed := 1 } [] [] 100).map
      (fun o => o.deliveries.map (fun d => (d.entity, d.action, d.kind)))) =
    some [(0, 0, EvKind.started), (0, 0, EvKind.fired)] := by decide

/-- the state after the frame in which the contested key went down (the top context's action is Fired) -/
def demoPressed : AppState :=
  ((frame demoSetup demoState' { keys := [0] } { delta := 1 / 64, speed := 1 } [] [] 100).map (·.st)).getD {}

/-- removing the top context while its action is Fired closes the episode with exactly one `Completed` (state None, zero
    value) addressed to the leaving entity, and the lookup fails afterwards (C02 `remove_closes`, C07) -/
def closing (p : AppState × List Delivery) : List (Nat × EvKind × AState × Value) :=
  p.2.map (fun d => (d.entity, d.kind, d.state, d.value))

example : ((applyOp demoSetup demoPressed (.remove 0 0)).map closing) =
    some [(0, EvKind.completed, AState.none, Value.bool false)] := by decide

example : ((applyOp demoSetup demoPressed (.remove 0 0)).map (fun p => (p.1.reg.get 0 0).isSome)) = some false := by decide

/-- a rebuild closes it as well, and the rebuilt instance ignores the still-held key (C08) -/
def kinds (p : AppState × List Delivery) : List (Nat × Nat × EvKind) := p.2.map (fun d => (d.entity, d.action, d.kind))

example : ((applyOp demoSetup demoPressed .rebuild).map kinds) = some [(0, 0, EvKind.completed)] := by decide

/-- one shared context type held by two entities -/
def shareSetup : Setup :=
  { types := [{ id := 1, priority := 5, shared := true }],
    config := fun c _ =>
      ({ } : ContextInstance).bind c .a1 false .cumulative (fun ab => ab.to (.single { input := .key 0 {} })) }

def shareState : AppState := (runOps shareSetup {} [.spawn 0, .spawn 1, .insert 0 1 0, .insert 1 1 0]).getD {}
def shareIdle : AppState := ((frame shareSetup shareState {} { delta := 0, speed := 1 } [] [] 100).map (·.st)).getD {}

def recipients (o : FrameOut) : List (Nat × EvKind × Value) := o.deliveries.map (fun d => (d.entity, d.kind, d.value))

/-- C14: every event of the frame goes to both holders, once each, with the same payload (in the action's dimension, C01) -/
example : ((frame shareSetup shareIdle { keys := [0] } { delta := 1 / 64, speed := 1 } [] [] 100).map recipients) =
    some [(0, .started, .a1 1), (1, .started, .a1 1), (0, .fired, .a1 1), (1, .fired, .a1 1)] := by decide

/-- C10: two more held frames of 1/64 s and 1/32 s: elapsed and fired durations of the Fired events are the sums of the
    virtual deltas since the action left None -/
def held1 : AppState := ((frame shareSetup shareIdle { keys := [0] } { delta := 1 / 64, speed := 1 } [] [] 100).map (·.st)).getD {}
def held2 : AppState := ((frame shareSetup held1 { keys := [0] } { delta := 1 / 64, speed := 1 } [] [] 100).map (·.st)).getD {}

def durations (o : FrameOut) : List (Nat × EvKind × Option Rat × Option Rat) :=
  o.deliveries.map (fun d => (d.entity, d.kind, d.elapsed, d.fired))

example : ((frame shareSetup held2 { keys := [0] } { delta := 1 / 32, speed := 1 } [] [] 100).map durations) =
    some [(0, .fired, some (3 / 64), some (3 / 64)), (1, .fired, some (3 / 64), some (3 / 64))] := by decide +kernel

end BEI.Props.Witness
