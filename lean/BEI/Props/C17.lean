/-
  C17 — Input-disjoint contexts do not interfere; evaluation is deterministic.

  Determinism of the model is by construction (everything is a function); for the implementation it is part of the
  correspondence (every scenario is run twice in separate processes and must print identical traces).

  Non-interference is proved as a simulation: first for one action evaluation and the consumption it performs
  (`Agree`), then lifted over context instances, groups and the whole registry for arbitrary interleavings of kept and
  deleted (input-disjoint) context types (`registry_noninterference`). The pairwise run comparison of the check
  exercises the same statement on the real crate.
-/
import BEI.Props.C05
import BEI.Props.C12
import BEI.Proofs.Reg
namespace BEI.Props.C17
open BEI

/-- two readers (with the same gamepad selection) are indistinguishable on a set `J` of inputs -/
def Agree (J : List Input) (r r' : Reader) : Prop :=
  r.device = r'.device ∧ ∀ j ∈ J, r.value j = r'.value j ∧ r.activeUnconsumed j = r'.activeUnconsumed j

theorem Agree.refl (J : List Input) (r : Reader) : Agree J r r := ⟨rfl, fun _ _ => ⟨rfl, rfl⟩⟩

/-- an input evaluation depends on the reader only through the reading and the physical activity of its own input -/
theorem evalInput_congr (r r' : Reader) (av : ActionsView) (t : Tick) (b : InputBind)
    (hv : r.value b.input = r'.value b.input) (ha : r.activeUnconsumed b.input = r'.activeUnconsumed b.input) :
    evalInput r av t b = evalInput r' av t b := by
  simp [evalInput, hv, ha]

/-- (1) an action evaluated against two readers that agree on its bound inputs computes the same data, deliveries,
    invocation log and consumes the same inputs — activity on any other input is invisible to it -/
theorem update_congr (ab : ActionBind) (r r' : Reader) (av : ActionsView) (t : Tick) (es : List Nat)
    (h : ∀ b ∈ ab.bindings, r.value b.input = r'.value b.input ∧ r.activeUnconsumed b.input = r'.activeUnconsumed b.input) :
    (ab.update r av t es).map (fun o => (o.actions, o.deliveries, o.log, o.consumed, o.eventsBlocked))
      = (ab.update r' av t es).map (fun o => (o.actions, o.deliveries, o.log, o.consumed, o.eventsBlocked)) := by
  have hloop : ∀ (bs : List InputBind) (acc : LoopAcc),
      (∀ b ∈ bs, r.value b.input = r'.value b.input ∧ r.activeUnconsumed b.input = r'.activeUnconsumed b.input) →
      ab.loopInputs r av t acc bs = ab.loopInputs r' av t acc bs := by
    intro bs
    induction bs with
    | nil => intro acc _; rfl
    | cons b bs ih =>
      intro acc hb
      simp only [ActionBind.loopInputs, stepInput_eq]
      rw [evalInput_congr r r' av t b (hb b (by simp)).1 (hb b (by simp)).2]
      cases (evalInput r' av t b).2.1 with
      | none => simp only; rw [ih _ (fun x hx => hb x (by simp [hx]))]
      | some e => simp only; rw [ih _ (fun x hx => hb x (by simp [hx]))]
  unfold ActionBind.update
  simp only
  rw [hloop ab.bindings _ h]
  cases av.get? ab.action <;> rfl

/-- what an action consumes are inputs it binds — so a context can only ever hide inputs in its own footprint -/
theorem consumed_subset_bound (ab : ActionBind) (r : Reader) (av : ActionsView) (t : Tick) (es : List Nat)
    (o : ActionBind.Out) (h : ab.update r av t es = some o) : ∀ i ∈ o.consumed, i ∈ ab.bindings.map (·.input) := by
  obtain ⟨d, _, hcons, _⟩ := C05.update_consumes ab r av t es o h
  intro i hi
  rw [hcons] at hi
  split at hi
  · simp only [List.mem_map] at hi ⊢
    obtain ⟨e, he, rfl⟩ := hi
    have hmem : e ∈ evalAll r av t ab.bindings := (List.mem_filter.mp he).1
    simp only [evalAll, List.mem_filterMap] at hmem
    obtain ⟨b, hb, hbe⟩ := hmem
    exact ⟨b, hb, (evalInput_spec r av t b e hbe).1.symm⟩
  · simp at hi

/-- consuming the same input on both sides keeps the readers indistinguishable: a reading is either masked by the newly
    consumed input on both sides, or unchanged on both sides -/
theorem agree_consume_both (J : List Input) (r r' : Reader) (i : Input) (h : Agree J r r') :
    Agree J (r.consume i) (r'.consume i) := by
  obtain ⟨hdev, hj⟩ := h
  refine ⟨by rw [C05.consume_device, C05.consume_device, hdev], ?_⟩
  intro j hjm
  obtain ⟨h1, h2⟩ := hj j hjm
  constructor
  · cases hh : C05.hides i j
    · rw [C05.consume_keeps r i j hh, C05.consume_keeps r' i j hh, h1]
    · rw [C05.hidden_reads_inactive _ _ (C05.consume_hides r i j hh), C05.hidden_reads_inactive _ _ (C05.consume_hides r' i j hh)]
  · rw [C12.activeUnconsumed_consume, C12.activeUnconsumed_consume, h2]

/-- (2) consumption by a context whose inputs are disjoint from `J` — no shared key, button, motion, wheel, gamepad
    input or modifier key — is invisible on `J` -/
theorem agree_consume_disjoint (J : List Input) (r r' : Reader) (i : Input) (hdis : ∀ j ∈ J, C05.hides i j = false)
    (h : Agree J r r') : Agree J (r.consume i) r' := by
  obtain ⟨hdev, hj⟩ := h
  refine ⟨by rw [C05.consume_device, hdev], ?_⟩
  intro j hjm
  obtain ⟨h1, h2⟩ := hj j hjm
  exact ⟨by rw [C05.consume_keeps r i j (hdis j hjm), h1], by rw [C12.activeUnconsumed_consume, h2]⟩

theorem agree_foldl_disjoint (J : List Input) (is : List Input) (hdis : ∀ i ∈ is, ∀ j ∈ J, C05.hides i j = false) :
    ∀ (r r' : Reader), Agree J r r' → Agree J (is.foldl Reader.consume r) r' := by
  induction is with
  | nil => intro r r' h; exact h
  | cons i is ih =>
    intro r r' h
    exact ih (fun x hx => hdis x (by simp [hx])) _ _ (agree_consume_disjoint J r r' i (hdis i (by simp)) h)

theorem agree_foldl_both (J : List Input) (is : List Input) :
    ∀ (r r' : Reader), Agree J r r' → Agree J (is.foldl Reader.consume r) (is.foldl Reader.consume r') := by
  induction is with
  | nil => intro r r' h; exact h
  | cons i is ih => intro r r' h; exact ih _ _ (agree_consume_both J r r' i h)

/-- (3) one action of a kept context, evaluated against two readers that agree on the kept contexts' inputs `J`
    (which include its own): same results, and the readers agree on `J` again afterwards -/
theorem kept_action_step (J : List Input) (ab : ActionBind) (r r' : Reader) (av : ActionsView) (t : Tick) (es : List Nat)
    (hJ : ∀ b ∈ ab.bindings, b.input ∈ J) (h : Agree J r r') (o o' : ActionBind.Out)
    (ho : ab.update r av t es = some o) (ho' : ab.update r' av t es = some o') :
    o.actions = o'.actions ∧ o.deliveries = o'.deliveries ∧ o.log = o'.log ∧ Agree J o.reader o'.reader := by
  have hc := update_congr ab r r' av t es (fun b hb => h.2 b.input (hJ b hb))
  rw [ho, ho'] at hc
  simp only [Option.map_some, Option.some.injEq, Prod.mk.injEq] at hc
  obtain ⟨h1, h2, h3, h4, _⟩ := hc
  refine ⟨h1, h2, h3, ?_⟩
  obtain ⟨_, _, _, hr, _⟩ := C05.update_consumes ab r av t es o ho
  obtain ⟨_, _, _, hr', _⟩ := C05.update_consumes ab r' av t es o' ho'
  rw [hr, hr', h4]
  exact agree_foldl_both J _ _ _ h

/-- (4) one action of a deleted, input-disjoint context run on the left only: whatever it does, the readers still agree
    on the kept contexts' inputs -/
theorem disjoint_action_step (J : List Input) (ab : ActionBind) (r r' : Reader) (av : ActionsView) (t : Tick) (es : List Nat)
    (hdis : ∀ b ∈ ab.bindings, ∀ j ∈ J, C05.hides b.input j = false) (h : Agree J r r') (o : ActionBind.Out)
    (ho : ab.update r av t es = some o) : Agree J o.reader r' := by
  obtain ⟨_, _, _, hr, _⟩ := C05.update_consumes ab r av t es o ho
  rw [hr]
  apply agree_foldl_disjoint J _ _ _ _ h
  intro i hi j hj
  have := consumed_subset_bound ab r av t es o ho i hi
  simp only [List.mem_map] at this
  obtain ⟨b, hb, rfl⟩ := this
  exact hdis b hb j hj

/-- activity on inputs nobody binds: raw states that agree on the keys a binding names read the same (C15.key_congr),
    and a frame's result is a function of the raw input, the tick and the previous state — re-running gives the same trace -/
theorem deterministic (su : Setup) (st : AppState) (raw : RawInput) (t : Tick) (reacts : Reactions) (posts : List Op) (fuel : Nat) :
    ∀ o1 o2, frame su st raw t reacts posts fuel = some o1 → frame su st raw t reacts posts fuel = some o2 →
      o1.deliveries = o2.deliveries ∧ o1.log = o2.log := by
  intro o1 o2 h1 h2
  rw [h1] at h2
  cases h2
  exact ⟨rfl, rfl⟩

/-! ## lifting the simulation over context instances, groups and the whole registry -/

/-- `i`, consumed while the reader's gamepad selection was `dev`, masks `j` when read under selection `d` -/
def hidesAt (dev d : Device) (i j : Input) : Bool :=
  match i, j with
  | .padBtn b, .padBtn b' => b == b' && dev == d
  | .padAxis x, .padAxis x' => x == x' && dev == d
  | _, _ => C05.hides i j

theorem setGamepad_setGamepad (r : Reader) (d d' : Device) : (r.setGamepad d).setGamepad d' = r.setGamepad d' := rfl
theorem setGamepad_self (r : Reader) : r.setGamepad r.device = r := rfl

/-- reading `j` under selection `d` after `i` was consumed under the reader's own selection -/
theorem value_after_consume (r : Reader) (i j : Input) (d : Device) :
    ((r.consume i).setGamepad d).value j =
      (if hidesAt r.device d i j then C05.inactive j else (r.setGamepad d).value j) := by
  by_cases hdev : r.device = d
  · -- same selection: consuming commutes with selecting, and `hidesAt` is `hides`
    have hcomm : (r.consume i).setGamepad d = (r.setGamepad d).consume i := by
      subst hdev; cases i <;> rfl
    have hh : hidesAt r.device d i j = C05.hides i j := by
      subst hdev
      cases i <;> cases j <;> simp [hidesAt, C05.hides, C05.sameSource, C05.modsOf, ModKeys.intersects]
    rw [hcomm, hh]
    cases hhid : C05.hides i j
    · simp only [Bool.false_eq_true, if_false]; exact C05.consume_keeps _ i j hhid
    · simp only [if_true]
      exact C05.hidden_reads_inactive _ _ (C05.consume_hides (r.setGamepad d) i j hhid)
  · have hne : ¬ (d = r.device) := fun h => hdev h.symm
    have hdev' : (r.device == d) = false := by simpa using hdev
    -- keyboard / mouse inputs: consuming commutes with selecting a gamepad
    have nonpad : ∀ i, (∀ b, i ≠ .padBtn b) → (∀ x, i ≠ .padAxis x) →
        ((r.consume i).setGamepad d).value j = (if hidesAt r.device d i j then C05.inactive j else (r.setGamepad d).value j) := by
      intro i h1 h2
      have hcomm : (r.consume i).setGamepad d = (r.setGamepad d).consume i := by
        cases i <;> first | rfl | exact absurd rfl (h1 _) | exact absurd rfl (h2 _)
      have hh : hidesAt r.device d i j = C05.hides i j := by
        cases i <;> first | (cases j <;> rfl) | exact absurd rfl (h1 _) | exact absurd rfl (h2 _)
      rw [hcomm, hh]
      cases hhid : C05.hides i j
      · simp only [Bool.false_eq_true, if_false]; exact C05.consume_keeps _ i j hhid
      · simp only [if_true]
        exact C05.hidden_reads_inactive _ _ (C05.consume_hides (r.setGamepad d) i j hhid)
    cases i with
    | key k m => exact nonpad _ (by intro b h; cases h) (by intro x h; cases h)
    | mbtn k m => exact nonpad _ (by intro b h; cases h) (by intro x h; cases h)
    | motion m => exact nonpad _ (by intro b h; cases h) (by intro x h; cases h)
    | wheel m => exact nonpad _ (by intro b h; cases h) (by intro x h; cases h)
    | padBtn b =>
      cases j <;> first | rfl | simp [hidesAt, hdev', C05.hides, C05.sameSource, C05.modsOf, ModKeys.intersects, Reader.consume,
        Reader.setGamepad, Reader.value, Reader.modKeysPressed, Reader.modsDown, Reader.findPad, List.contains_cons, hne]
    | padAxis x =>
      cases j <;> first | rfl | simp [hidesAt, hdev', C05.hides, C05.sameSource, C05.modsOf, ModKeys.intersects, Reader.consume,
        Reader.setGamepad, Reader.value, Reader.modKeysPressed, Reader.modsDown, Reader.findPad, List.contains_cons, hne]

theorem active_after_consume (r : Reader) (i j : Input) (d : Device) :
    ((r.consume i).setGamepad d).activeUnconsumed j = (r.setGamepad d).activeUnconsumed j := by
  cases i <;> cases j <;> rfl

/-- the readers of the two runs are indistinguishable on the kept contexts' inputs `J` under every gamepad selection a kept
    context uses (`Ds`) -/
def AgreeOn (J : List Input) (Ds : List Device) (r r' : Reader) : Prop :=
  ∀ d ∈ Ds, ∀ j ∈ J, (r.setGamepad d).value j = (r'.setGamepad d).value j
    ∧ (r.setGamepad d).activeUnconsumed j = (r'.setGamepad d).activeUnconsumed j

theorem AgreeOn.refl (J : List Input) (Ds : List Device) (r : Reader) : AgreeOn J Ds r r := fun _ _ _ _ => ⟨rfl, rfl⟩

theorem AgreeOn.setGamepad (J : List Input) (Ds : List Device) (r r' : Reader) (d1 d2 : Device) (h : AgreeOn J Ds r r') :
    AgreeOn J Ds (r.setGamepad d1) (r'.setGamepad d2) := fun d hd j hj => h d hd j hj

/-- both runs consume the same input under the same gamepad selection -/
theorem agreeOn_consume_both (J : List Input) (Ds : List Device) (r r' : Reader) (i : Input) (hdev : r.device = r'.device)
    (h : AgreeOn J Ds r r') : AgreeOn J Ds (r.consume i) (r'.consume i) := by
  intro d hd j hj
  obtain ⟨h1, h2⟩ := h d hd j hj
  refine ⟨?_, by rw [active_after_consume, active_after_consume, h2]⟩
  rw [value_after_consume, value_after_consume, hdev, h1]

/-- only the run with the extra (deleted) contexts consumes `i`; it masks none of the kept inputs under any kept selection -/
theorem agreeOn_consume_left (J : List Input) (Ds : List Device) (r r' : Reader) (i : Input)
    (hdis : ∀ d ∈ Ds, ∀ j ∈ J, hidesAt r.device d i j = false) (h : AgreeOn J Ds r r') : AgreeOn J Ds (r.consume i) r' := by
  intro d hd j hj
  obtain ⟨h1, h2⟩ := h d hd j hj
  refine ⟨?_, by rw [active_after_consume, h2]⟩
  rw [value_after_consume, hdis d hd j hj]
  simpa using h1

theorem agreeOn_foldl_both (J : List Input) (Ds : List Device) (is : List Input) :
    ∀ (r r' : Reader), r.device = r'.device → AgreeOn J Ds r r' →
      AgreeOn J Ds (is.foldl Reader.consume r) (is.foldl Reader.consume r')
      ∧ (is.foldl Reader.consume r).device = (is.foldl Reader.consume r').device := by
  induction is with
  | nil => intro r r' hd h; exact ⟨h, hd⟩
  | cons i is ih =>
    intro r r' hd h
    exact ih _ _ (by rw [C05.consume_device, C05.consume_device, hd]) (agreeOn_consume_both J Ds r r' i hd h)

theorem agreeOn_foldl_left (J : List Input) (Ds : List Device) (is : List Input) :
    ∀ (r r' : Reader), (∀ i ∈ is, ∀ d ∈ Ds, ∀ j ∈ J, hidesAt r.device d i j = false) → AgreeOn J Ds r r' →
      AgreeOn J Ds (is.foldl Reader.consume r) r' := by
  induction is with
  | nil => intro r r' _ h; exact h
  | cons i is ih =>
    intro r r' hdis h
    apply ih
    · intro x hx d hd j hj
      rw [C05.consume_device]
      exact hdis x (by simp [hx]) d hd j hj
    · exact agreeOn_consume_left J Ds r r' i (hdis i (by simp)) h

/-- an action evaluated against two readers that agree on its inputs: the *whole* result is the same, except that each
    run consumes (the same inputs) from its own reader -/
theorem update_congr_full (ab : ActionBind) (r r' : Reader) (av : ActionsView) (t : Tick) (es : List Nat)
    (h : ∀ b ∈ ab.bindings, r.value b.input = r'.value b.input ∧ r.activeUnconsumed b.input = r'.activeUnconsumed b.input)
    (o : ActionBind.Out) (ho : ab.update r av t es = some o) :
    ab.update r' av t es = some { o with reader := o.consumed.foldl Reader.consume r' }
    ∧ o.reader = o.consumed.foldl Reader.consume r := by
  have hloop : ∀ (bs : List InputBind) (acc : LoopAcc),
      (∀ b ∈ bs, r.value b.input = r'.value b.input ∧ r.activeUnconsumed b.input = r'.activeUnconsumed b.input) →
      ab.loopInputs r av t acc bs = ab.loopInputs r' av t acc bs := by
    intro bs
    induction bs with
    | nil => intro acc _; rfl
    | cons b bs ih =>
      intro acc hb
      simp only [ActionBind.loopInputs, stepInput_eq]
      rw [evalInput_congr r r' av t b (hb b (by simp)).1 (hb b (by simp)).2]
      cases (evalInput r' av t b).2.1 with
      | none => simp only; rw [ih _ (fun x hx => hb x (by simp [hx]))]
      | some e => simp only; rw [ih _ (fun x hx => hb x (by simp [hx]))]
  unfold ActionBind.update at ho ⊢
  simp only at ho ⊢
  rw [← hloop ab.bindings _ h]
  split at ho
  · cases ho
  · rename_i old hold
    simp only [Option.some.injEq] at ho
    subst ho
    simp only [hold]
    exact ⟨trivial, trivial⟩

/-- the action loop of a kept context, run against two agreeing readers with the same (kept) gamepad selection -/
theorem kept_loop (J : List Input) (Ds : List Device) (t : Tick) (es : List Nat) :
    ∀ (bs : List ActionBind) (x x' : Reader) (av : ActionsView) bs1 x1 av1 dl lg,
      (∀ ab ∈ bs, ∀ b ∈ ab.bindings, b.input ∈ J) → x.device = x'.device → x.device ∈ Ds → AgreeOn J Ds x x' →
      ContextInstance.loopActions x av t es bs = some (bs1, x1, av1, dl, lg) →
      ∃ x1', ContextInstance.loopActions x' av t es bs = some (bs1, x1', av1, dl, lg)
        ∧ x1.device = x1'.device ∧ AgreeOn J Ds x1 x1' := by
  intro bs
  induction bs with
  | nil =>
    intro x x' av bs1 x1 av1 dl lg _ hd _ h hl
    simp only [ContextInstance.loopActions, Option.some.injEq, Prod.mk.injEq] at hl
    obtain ⟨rfl, rfl, rfl, rfl, rfl⟩ := hl
    exact ⟨x', rfl, hd, h⟩
  | cons ab rest ih =>
    intro x x' av bs1 x1 av1 dl lg hJ hd hDs h hl
    simp only [ContextInstance.loopActions] at hl
    split at hl
    · cases hl
    · rename_i o ho
      split at hl
      · cases hl
      · rename_i rest1 x2 av2 dl2 lg2 hrest
        simp only [Option.some.injEq, Prod.mk.injEq] at hl
        obtain ⟨rfl, rfl, rfl, rfl, rfl⟩ := hl
        have hag : ∀ b ∈ ab.bindings, x.value b.input = x'.value b.input ∧ x.activeUnconsumed b.input = x'.activeUnconsumed b.input := by
          intro b hb
          have := h x.device hDs b.input (hJ ab (by simp) b hb)
          have e1 : x.setGamepad x.device = x := rfl
          have e2 : x'.setGamepad x.device = x' := by rw [hd]; rfl
          rw [e1, e2] at this
          exact this
        obtain ⟨ho', hreader⟩ := update_congr_full ab x x' av t es hag o ho
        obtain ⟨hboth, hdev2⟩ := agreeOn_foldl_both J Ds o.consumed x x' hd h
        have hdsafter : (o.consumed.foldl Reader.consume x).device ∈ Ds := by rw [C05.foldl_consume_device]; exact hDs
        rw [← hreader] at hboth hdev2 hdsafter
        obtain ⟨x1', hl', hd', hag'⟩ := ih o.reader (o.consumed.foldl Reader.consume x') o.actions _ _ _ _ _
          (fun a ha => hJ a (by simp [ha])) hdev2 hdsafter hboth hrest
        refine ⟨x1', ?_, hd', hag'⟩
        simp only [ContextInstance.loopActions, ho', hl']

/-- the inputs a context instance binds -/
def instInputs (ci : ContextInstance) : List Input := ci.bindings.flatMap (fun ab => ab.bindings.map (·.input))

theorem mem_instInputs (ci : ContextInstance) (ab : ActionBind) (b : InputBind) (ha : ab ∈ ci.bindings) (hb : b ∈ ab.bindings) :
    b.input ∈ instInputs ci := by
  simp only [instInputs, List.mem_flatMap, List.mem_map]
  exact ⟨ab, ha, b, hb, rfl⟩

/-- the action loop of a deleted (input-disjoint) context, run on the left only -/
theorem deleted_loop (J : List Input) (Ds : List Device) (t : Tick) (es : List Nat) (x' : Reader) (dev : Device) :
    ∀ (bs : List ActionBind) (x : Reader) (av : ActionsView) bs1 x1 av1 dl lg,
      x.device = dev →
      (∀ ab ∈ bs, ∀ b ∈ ab.bindings, ∀ d ∈ Ds, ∀ j ∈ J, hidesAt dev d b.input j = false) → AgreeOn J Ds x x' →
      ContextInstance.loopActions x av t es bs = some (bs1, x1, av1, dl, lg) →
      x1.device = dev ∧ AgreeOn J Ds x1 x' := by
  intro bs
  induction bs with
  | nil =>
    intro x av bs1 x1 av1 dl lg hd _ h hl
    simp only [ContextInstance.loopActions, Option.some.injEq, Prod.mk.injEq] at hl
    obtain ⟨_, rfl, _, _, _⟩ := hl
    exact ⟨hd, h⟩
  | cons ab rest ih =>
    intro x av bs1 x1 av1 dl lg hd hdis h hl
    simp only [ContextInstance.loopActions] at hl
    split at hl
    · cases hl
    · rename_i o ho
      split at hl
      · cases hl
      · rename_i rest1 x2 av2 dl2 lg2 hrest
        simp only [Option.some.injEq, Prod.mk.injEq] at hl
        obtain ⟨_, rfl, _, _, _⟩ := hl
        obtain ⟨_, _, _, hreader, _⟩ := C05.update_consumes ab x av t es o ho
        have hsub := consumed_subset_bound ab x av t es o ho
        have hleft : AgreeOn J Ds o.reader x' := by
          rw [hreader]
          apply agreeOn_foldl_left J Ds _ _ _ _ h
          intro i hi d hdd j hj
          obtain ⟨b, hb, rfl⟩ := List.mem_map.mp (hsub i hi)
          rw [hd]
          exact hdis ab (by simp) b hb d hdd j hj
        have hdev : o.reader.device = dev := by rw [hreader, C05.foldl_consume_device, hd]
        exact ih o.reader o.actions _ _ _ _ _ hdev (fun a ha => hdis a (by simp [ha])) hleft hrest

/-- a kept context instance evaluated in both runs: identical new instance, deliveries and invocation log -/
theorem kept_instance (J : List Input) (Ds : List Device) (ci : ContextInstance) (r r' : Reader) (t : Tick) (es : List Nat)
    (hJ : ∀ i ∈ instInputs ci, i ∈ J) (hDs : ci.gamepad ∈ Ds) (h : AgreeOn J Ds r r')
    (o : ContextInstance.Out) (ho : ci.update r t es = some o) :
    ∃ o', ci.update r' t es = some o' ∧ o'.inst = o.inst ∧ o'.deliveries = o.deliveries ∧ o'.log = o.log
      ∧ AgreeOn J Ds o.reader o'.reader := by
  unfold ContextInstance.update at ho ⊢
  split at ho
  · cases ho
  · rename_i bs1 x1 av1 dl lg hl
    simp only [Option.some.injEq] at ho
    subst ho
    obtain ⟨x1', hl', _, hag⟩ := kept_loop J Ds t es ci.bindings (r.setGamepad ci.gamepad) (r'.setGamepad ci.gamepad) ci.actions
      _ _ _ _ _ (fun ab ha b hb => hJ _ (mem_instInputs ci ab b ha hb)) rfl hDs (h.setGamepad J Ds r r' _ _) hl
    exact ⟨{ inst := { ci with bindings := bs1, actions := av1 }, reader := x1', deliveries := dl, log := lg },
      by simp only [hl'], rfl, rfl, rfl, hag⟩

/-- a deleted context instance evaluated in the left run only leaves the readers indistinguishable on the kept inputs -/
theorem deleted_instance (J : List Input) (Ds : List Device) (ci : ContextInstance) (r r' : Reader) (t : Tick) (es : List Nat)
    (hdis : ∀ i ∈ instInputs ci, ∀ d ∈ Ds, ∀ j ∈ J, hidesAt ci.gamepad d i j = false) (h : AgreeOn J Ds r r')
    (o : ContextInstance.Out) (ho : ci.update r t es = some o) : AgreeOn J Ds o.reader r' := by
  unfold ContextInstance.update at ho
  split at ho
  · cases ho
  · rename_i bs1 x1 av1 dl lg hl
    simp only [Option.some.injEq] at ho
    subst ho
    exact (deleted_loop J Ds t es r' ci.gamepad ci.bindings (r.setGamepad ci.gamepad) ci.actions _ _ _ _ _ rfl
      (fun ab ha b hb d hd j hj => hdis _ (mem_instInputs ci ab b ha hb) d hd j hj)
      (fun d hd j hj => h d hd j hj) hl).2

/-! ### lifting over the registry -/

/-- the update of one group -/
def groupStep (t : Tick) (r : Reader) : Group → Option (Group × Reader × List Delivery × List Inv)
  | .exclusive ty is =>
    match Registry.updateExclusive r t is with
    | none => none
    | some (is', r', dl, lg) => some (.exclusive ty is', r', dl, lg)
  | .shared ty es ctx =>
    match ctx.update r t es with
    | none => none
    | some oc => some (.shared ty es oc.inst, oc.reader, oc.deliveries, oc.log)

theorem update_cons (t : Tick) (r : Reader) (g : Group) (rest : Registry) :
    Registry.update r t (g :: rest) =
      match groupStep t r g with
      | none => none
      | some (g', r1, dl, lg) =>
        match Registry.update r1 t rest with
        | none => none
        | some o => some { o with reg := g' :: o.reg, deliveries := dl ++ o.deliveries, log := lg ++ o.log } := by
  cases g with
  | exclusive ty is =>
    simp only [Registry.update, groupStep]
    cases Registry.updateExclusive r t is with
    | none => rfl
    | some x => obtain ⟨a, b, c, d⟩ := x; rfl
  | shared ty es ctx =>
    simp only [Registry.update, groupStep]
    cases ctx.update r t es <;> rfl

/-- which groups are kept is decided by the context type -/
def keepG (keep : Nat → Bool) (g : Group) : Bool := keep g.ty.id

/-- what the kept contexts deliver and invoke in the full run -/
def keptRun (keep : Nat → Bool) (t : Tick) : Reader → Registry → List Delivery × List Inv
  | _, [] => ([], [])
  | r, g :: rest =>
    match groupStep t r g with
    | none => ([], [])
    | some (_, r1, dl, lg) =>
      let rec' := keptRun keep t r1 rest
      if keepG keep g then (dl ++ rec'.1, lg ++ rec'.2) else rec'

theorem groupStep_ty (t : Tick) (r : Reader) (g g' : Group) (r1 : Reader) (dl : List Delivery) (lg : List Inv)
    (h : groupStep t r g = some (g', r1, dl, lg)) : g'.ty = g.ty := by
  cases g with
  | exclusive ty is =>
    simp only [groupStep] at h
    split at h
    · cases h
    · simp only [Option.some.injEq, Prod.mk.injEq] at h; rw [← h.1]; rfl
  | shared ty es ctx =>
    simp only [groupStep] at h
    split at h
    · cases h
    · simp only [Option.some.injEq, Prod.mk.injEq] at h; rw [← h.1]; rfl

theorem kept_exclusive (J : List Input) (Ds : List Device) (t : Tick) :
    ∀ (is : List (Nat × ContextInstance)) (r r' : Reader) is1 r1 dl lg,
      (∀ p ∈ is, (∀ i ∈ instInputs p.2, i ∈ J) ∧ p.2.gamepad ∈ Ds) → AgreeOn J Ds r r' →
      Registry.updateExclusive r t is = some (is1, r1, dl, lg) →
      ∃ r1', Registry.updateExclusive r' t is = some (is1, r1', dl, lg) ∧ AgreeOn J Ds r1 r1' := by
  intro is
  induction is with
  | nil =>
    intro r r' is1 r1 dl lg _ h hu
    simp only [Registry.updateExclusive, Option.some.injEq, Prod.mk.injEq] at hu
    obtain ⟨rfl, rfl, rfl, rfl⟩ := hu
    exact ⟨r', rfl, h⟩
  | cons p ps ih =>
    intro r r' is1 r1 dl lg hk h hu
    obtain ⟨e, ctx⟩ := p
    simp only [Registry.updateExclusive] at hu
    split at hu
    · cases hu
    · rename_i o ho
      split at hu
      · cases hu
      · rename_i rest1 r2 dl2 lg2 hrest
        simp only [Option.some.injEq, Prod.mk.injEq] at hu
        obtain ⟨rfl, rfl, rfl, rfl⟩ := hu
        obtain ⟨o', ho', hi, hd, hl, hag⟩ := kept_instance J Ds ctx r r' t [e] (hk (e, ctx) (by simp)).1 (hk (e, ctx) (by simp)).2 h o ho
        obtain ⟨r1', hr', hag'⟩ := ih o.reader o'.reader _ _ _ _ (fun q hq => hk q (by simp [hq])) hag hrest
        refine ⟨r1', ?_, hag'⟩
        simp only [Registry.updateExclusive, ho', hr', hi, hd, hl]

theorem deleted_exclusive (J : List Input) (Ds : List Device) (t : Tick) (r' : Reader) :
    ∀ (is : List (Nat × ContextInstance)) (r : Reader) is1 r1 dl lg,
      (∀ p ∈ is, ∀ i ∈ instInputs p.2, ∀ d ∈ Ds, ∀ j ∈ J, hidesAt p.2.gamepad d i j = false) → AgreeOn J Ds r r' →
      Registry.updateExclusive r t is = some (is1, r1, dl, lg) → AgreeOn J Ds r1 r' := by
  intro is
  induction is with
  | nil =>
    intro r is1 r1 dl lg _ h hu
    simp only [Registry.updateExclusive, Option.some.injEq, Prod.mk.injEq] at hu
    obtain ⟨_, rfl, _, _⟩ := hu
    exact h
  | cons p ps ih =>
    intro r is1 r1 dl lg hk h hu
    obtain ⟨e, ctx⟩ := p
    simp only [Registry.updateExclusive] at hu
    split at hu
    · cases hu
    · rename_i o ho
      split at hu
      · cases hu
      · rename_i rest1 r2 dl2 lg2 hrest
        simp only [Option.some.injEq, Prod.mk.injEq] at hu
        obtain ⟨_, rfl, _, _⟩ := hu
        have := deleted_instance J Ds ctx r r' t [e] (hk (e, ctx) (by simp)) h o ho
        exact ih o.reader _ _ _ _ (fun q hq => hk q (by simp [hq])) this hrest

/-- the kept contexts' inputs and gamepad selections are inside `J` / `Ds` -/
def KeptOK (J : List Input) (Ds : List Device) (g : Group) : Prop :=
  ∀ ci ∈ g.instances, (∀ i ∈ instInputs ci, i ∈ J) ∧ ci.gamepad ∈ Ds

/-- a deleted context is input-disjoint from the kept ones: under no kept gamepad selection does any of its inputs mask a
    kept input (no shared key, button, motion, wheel or modifier key; gamepad inputs only under a different selection) -/
def DeletedOK (J : List Input) (Ds : List Device) (g : Group) : Prop :=
  ∀ ci ∈ g.instances, ∀ i ∈ instInputs ci, ∀ d ∈ Ds, ∀ j ∈ J, hidesAt ci.gamepad d i j = false

theorem kept_group (J : List Input) (Ds : List Device) (t : Tick) (g : Group) (r r' : Reader) (hk : KeptOK J Ds g)
    (h : AgreeOn J Ds r r') (g1 : Group) (r1 : Reader) (dl : List Delivery) (lg : List Inv)
    (hs : groupStep t r g = some (g1, r1, dl, lg)) :
    ∃ r1', groupStep t r' g = some (g1, r1', dl, lg) ∧ AgreeOn J Ds r1 r1' := by
  cases g with
  | exclusive ty is =>
    simp only [groupStep] at hs ⊢
    split at hs
    · cases hs
    · rename_i is1 r2 dl2 lg2 hu
      simp only [Option.some.injEq, Prod.mk.injEq] at hs
      obtain ⟨rfl, rfl, rfl, rfl⟩ := hs
      have hk' : ∀ p ∈ is, (∀ i ∈ instInputs p.2, i ∈ J) ∧ p.2.gamepad ∈ Ds := by
        intro p hp
        exact hk p.2 (by simp only [Group.instances, List.mem_map]; exact ⟨p, hp, rfl⟩)
      obtain ⟨r1', hr', hag⟩ := kept_exclusive J Ds t is r r' _ _ _ _ hk' h hu
      exact ⟨r1', by simp only [hr'], hag⟩
  | shared ty es ctx =>
    simp only [groupStep] at hs ⊢
    split at hs
    · cases hs
    · rename_i oc hoc
      simp only [Option.some.injEq, Prod.mk.injEq] at hs
      obtain ⟨rfl, rfl, rfl, rfl⟩ := hs
      have hc := hk ctx (by simp [Group.instances])
      obtain ⟨o', ho', hi, hd, hl, hag⟩ := kept_instance J Ds ctx r r' t es hc.1 hc.2 h oc hoc
      exact ⟨o'.reader, by simp only [ho', hi, hd, hl], hag⟩

theorem deleted_group (J : List Input) (Ds : List Device) (t : Tick) (g : Group) (r r' : Reader) (hk : DeletedOK J Ds g)
    (h : AgreeOn J Ds r r') (g1 : Group) (r1 : Reader) (dl : List Delivery) (lg : List Inv)
    (hs : groupStep t r g = some (g1, r1, dl, lg)) : AgreeOn J Ds r1 r' := by
  cases g with
  | exclusive ty is =>
    simp only [groupStep] at hs
    split at hs
    · cases hs
    · rename_i is1 r2 dl2 lg2 hu
      simp only [Option.some.injEq, Prod.mk.injEq] at hs
      obtain ⟨_, rfl, _, _⟩ := hs
      have hk' : ∀ p ∈ is, ∀ i ∈ instInputs p.2, ∀ d ∈ Ds, ∀ j ∈ J, hidesAt p.2.gamepad d i j = false := by
        intro p hp
        exact hk p.2 (by simp only [Group.instances, List.mem_map]; exact ⟨p, hp, rfl⟩)
      exact deleted_exclusive J Ds t r' is r _ _ _ _ hk' h hu
  | shared ty es ctx =>
    simp only [groupStep] at hs
    split at hs
    · cases hs
    · rename_i oc hoc
      simp only [Option.some.injEq, Prod.mk.injEq] at hs
      obtain ⟨_, rfl, _, _⟩ := hs
      exact deleted_instance J Ds ctx r r' t es (hk ctx (by simp [Group.instances])) h oc hoc

/-- (5) **non-interference over the whole registry**: run the frame update on a registry `reg` and on the sub-registry
    obtained by deleting the input-disjoint context types (`keep` false), from readers that agree on the kept contexts'
    inputs (in particular from the same raw input with an arbitrary amount of activity on inputs nobody binds). Then
    the second run succeeds as well, the kept groups end in the *same* state (all action data, all condition / modifier
    states), the kept contexts deliver the same events and invoke the same conditions and modifiers in the same order,
    and the readers still agree — for any interleaving of kept and deleted groups in the evaluation order. -/
theorem registry_noninterference (J : List Input) (Ds : List Device) (keep : Nat → Bool) (t : Tick) :
    ∀ (reg : Registry) (r r' : Reader) (o : Registry.Out),
      (∀ g ∈ reg, keepG keep g = true → KeptOK J Ds g) → (∀ g ∈ reg, keepG keep g = false → DeletedOK J Ds g) →
      AgreeOn J Ds r r' → Registry.update r t reg = some o →
      ∃ o', Registry.update r' t (reg.filter (keepG keep)) = some o'
        ∧ o'.reg = o.reg.filter (keepG keep)
        ∧ o'.deliveries = (keptRun keep t r reg).1 ∧ o'.log = (keptRun keep t r reg).2
        ∧ AgreeOn J Ds o.reader o'.reader := by
  intro reg
  induction reg with
  | nil =>
    intro r r' o _ _ h hu
    simp only [Registry.update, Option.some.injEq] at hu
    subst hu
    exact ⟨_, rfl, rfl, rfl, rfl, h⟩
  | cons g rest ih =>
    intro r r' o hK hD h hu
    rw [update_cons] at hu
    cases hs : groupStep t r g with
    | none => simp [hs] at hu
    | some x =>
      obtain ⟨g1, r1, dl, lg⟩ := x
      simp only [hs] at hu
      cases hrest : Registry.update r1 t rest with
      | none => simp [hrest] at hu
      | some orest =>
        simp only [hrest, Option.some.injEq] at hu
        subst hu
        have hty := groupStep_ty t r g g1 r1 dl lg hs
        have hkeep1 : keepG keep g1 = keepG keep g := by simp [keepG, hty]
        by_cases hk : keepG keep g = true
        · obtain ⟨r1', hs', hag⟩ := kept_group J Ds t g r r' (hK g (by simp) hk) h g1 r1 dl lg hs
          obtain ⟨o', ho', h1, h2, h3, h4⟩ := ih r1 r1' orest (fun x hx => hK x (by simp [hx])) (fun x hx => hD x (by simp [hx])) hag hrest
          refine ⟨{ o' with reg := g1 :: o'.reg, deliveries := dl ++ o'.deliveries, log := lg ++ o'.log }, ?_, ?_, ?_, ?_, h4⟩
          · simp only [List.filter_cons, hk, if_true]
            rw [update_cons, hs']
            simp only [ho']
          · simp only [List.filter_cons, hkeep1, hk, if_true, h1]
          · simp only [keptRun, hs, hk, if_true, h2]
          · simp only [keptRun, hs, hk, if_true, h3]
        · have hk' : keepG keep g = false := by simpa using hk
          have hag := deleted_group J Ds t g r r' (hD g (by simp) hk') h g1 r1 dl lg hs
          obtain ⟨o', ho', h1, h2, h3, h4⟩ := ih r1 r' orest (fun x hx => hK x (by simp [hx])) (fun x hx => hD x (by simp [hx])) hag hrest
          refine ⟨o', ?_, ?_, ?_, ?_, h4⟩
          · simp only [List.filter_cons, hk', Bool.false_eq_true, if_false]; exact ho'
          · simp only [List.filter_cons, hkeep1, hk', Bool.false_eq_true, if_false, h1]
          · simp only [keptRun, hs, hk', Bool.false_eq_true, if_false, h2]
          · simp only [keptRun, hs, hk', Bool.false_eq_true, if_false, h3]


end BEI.Props.C17
