/-
  C17 — Input-disjoint contexts do not interfere; evaluation is deterministic.

  Determinism of the model is by construction (everything is a function); for the implementation it is part of the
  correspondence (every scenario is run twice in separate processes and must print identical traces).

  Non-interference is proved here at the level of one action evaluation and of the consumption it performs (the
  simulation relation `Agree` and its preservation); its lifting over arbitrary interleavings of K- and D-groups in
  the registry is the remaining step and is *not* proved (see `noninterference_registry_partial` in DESIGN.md §5 C17);
  the pairwise run comparison of the check covers that composition on the explored scenarios.
-/
import BEI.Props.C05
import BEI.Props.C12
namespace BEI.Props.C17
open BEI

/-- two readers (with the same gamepad selection) are indistinguishable on a set `J` of inputs -/
def Agree (J : List Input) (r r' : Reader) : Prop :=
  r.device = r'.device ∧ ∀ j ∈ J, r.value j = r'.value j ∧ r.activeUnconsumed j = r'.activeUnconsumed j

theorem Agree.refl (J : List Input) (r : Reader) : Agree J r r := ⟨rfl, fun _ _ => ⟨rfl, rfl⟩⟩

/-- an input evaluation depends on the reader only through the reading and the physical activity of its own input -/
theorem evalInput_congr (r r' : Reader) (av : ActionsView) (t : Tick) (b : InputBind)
    (hv : r.value b.input = r'.value b.input) (ha : r.activeUnconsumed b.input = r'.activeUnconsumed b.input) :
    evalInput r av t b = evalInput r' av t b := by
  simp [evalInput, hv, ha]

/-- (1) an action evaluated against two readers that agree on its bound inputs computes the same data, deliveries,
    invocation log and consumes the same inputs — activity on any other input is invisible to it -/
theorem update_congr (ab : ActionBind) (r r' : Reader) (av : ActionsView) (t : Tick) (es : List Nat)
    (h : ∀ b ∈ ab.bindings, r.value b.input = r'.value b.input ∧ r.activeUnconsumed b.input = r'.activeUnconsumed b.input) :
    (ab.update r av t es).map (fun o => (o.actions, o.deliveries, o.log, o.consumed, o.eventsBlocked))
      = (ab.update r' av t es).map (fun o => (o.actions, o.deliveries, o.log, o.consumed, o.eventsBlocked)) := by
  have hloop : ∀ (bs : List InputBind) (acc : LoopAcc),
      (∀ b ∈ bs, r.value b.input = r'.value b.input ∧ r.activeUnconsumed b.input = r'.activeUnconsumed b.input) →
      ab.loopInputs r av t acc bs = ab.loopInputs r' av t acc bs := by
    intro bs
    induction bs with
    | nil => intro acc _; rfl
    | cons b bs ih =>
      intro acc hb
      simp only [ActionBind.loopInputs, stepInput_eq]
      rw [evalInput_congr r r' av t b (hb b (by simp)).1 (hb b (by simp)).2]
      cases (evalInput r' av t b).2.1 with
      | none => simp only; rw [ih _ (fun x hx => hb x (by simp [hx]))]
      | some e => simp only; rw [ih _ (fun x hx => hb x (by simp [hx]))]
  unfold ActionBind.update
  simp only
  rw [hloop ab.bindings _ h]
  cases av.get? ab.action <;> rfl

/-- what an action consumes are inputs it binds — so a context can only ever hide inputs in its own footprint -/
theorem consumed_subset_bound (ab : ActionBind) (r : Reader) (av : ActionsView) (t : Tick) (es : List Nat)
    (o : ActionBind.Out) (h : ab.update r av t es = some o) : ∀ i ∈ o.consumed, i ∈ ab.bindings.map (·.input) := by
  obtain ⟨d, _, hcons, _⟩ := C05.update_consumes ab r av t es o h
  intro i hi
  rw [hcons] at hi
  split at hi
  · simp only [List.mem_map] at hi ⊢
    obtain ⟨e, he, rfl⟩ := hi
    have hmem : e ∈ evalAll r av t ab.bindings := (List.mem_filter.mp he).1
    simp only [evalAll, List.mem_filterMap] at hmem
    obtain ⟨b, hb, hbe⟩ := hmem
    exact ⟨b, hb, (evalInput_spec r av t b e hbe).1.symm⟩
  · simp at hi

/-- consuming the same input on both sides keeps the readers indistinguishable: a reading is either masked by the newly
    consumed input on both sides, or unchanged on both sides -/
theorem agree_consume_both (J : List Input) (r r' : Reader) (i : Input) (h : Agree J r r') :
    Agree J (r.consume i) (r'.consume i) := by
  obtain ⟨hdev, hj⟩ := h
  refine ⟨by rw [C05.consume_device, C05.consume_device, hdev], ?_⟩
  intro j hjm
  obtain ⟨h1, h2⟩ := hj j hjm
  constructor
  · cases hh : C05.hides i j
    · rw [C05.consume_keeps r i j hh, C05.consume_keeps r' i j hh, h1]
    · rw [C05.hidden_reads_inactive _ _ (C05.consume_hides r i j hh), C05.hidden_reads_inactive _ _ (C05.consume_hides r' i j hh)]
  · rw [C12.activeUnconsumed_consume, C12.activeUnconsumed_consume, h2]

/-- (2) consumption by a context whose inputs are disjoint from `J` — no shared key, button, motion, wheel, gamepad
    input or modifier key — is invisible on `J` -/
theorem agree_consume_disjoint (J : List Input) (r r' : Reader) (i : Input) (hdis : ∀ j ∈ J, C05.hides i j = false)
    (h : Agree J r r') : Agree J (r.consume i) r' := by
  obtain ⟨hdev, hj⟩ := h
  refine ⟨by rw [C05.consume_device, hdev], ?_⟩
  intro j hjm
  obtain ⟨h1, h2⟩ := hj j hjm
  exact ⟨by rw [C05.consume_keeps r i j (hdis j hjm), h1], by rw [C12.activeUnconsumed_consume, h2]⟩

theorem agree_foldl_disjoint (J : List Input) (is : List Input) (hdis : ∀ i ∈ is, ∀ j ∈ J, C05.hides i j = false) :
    ∀ (r r' : Reader), Agree J r r' → Agree J (is.foldl Reader.consume r) r' := by
  induction is with
  | nil => intro r r' h; exact h
  | cons i is ih =>
    intro r r' h
    exact ih (fun x hx => hdis x (by simp [hx])) _ _ (agree_consume_disjoint J r r' i (hdis i (by simp)) h)

theorem agree_foldl_both (J : List Input) (is : List Input) :
    ∀ (r r' : Reader), Agree J r r' → Agree J (is.foldl Reader.consume r) (is.foldl Reader.consume r') := by
  induction is with
  | nil => intro r r' h; exact h
  | cons i is ih => intro r r' h; exact ih _ _ (agree_consume_both J r r' i h)

/-- (3) one action of a kept context, evaluated against two readers that agree on the kept contexts' inputs `J`
    (which include its own): same results, and the readers agree on `J` again afterwards -/
theorem kept_action_step (J : List Input) (ab : ActionBind) (r r' : Reader) (av : ActionsView) (t : Tick) (es : List Nat)
    (hJ : ∀ b ∈ ab.bindings, b.input ∈ J) (h : Agree J r r') (o o' : ActionBind.Out)
    (ho : ab.update r av t es = some o) (ho' : ab.update r' av t es = some o') :
    o.actions = o'.actions ∧ o.deliveries = o'.deliveries ∧ o.log = o'.log ∧ Agree J o.reader o'.reader := by
  have hc := update_congr ab r r' av t es (fun b hb => h.2 b.input (hJ b hb))
  rw [ho, ho'] at hc
  simp only [Option.map_some, Option.some.injEq, Prod.mk.injEq] at hc
  obtain ⟨h1, h2, h3, h4, _⟩ := hc
  refine ⟨h1, h2, h3, ?_⟩
  obtain ⟨_, _, _, hr, _⟩ := C05.update_consumes ab r av t es o ho
  obtain ⟨_, _, _, hr', _⟩ := C05.update_consumes ab r' av t es o' ho'
  rw [hr, hr', h4]
  exact agree_foldl_both J _ _ _ h

/-- (4) one action of a deleted, input-disjoint context run on the left only: whatever it does, the readers still agree
    on the kept contexts' inputs -/
theorem disjoint_action_step (J : List Input) (ab : ActionBind) (r r' : Reader) (av : ActionsView) (t : Tick) (es : List Nat)
    (hdis : ∀ b ∈ ab.bindings, ∀ j ∈ J, C05.hides b.input j = false) (h : Agree J r r') (o : ActionBind.Out)
    (ho : ab.update r av t es = some o) : Agree J o.reader r' := by
  obtain ⟨_, _, _, hr, _⟩ := C05.update_consumes ab r av t es o ho
  rw [hr]
  apply agree_foldl_disjoint J _ _ _ _ h
  intro i hi j hj
  have := consumed_subset_bound ab r av t es o ho i hi
  simp only [List.mem_map] at this
  obtain ⟨b, hb, rfl⟩ := this
  exact hdis b hb j hj

/-- activity on inputs nobody binds: raw states that agree on the keys a binding names read the same (C15.key_congr),
    and a frame's result is a function of the raw input, the tick and the previous state — re-running gives the same trace -/
theorem deterministic (su : Setup) (st : AppState) (raw : RawInput) (t : Tick) (reacts : Reactions) (posts : List Op) (fuel : Nat) :
    ∀ o1 o2, frame su st raw t reacts posts fuel = some o1 → frame su st raw t reacts posts fuel = some o2 →
      o1.deliveries = o2.deliveries ∧ o1.log = o2.log := by
  intro o1 o2 h1 h2
  rw [h1] at h2
  cases h2
  exact ⟨rfl, rfl⟩

end BEI.Props.C17
