/-
  The explicit / implicit / blocker law and its relation to `Tracker` (helper lemmas for C03, C04, C05, C12).
-/
import BEI.Proofs.Basic
namespace BEI

/-- one condition result: the kind it reported and the state it returned -/
abbrev Res := Kind × AState

def Res.isExplicit (r : Res) : Bool := r.1 == .explicit
def Res.isImplicit (r : Res) : Bool := r.1 == .implicit

/-- the law, transcribed from the statement of C03 -/
def lawState (rs : List Res) (nonzero : Bool) : AState :=
  -- None if any blocking condition failed
  if rs.any (fun r => r.1 == .blocker && r.2 == .none) then .none
  -- with no explicit or implicit condition present: Fired iff the value is non-zero
  else if !(rs.any Res.isExplicit) && !(rs.any Res.isImplicit) then (if nonzero then .fired else .none)
  -- Fired iff every implicit condition fired and (there is no explicit condition or at least one fired)
  else if rs.all (fun r => !r.isImplicit || r.2 == .fired)
          && (!(rs.any Res.isExplicit) || rs.any (fun r => r.isExplicit && r.2 == .fired)) then .fired
  -- else Ongoing if any explicit or implicit condition returned a non-None state, else None
  else if rs.any (fun r => (r.isExplicit || r.isImplicit) && r.2 != .none) then .ongoing
  else .none

/-- events are suppressed iff some events-only blocker failed -/
def lawEventsBlocked (rs : List Res) : Bool := rs.any (fun r => r.1 == .eventsBlocker && r.2 == .none)

/-- the condition results recorded in an invocation log, in order -/
def resultsOf : List Inv → List Res
  | [] => []
  | .cond _ _ st k :: rest => (k, st) :: resultsOf rest
  | .mod _ _ _ :: rest => resultsOf rest

theorem resultsOf_append (a b : List Inv) : resultsOf (a ++ b) = resultsOf a ++ resultsOf b := by
  induction a with
  | nil => rfl
  | cons x xs ih => cases x <;> simp [resultsOf, ih]

/-- the tracker's flags describe the list of results `rs` -/
structure TInv (t : Tracker) (rs : List Res) : Prop where
  fe : t.foundExplicit = rs.any Res.isExplicit
  ae : t.anyExplicitFired = rs.any (fun r => r.isExplicit && r.2 == .fired)
  fi : t.foundImplicit = rs.any Res.isImplicit
  ai : t.allImplicitsFired = rs.all (fun r => !r.isImplicit || r.2 == .fired)
  fa : t.foundActive = rs.any (fun r => (r.isExplicit || r.isImplicit) && r.2 != .none)
  bl : t.blocked = rs.any (fun r => r.1 == .blocker && r.2 == .none)
  eb : t.eventsBlocked = rs.any (fun r => r.1 == .eventsBlocker && r.2 == .none)

theorem TInv.new (v : Value) : TInv (Tracker.new v) [] := by constructor <;> simp [Tracker.new]

theorem TInv.note (t : Tracker) (rs : List Res) (k : Kind) (s : AState) (h : TInv t rs) :
    TInv (t.note k s) (rs ++ [(k, s)]) := by
  cases k <;> cases s <;> constructor <;>
    simp [Tracker.note, Res.isExplicit, Res.isImplicit, h.fe, h.ae, h.fi, h.ai, h.fa, h.bl, h.eb]

/-- changing only the value keeps the flags -/
theorem TInv.withValue (t : Tracker) (rs : List Res) (v : Value) (h : TInv t rs) : TInv { t with value := v } rs := by
  constructor <;> simp [h.fe, h.ae, h.fi, h.ai, h.fa, h.bl, h.eb]

theorem state_of_TInv (t : Tracker) (rs : List Res) (h : TInv t rs) : t.state = lawState rs t.value.asBool := by
  unfold Tracker.state lawState
  simp only [h.fe, h.ae, h.fi, h.ai, h.fa, h.bl, Bool.and_comm]

/-- `combine` corresponds to concatenating the result lists -/
theorem TInv.combine (a b : Tracker) (ra rb : List Res) (acc : Accum) (ha : TInv a ra) (hb : TInv b rb) :
    TInv (a.combine b acc) (ra ++ rb) := by
  constructor <;>
    simp [Tracker.combine, ha.fe, ha.ae, ha.fi, ha.ai, ha.fa, ha.bl, ha.eb,
          hb.fe, hb.ae, hb.fi, hb.ai, hb.fa, hb.bl, hb.eb]

/-- `overwrite` replaces the result list -/
theorem TInv.overwrite (a b : Tracker) (rb : List Res) (hb : TInv b rb) : TInv (a.overwrite b) rb := by
  constructor <;> simp [Tracker.overwrite, hb.fe, hb.ae, hb.fi, hb.ai, hb.fa, hb.bl, hb.eb]

/-- modifiers never touch the flags; their log contains no condition result, one entry per modifier, in order -/
theorem applyModifiers_spec (av : ActionsView) (t : Tick) :
    ∀ (ms : List Mod) (tr : Tracker) (rs : List Res), TInv tr rs →
      TInv (tr.applyModifiers av t ms).1 rs
      ∧ resultsOf (tr.applyModifiers av t ms).2.2 = []
      ∧ (tr.applyModifiers av t ms).2.2.map Inv.id = ms.map (·.id)
      ∧ (tr.applyModifiers av t ms).2.1.map (·.id) = ms.map (·.id) := by
  intro ms
  induction ms with
  | nil => intro tr rs h; simp [Tracker.applyModifiers, h, resultsOf]
  | cons m ms ih =>
    intro tr rs h
    obtain ⟨h1, h2, h3, h4⟩ := ih { tr with value := (m.apply av t tr.value).2 } rs (h.withValue _ _ _)
    simp only [Tracker.applyModifiers]
    refine ⟨h1, ?_, ?_, ?_⟩
    · simpa [resultsOf] using h2
    · simpa [Inv.id] using h3
    · simpa [Mod.apply] using h4

/-- conditions: the flags after `apply_conditions` describe the old results followed by the new ones (exactly the
    results recorded in the log); the value is untouched; every condition is evaluated once, in order -/
theorem applyConditions_spec (av : ActionsView) (t : Tick) :
    ∀ (cs : List Cond) (tr : Tracker) (rs : List Res), TInv tr rs →
      TInv (tr.applyConditions av t cs).1 (rs ++ resultsOf (tr.applyConditions av t cs).2.2)
      ∧ (tr.applyConditions av t cs).1.value = tr.value
      ∧ (tr.applyConditions av t cs).2.2.map Inv.id = cs.map (·.id)
      ∧ (tr.applyConditions av t cs).2.1.map (·.id) = cs.map (·.id)
      ∧ (resultsOf (tr.applyConditions av t cs).2.2).length = cs.length := by
  intro cs
  induction cs with
  | nil => intro tr rs h; simp [Tracker.applyConditions, h, resultsOf]
  | cons c cs ih =>
    intro tr rs h
    have hn := h.note _ _ (c.eval av t tr.value).2.2 (c.eval av t tr.value).2.1
    obtain ⟨h1, h2, h3, h4, h5⟩ := ih _ _ hn
    simp only [Tracker.applyConditions]
    refine ⟨?_, ?_, ?_, ?_, ?_⟩
    · simpa [resultsOf, List.append_assoc] using h1
    · rw [h2]; cases (c.eval av t tr.value).2.2 <;> rfl
    · simpa [Inv.id] using h3
    · simpa [Cond.eval] using h4
    · simpa [resultsOf] using h5

end BEI
