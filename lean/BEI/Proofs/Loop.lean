/-
  The input loop of `ActionBind::update` split into "evaluate every input" and "merge the evaluated inputs",
  and the declarative description of the merge (helper lemmas for C03, C04, C05, C08, C12).
-/
import BEI.Proofs.Law
namespace BEI

/-- an evaluated input: which input, its tracker after its own modifiers and conditions, and the condition results -/
structure Ev where
  input : Input
  tracker : Tracker
  results : List Res

namespace Ev
def state (e : Ev) : AState := e.tracker.state
end Ev

/-- evaluation of one input binding (independent of the merge accumulator):
    `none` while the binding is still suppressed (held since creation) -/
def evalInput (r : Reader) (av : ActionsView) (t : Tick) (b : InputBind) : InputBind × Option Ev × List Inv :=
  if b.ignored && r.activeUnconsumed b.input then (b, none, [])
  else
    let cur := Tracker.new (r.value b.input)
    let rm := cur.applyModifiers av t b.mods
    let rc := rm.1.applyConditions av t b.conds
    ({ b with mods := rm.2.1, conds := rc.2.1, ignored := false },
     some { input := b.input, tracker := rc.1, results := resultsOf rc.2.2 },
     rm.2.2 ++ rc.2.2)

/-- the merge of one evaluated input into the accumulator (the `match current_state.cmp(&tracker_state)`) -/
def mergeStep (ab : ActionBind) (acc : LoopAcc) (e : Ev) : LoopAcc :=
  if e.state == .none then acc
  else
    match AState.cmp e.state acc.trackerState with
    | .lt => acc
    | .eq => { acc with tracker := acc.tracker.combine e.tracker ab.accum,
                        consumeBuffer := if ab.consume then acc.consumeBuffer ++ [e.input] else acc.consumeBuffer }
    | .gt => { acc with tracker := acc.tracker.overwrite e.tracker, trackerState := e.state,
                        consumeBuffer := if ab.consume then [e.input] else acc.consumeBuffer }

theorem stepInput_eq (ab : ActionBind) (r : Reader) (av : ActionsView) (t : Tick) (acc : LoopAcc) (b : InputBind) :
    ab.stepInput r av t acc b =
      ((evalInput r av t b).1,
       match (evalInput r av t b).2.1 with
       | none => acc
       | some e => mergeStep ab { acc with log := acc.log ++ (evalInput r av t b).2.2 } e) := by
  unfold ActionBind.stepInput evalInput mergeStep Ev.state
  by_cases h : (b.ignored && r.activeUnconsumed b.input) = true
  · simp [h]
  · simp only [h, Bool.false_eq_true, ↓reduceIte]
    split <;> rename_i hs
    · simp [hs, List.append_assoc]
    · simp only [hs, List.append_assoc]
      split <;> simp_all

/-- the log is only ever appended to by the evaluation part -/
theorem mergeStep_log (ab : ActionBind) (acc : LoopAcc) (e : Ev) : (mergeStep ab acc e).log = acc.log := by
  unfold mergeStep; split
  · rfl
  · split <;> rfl

/-- evaluated inputs of a list of bindings, in binding order (suppressed ones are dropped) -/
def evalAll (r : Reader) (av : ActionsView) (t : Tick) (bs : List InputBind) : List Ev :=
  bs.filterMap (fun b => (evalInput r av t b).2.1)

def evalLog (r : Reader) (av : ActionsView) (t : Tick) (bs : List InputBind) : List Inv :=
  bs.flatMap (fun b => (evalInput r av t b).2.2)

/-- the accumulator without its log -/
def LoopAcc.core (a : LoopAcc) : Tracker × AState × List Input := (a.tracker, a.trackerState, a.consumeBuffer)

theorem mergeStep_core (ab : ActionBind) (a b : LoopAcc) (e : Ev) (h : a.core = b.core) :
    (mergeStep ab a e).core = (mergeStep ab b e).core := by
  simp only [LoopAcc.core, Prod.mk.injEq] at h
  obtain ⟨h1, h2, h3⟩ := h
  unfold mergeStep LoopAcc.core
  split
  · simp [h1, h2, h3]
  · rw [h2]; split <;> simp [h1, h2, h3]

/-- the whole loop = map `evalInput` over the bindings, fold `mergeStep` over the evaluated ones, append the logs -/
theorem loopInputs_eq (ab : ActionBind) (r : Reader) (av : ActionsView) (t : Tick) :
    ∀ (bs : List InputBind) (acc : LoopAcc),
      (ab.loopInputs r av t acc bs).1 = bs.map (fun b => (evalInput r av t b).1)
      ∧ (ab.loopInputs r av t acc bs).2.core = ((evalAll r av t bs).foldl (mergeStep ab) acc).core
      ∧ (ab.loopInputs r av t acc bs).2.log = acc.log ++ evalLog r av t bs := by
  intro bs
  induction bs with
  | nil => intro acc; simp [ActionBind.loopInputs, evalAll, evalLog]
  | cons b bs ih =>
    intro acc
    simp only [ActionBind.loopInputs, stepInput_eq]
    cases he : (evalInput r av t b).2.1 with
    | none =>
      obtain ⟨h1, h2, h3⟩ := ih acc
      have hl : (evalInput r av t b).2.2 = [] := by
        unfold evalInput at he ⊢
        split <;> simp_all
      refine ⟨by simp [h1], ?_, ?_⟩
      · simp [evalAll, he] at h2 ⊢; exact h2
      · simp [evalLog, hl] at h3 ⊢; exact h3
    | some e =>
      obtain ⟨h1, h2, h3⟩ := ih (mergeStep ab { acc with log := acc.log ++ (evalInput r av t b).2.2 } e)
      refine ⟨by simp [h1], ?_, ?_⟩
      · simp only [evalAll, List.filterMap_cons, he, List.foldl_cons] at h2 ⊢
        rw [h2]
        -- folding from accumulators with equal cores gives equal cores
        have key : ∀ (es : List Ev) (a b : LoopAcc), a.core = b.core →
            (es.foldl (mergeStep ab) a).core = (es.foldl (mergeStep ab) b).core := by
          intro es
          induction es with
          | nil => intro a b h; simpa using h
          | cons x xs ihx => intro a b h; simp only [List.foldl_cons]; exact ihx _ _ (mergeStep_core ab a b x h)
        apply key
        apply mergeStep_core
        rfl
      · rw [h3, mergeStep_log]
        simp [evalLog, List.append_assoc]

/-! ### the declarative description of the merge -/

/-- the more significant of two states -/
def AState.maxS (a b : AState) : AState := if a.rank < b.rank then b else a

/-- most significant state among the evaluated inputs (`none` if there is none) -/
def topState (es : List Ev) : AState := es.foldl (fun m e => AState.maxS m e.state) .none

/-- the contributing inputs: those whose own state is the most significant non-None state -/
def contributing (es : List Ev) : List Ev :=
  es.filter (fun e => e.state == topState es && topState es != .none)

/-- how two values are accumulated into the accumulator's dimension (`combine`) -/
def combineValue (acc : Accum) (a b : Value) : Value :=
  let x := a.as3
  let y := b.as3
  match acc with
  | .maxAbs => Value.ofV3 ⟨Tracker.maxAbs1 x.x y.x, Tracker.maxAbs1 x.y y.y, Tracker.maxAbs1 x.z y.z⟩ a.dim
  | .cumulative => Value.ofV3 (x + y) a.dim

/-- the merged value of the contributing inputs, accumulated in binding order into dimension `d` -/
def mergedValue (d : Dim) (acc : Accum) (vs : List Value) : Value :=
  vs.foldl (combineValue acc) (Value.zero d)

theorem topState_append (pre : List Ev) (e : Ev) : topState (pre ++ [e]) = AState.maxS (topState pre) e.state := by
  simp [topState, List.foldl_append]

theorem rank_le_top (es : List Ev) : ∀ x ∈ es, x.state.rank ≤ (topState es).rank := by
  -- generalised over the starting state of the fold
  have key : ∀ (es : List Ev) (m : AState),
      m.rank ≤ (es.foldl (fun m e => AState.maxS m e.state) m).rank ∧
      ∀ x ∈ es, x.state.rank ≤ (es.foldl (fun m e => AState.maxS m e.state) m).rank := by
    intro es
    induction es with
    | nil => intro m; simp
    | cons y ys ih =>
      intro m
      simp only [List.foldl_cons, List.mem_cons, forall_eq_or_imp]
      obtain ⟨h1, h2⟩ := ih (AState.maxS m y.state)
      have hm : m.rank ≤ (AState.maxS m y.state).rank ∧ y.state.rank ≤ (AState.maxS m y.state).rank := by
        unfold AState.maxS; split <;> omega
      exact ⟨by omega, by omega, h2⟩
  exact (key es .none).2

theorem overwrite_value (a b : Tracker) : (a.overwrite b).value = b.value.convert a.value.dim := rfl

theorem convert_dim' (v : Value) (d : Dim) : (v.convert d).dim = d := by cases d <;> rfl
theorem ofV3_dim (p : V3) (d : Dim) : (Value.ofV3 p d).dim = d := convert_dim' _ _
theorem zero_dim' (d : Dim) : (Value.zero d).dim = d := by cases d <;> rfl

theorem combineValue_dim (acc : Accum) (a b : Value) : (combineValue acc a b).dim = a.dim := by
  cases acc <;> simp [combineValue, ofV3_dim]

theorem combine_value (a b : Tracker) (acc : Accum) : (a.combine b acc).value = combineValue acc a.value b.value := by
  cases acc <;> rfl

theorem absR_zero : Tracker.absR 0 = 0 := by simp [Tracker.absR]
theorem absR_nonneg (x : Rat) : 0 ≤ Tracker.absR x := by unfold Tracker.absR; split <;> grind
theorem maxAbs1_zero (b : Rat) : Tracker.maxAbs1 0 b = b := by
  unfold Tracker.maxAbs1
  split
  · rfl
  · rename_i h
    have h0 := absR_nonneg b
    rw [absR_zero] at h
    have : Tracker.absR b = 0 := by grind
    unfold Tracker.absR at this
    split at this <;> grind

/-- overwriting the initial (zero) accumulator is the same as combining the first value into zero -/
theorem combineValue_zero (acc : Accum) (d : Dim) (v : Value) :
    combineValue acc (Value.zero d) v = v.convert d := by
  have hz : (Value.zero d).as3 = V3.zero := by cases d <;> rfl
  have hadd : V3.zero + v.as3 = v.as3 := by
    show V3.add _ _ = _
    cases h3 : v.as3
    simp [V3.add, V3.zero, Rat.zero_add]
  cases acc
  · simp only [combineValue, hz, hadd, zero_dim']
    cases d <;> cases v <;> simp [Value.ofV3, Value.convert, Value.as3, Value.as1, Value.as2, Value.asBool]
    all_goals (first | (rename_i b; cases b <;> simp) | simp [bne] | skip)
  · simp only [combineValue, hz, V3.zero, maxAbs1_zero, zero_dim']
    cases d <;> cases v <;> simp [Value.ofV3, Value.convert, Value.as3, Value.as1, Value.as2, Value.asBool]
    all_goals (first | (rename_i b; cases b <;> simp) | simp [bne] | skip)

@[simp] theorem rank_none : AState.rank .none = 0 := by decide
@[simp] theorem rank_ongoing : AState.rank .ongoing = 1 := by decide
@[simp] theorem rank_fired : AState.rank .fired = 2 := by decide

theorem rank_inj (a b : AState) (h : a.rank = b.rank) : a = b := by
  cases a <;> cases b <;> simp_all

@[simp] theorem cmp_nn : AState.cmp .none .none = .eq := by decide
@[simp] theorem cmp_no : AState.cmp .none .ongoing = .lt := by decide
@[simp] theorem cmp_nf : AState.cmp .none .fired = .lt := by decide
@[simp] theorem cmp_on : AState.cmp .ongoing .none = .gt := by decide
@[simp] theorem cmp_oo : AState.cmp .ongoing .ongoing = .eq := by decide
@[simp] theorem cmp_of : AState.cmp .ongoing .fired = .lt := by decide
@[simp] theorem cmp_fn : AState.cmp .fired .none = .gt := by decide
@[simp] theorem cmp_fo : AState.cmp .fired .ongoing = .gt := by decide
@[simp] theorem cmp_ff : AState.cmp .fired .fired = .eq := by decide

theorem maxS_table (a b : AState) : AState.maxS a b =
    match a, b with
    | .none, x => x
    | x, .none => x
    | .ongoing, .ongoing => .ongoing
    | .fired, _ => .fired
    | _, .fired => .fired := by
  cases a <;> cases b <;> simp [AState.maxS]

/-- how the contributing set evolves when one more evaluated input is appended -/
theorem contributing_append (pre : List Ev) (e : Ev) :
    contributing (pre ++ [e]) =
      if e.state = .none then contributing pre
      else match AState.cmp e.state (topState pre) with
        | .lt => contributing pre
        | .eq => contributing pre ++ [e]
        | .gt => [e] := by
  have hle := rank_le_top pre
  unfold contributing
  rw [topState_append]
  generalize hm : topState pre = m at hle
  generalize hs : e.state = s
  have hnil : ∀ (p : Ev → Bool), (∀ x ∈ pre, p x = false) → pre.filter p = [] := by
    intro p h; rw [List.filter_eq_nil_iff]; intro x hx; simp [h x hx]
  cases s <;> cases m <;> simp [maxS_table, List.filter_append, hs]
  -- remaining: a strictly more significant input arrives: nothing earlier had that state
  all_goals
    intro x hx hxs
    have := hle x hx
    rw [hxs] at this
    simp at this

/-- the invariant of the merge fold: the accumulator describes exactly the contributing inputs of the prefix -/
structure MInv (ab : ActionBind) (pre : List Ev) (acc : LoopAcc) : Prop where
  st : acc.trackerState = topState pre
  buf : acc.consumeBuffer = if ab.consume then (contributing pre).map (·.input) else []
  flags : TInv acc.tracker ((contributing pre).flatMap (·.results))
  val : acc.tracker.value = mergedValue ab.dim ab.accum ((contributing pre).map (·.tracker.value))

theorem MInv.init (ab : ActionBind) :
    MInv ab [] { tracker := Tracker.new (Value.zero ab.dim) } := by
  constructor
  · rfl
  · simp [contributing]
  · exact TInv.new _
  · rfl

theorem mergedValue_dim (d : Dim) (acc : Accum) (vs : List Value) : (mergedValue d acc vs).dim = d := by
  unfold mergedValue
  have : ∀ (vs : List Value) (a : Value), (vs.foldl (combineValue acc) a).dim = a.dim := by
    intro vs
    induction vs with
    | nil => intro a; rfl
    | cons v vs ih => intro a; simp [List.foldl_cons, ih, combineValue_dim]
  rw [this, zero_dim']

theorem MInv.keep (ab : ActionBind) (pre : List Ev) (acc : LoopAcc) (e : Ev) (h : MInv ab pre acc)
    (hc : contributing (pre ++ [e]) = contributing pre) (ht : topState (pre ++ [e]) = topState pre) :
    MInv ab (pre ++ [e]) acc := by
  constructor
  · rw [ht]; exact h.st
  · rw [hc]; exact h.buf
  · rw [hc]; exact h.flags
  · rw [hc]; exact h.val

theorem MInv.stepEq (ab : ActionBind) (pre : List Ev) (acc : LoopAcc) (e : Ev) (h : MInv ab pre acc)
    (he : TInv e.tracker e.results)
    (hc : contributing (pre ++ [e]) = contributing pre ++ [e]) (ht : topState (pre ++ [e]) = topState pre) :
    MInv ab (pre ++ [e])
      { acc with tracker := acc.tracker.combine e.tracker ab.accum,
                 consumeBuffer := if ab.consume then acc.consumeBuffer ++ [e.input] else acc.consumeBuffer } := by
  constructor
  · simp only; rw [ht]; exact h.st
  · simp only; rw [hc, h.buf]; cases ab.consume <;> simp
  · simp only; rw [hc, List.flatMap_append]; simpa using TInv.combine _ _ _ _ _ h.flags he
  · simp only; rw [hc, combine_value, h.val]; simp [mergedValue, List.foldl_append]

theorem MInv.stepGt (ab : ActionBind) (pre : List Ev) (acc : LoopAcc) (e : Ev) (h : MInv ab pre acc)
    (he : TInv e.tracker e.results)
    (hc : contributing (pre ++ [e]) = [e]) (ht : topState (pre ++ [e]) = e.state) :
    MInv ab (pre ++ [e])
      { acc with tracker := acc.tracker.overwrite e.tracker, trackerState := e.state,
                 consumeBuffer := if ab.consume then [e.input] else acc.consumeBuffer } := by
  constructor
  · simp only; rw [ht]
  · simp only; rw [hc, h.buf]; cases ab.consume <;> simp
  · simp only; rw [hc]; simpa using TInv.overwrite _ _ _ he
  · simp only
    rw [hc, overwrite_value, h.val, mergedValue_dim]
    simp [mergedValue, combineValue_zero]

theorem MInv.step (ab : ActionBind) (pre : List Ev) (acc : LoopAcc) (e : Ev)
    (h : MInv ab pre acc) (he : TInv e.tracker e.results) : MInv ab (pre ++ [e]) (mergeStep ab acc e) := by
  have hc := contributing_append pre e
  have ht := topState_append pre e
  have hk := MInv.keep ab pre acc e h
  have heq := MInv.stepEq ab pre acc e h he
  have hgt := MInv.stepGt ab pre acc e h he
  have hst := h.st
  unfold mergeStep
  rw [hst]
  generalize topState pre = m at *
  generalize hs : e.state = s at *
  cases s <;> cases m <;> simp [maxS_table] at hc ht ⊢ <;>
    first
    | exact hk hc ht
    | (rw [hst] at heq; exact heq hc ht)
    | exact hgt hc ht

theorem MInv.fold (ab : ActionBind) :
    ∀ (es pre : List Ev) (acc : LoopAcc), MInv ab pre acc → (∀ e ∈ es, TInv e.tracker e.results) →
      MInv ab (pre ++ es) (es.foldl (mergeStep ab) acc) := by
  intro es
  induction es with
  | nil => intro pre acc h _; simpa using h
  | cons e es ih =>
    intro pre acc h hes
    have := ih (pre ++ [e]) (mergeStep ab acc e) (h.step ab pre acc e (hes e (by simp)))
      (fun x hx => hes x (by simp [hx]))
    simpa [List.append_assoc] using this

/-- every evaluated input carries flags that describe its own condition results -/
theorem evalAll_TInv (r : Reader) (av : ActionsView) (t : Tick) (bs : List InputBind) :
    ∀ e ∈ evalAll r av t bs, TInv e.tracker e.results := by
  intro e he
  simp only [evalAll, List.mem_filterMap] at he
  obtain ⟨b, _, hb⟩ := he
  unfold evalInput at hb
  split at hb
  · simp at hb
  · simp only [Option.some.injEq] at hb
    subst hb
    have hm := applyModifiers_spec av t b.mods (Tracker.new (r.value b.input)) [] (TInv.new _)
    have hc := applyConditions_spec av t b.conds _ [] hm.1
    simpa using hc.1

end BEI
