/-
  The registry mirrors the world: invariant over all reachable application states (helper for C07, C02, C14).
-/
import BEI.Proofs.Shape
import BEI.Proofs.AppInv
namespace BEI

/-- each entity is listed once and carries each component at most once -/
structure WorldWF (w : World) : Prop where
  ents : (w.map (·.1)).Nodup
  comps : ∀ p ∈ w, (p.2.map (·.1)).Nodup

namespace World

theorem comps_setComps (w : World) (e e' : Nat) (cs : List (Nat × Nat)) :
    (w.setComps e cs).comps e' = if e' = e then (if w.alive e then cs else []) else w.comps e' := by
  induction w with
  | nil => simp [setComps, comps, alive]
  | cons p ps ih =>
    obtain ⟨k, kcs⟩ := p
    simp only [setComps, List.map_cons, alive, List.any_cons] at ih ⊢
    by_cases hk : k = e
    · subst hk
      by_cases he : e' = k
      · subst he; simp [comps]
      · have h1 : (k == e') = false := by simp; exact fun h => he h.symm
        simp only [beq_self_eq_true, if_true, comps, h1, Bool.false_eq_true, if_false, he]
        simpa [he] using ih
    · have hk' : (k == e) = false := by simp [hk]
      simp only [hk', Bool.false_eq_true, if_false, Bool.false_or, comps]
      by_cases hke : k = e'
      · subst hke
        have : ¬ (k = e) := hk
        simp [this]
      · have hke' : (k == e') = false := by simp [hke]
        simp only [hke', Bool.false_eq_true, if_false]
        exact ih

theorem has_def (w : World) (e c : Nat) : w.has e c = (w.comps e).any (fun p => p.1 == c) := rfl

theorem insertComp_keys (cs : List (Nat × Nat)) (c v c' : Nat) :
    (insertComp cs c v).any (fun p => p.1 == c') = ((c == c') || cs.any (fun p => p.1 == c')) := by
  induction cs with
  | nil => simp [insertComp]
  | cons p ps ih =>
    obtain ⟨k, kv⟩ := p
    simp only [insertComp]
    by_cases h1 : (k == c) = true
    · simp only [h1, if_true, List.any_cons]
      have : k = c := by simpa using h1
      subst this
      cases (k == c') <;> simp
    · simp only [h1, Bool.false_eq_true, if_false]
      by_cases h2 : c < k
      · simp [h2, List.any_cons]
      · simp only [h2, if_false, List.any_cons, ih]
        cases (k == c') <;> cases (c == c') <;> simp

theorem alive_iff_mem (w : World) (e : Nat) : w.alive e = true ↔ e ∈ w.map (·.1) := by
  simp only [alive, List.any_eq_true, List.mem_map, beq_iff_eq]

theorem comps_of_not_alive (w : World) (e : Nat) (h : w.alive e = false) : w.comps e = [] := by
  induction w with
  | nil => rfl
  | cons p ps ih =>
    obtain ⟨k, kcs⟩ := p
    simp only [alive, List.any_cons, Bool.or_eq_false_iff] at h
    simp only [comps, h.1, Bool.false_eq_true, if_false]
    exact ih h.2

theorem comps_filter_ne (w : World) (e e' : Nat) :
    World.comps (w.filter (fun p => p.1 != e)) e' = if e' = e then [] else w.comps e' := by
  induction w with
  | nil => simp [comps]
  | cons p ps ih =>
    obtain ⟨k, kcs⟩ := p
    by_cases hk : k = e
    · subst hk
      simp only [List.filter_cons, bne_self_eq_false, Bool.false_eq_true, if_false, comps]
      by_cases he : e' = k
      · subst he; simpa using ih
      · have : (k == e') = false := by simp; exact fun h => he h.symm
        simp only [this, Bool.false_eq_true, if_false]
        exact ih
    · have h1 : (k != e) = true := by simp [hk]
      simp only [List.filter_cons, h1, if_true, comps]
      by_cases hke : k = e'
      · subst hke; simp [hk]
      · have hke' : (k == e') = false := by simp [hke]
        simp only [hke', Bool.false_eq_true, if_false]
        exact ih

theorem comps_append_new (w : World) (e e' : Nat) (h : w.alive e = false) :
    World.comps (w ++ [(e, [])]) e' = w.comps e' := by
  induction w with
  | nil => simp [comps]
  | cons p ps ih =>
    obtain ⟨k, kcs⟩ := p
    simp only [alive, List.any_cons, Bool.or_eq_false_iff] at h
    simp only [List.cons_append, comps]
    split
    · rfl
    · exact ih h.2

end World

/-- the mirror invariant -/
structure Mirror (w : World) (reg : Registry) : Prop where
  wf : ShapeWF (shape reg)
  mirror : ∀ c e, memS (shape reg) c e ↔ w.has e c = true

theorem typeOf_id (su : Setup) (c : Nat) (ty : CtxType) (h : su.typeOf c = some ty) : ty.id = c := by
  have := List.find?_some h
  simpa using this


theorem rebuildExclusive_entities (mk : Factory) (t : Tick) (c : Nat) :
    ∀ (is is' : List (Nat × ContextInstance)) (dl : List Delivery),
      Registry.rebuildExclusive mk t c is = some (is', dl) → is'.map (·.1) = is.map (·.1) := by
  intro is
  induction is with
  | nil => intro is' dl h; simp [Registry.rebuildExclusive] at h; simp [h.1]
  | cons p ps ih =>
    intro is' dl h
    obtain ⟨e, ctx⟩ := p
    simp only [Registry.rebuildExclusive] at h
    split at h
    · rename_i dl1 rest' dl2 h1 h2
      simp only [Option.some.injEq, Prod.mk.injEq] at h
      rw [← h.1]
      simp [ih _ _ h2]
    · cases h

theorem rebuild_shape (reg : Registry) (mk : Factory) (t : Tick) (c : Nat) (reg' : Registry) (dl : List Delivery)
    (hr : reg.rebuild mk t c = some (reg', dl)) : shape reg' = shape reg := by
  unfold Registry.rebuild at hr
  split at hr
  · simp only [Option.some.injEq, Prod.mk.injEq] at hr; rw [← hr.1]
  · rename_i gi _
    split at hr
    · cases hr
    · rename_i ty is hg
      split at hr
      · cases hr
      · rename_i is' dl' hre
        simp only [Option.some.injEq, Prod.mk.injEq] at hr; rw [← hr.1]
        simp only [shape]
        apply map_set_same
        intro y hy; rw [hg] at hy; cases hy
        simp [Group.ty, Group.entities, rebuildExclusive_entities _ _ _ _ _ _ hre]
    · rename_i ty es ctx hg
      split at hr
      · simp only [Option.some.injEq, Prod.mk.injEq] at hr; rw [← hr.1]
        simp only [shape]
        apply map_set_same
        intro y hy; rw [hg] at hy; cases hy
        simp [Group.ty, Group.entities]
      · cases hr

theorem rebuildAll_shape (mk : Factory) (t : Tick) : ∀ (tysl : List CtxType) (reg reg' : Registry) (dl : List Delivery),
    rebuildAll mk t tysl reg = some (reg', dl) → shape reg' = shape reg := by
  intro tysl
  induction tysl with
  | nil => intro reg reg' dl hr; simp [rebuildAll] at hr; rw [← hr.1]
  | cons ty rest ih =>
    intro reg reg' dl hr
    simp only [rebuildAll] at hr
    split at hr
    · cases hr
    · rename_i reg1 dl1 h1
      split at hr
      · cases hr
      · rename_i reg2 dl2 h2
        simp only [Option.some.injEq, Prod.mk.injEq] at hr
        rw [← hr.1, ih _ _ _ h2, rebuild_shape _ _ _ _ _ _ h1]

theorem update_shape (t : Tick) (reg : Registry) (r : Reader) (o : Registry.Out)
    (h : Registry.update r t reg = some o) : shape o.reg = shape reg := by
  obtain ⟨h1, h2⟩ := update_tys t reg r o h
  exact shape_of_tys_entities _ _ h1 h2

/-- removing the components of a despawned entity one after the other -/
theorem removeComps_shape (t : Tick) (e : Nat) : ∀ (cs : List Nat) (reg reg' : Registry) (dl : List Delivery),
    ShapeWF (shape reg) → removeComps t e cs reg = some (reg', dl) →
    ShapeWF (shape reg') ∧ (∀ c' e', memS (shape reg') c' e' ↔ (memS (shape reg) c' e' ∧ ¬ (e' = e ∧ c' ∈ cs))) := by
  intro cs
  induction cs with
  | nil => intro reg reg' dl h hr; simp [removeComps] at hr; rw [← hr.1]; exact ⟨h, by simp⟩
  | cons c cs ih =>
    intro reg reg' dl h hr
    simp only [removeComps] at hr
    split at hr
    · cases hr
    · rename_i reg1 dl1 h1
      split at hr
      · cases hr
      · rename_i reg2 dl2 h2
        simp only [Option.some.injEq, Prod.mk.injEq] at hr
        rw [← hr.1]
        obtain ⟨hwf1, hm1, _⟩ := remove_shape _ _ _ _ _ _ h1 h
        obtain ⟨hwf2, hm2⟩ := ih _ _ _ hwf1 h2
        refine ⟨hwf2, ?_⟩
        intro c' e'
        rw [hm2, hm1]
        simp only [List.mem_cons]
        constructor
        · rintro ⟨⟨hm, hn1⟩, hn2⟩
          refine ⟨hm, ?_⟩
          rintro ⟨he, hc | hc⟩
          · exact hn1 ⟨hc, he⟩
          · exact hn2 ⟨he, hc⟩
        · rintro ⟨hm, hn⟩
          exact ⟨⟨hm, fun hh => hn ⟨hh.2, Or.inl hh.1⟩⟩, fun hh => hn ⟨hh.1, Or.inr hh.2⟩⟩

/-- the mirror invariant is preserved by every lifecycle operation and by the per-frame update -/
theorem mirror_appPred (su : Setup) : AppPred su Mirror where
  op := by
    intro st o st' dl h hop
    obtain ⟨hwf, hm⟩ := h
    cases o with
    | spawn e =>
      simp only [applyOp] at hop
      split at hop
      · simp only [Option.some.injEq, Prod.mk.injEq] at hop; rw [← hop.1]; exact ⟨hwf, hm⟩
      · rename_i hal
        simp only [Option.some.injEq, Prod.mk.injEq] at hop; rw [← hop.1]
        refine ⟨hwf, ?_⟩
        intro c e'
        rw [hm, World.has_def, World.has_def, World.comps_append_new _ _ _ (by simpa using hal)]
    | insert e c v =>
      simp only [applyOp] at hop
      split at hop
      · simp only [Option.some.injEq, Prod.mk.injEq] at hop; rw [← hop.1]; exact ⟨hwf, hm⟩
      · rename_i hal
        have hal' : st.world.alive e = true := by simpa using hal
        split at hop
        · simp only [Option.some.injEq, Prod.mk.injEq] at hop; rw [← hop.1]; exact ⟨hwf, hm⟩
        · rename_i ty hty
          have htyid := typeOf_id su c ty hty
          have hhas' : ∀ e' c', (st.world.setComps e (World.insertComp (st.world.comps e) c v)).has e' c'
              = if e' = e then ((c == c') || st.world.has e c') else st.world.has e' c' := by
            intro e' c'
            rw [World.has_def, World.comps_setComps]
            by_cases he : e' = e
            · subst he; simp [hal', World.insertComp_keys, World.has_def]
            · simp [he, World.has_def]
          split at hop
          · rename_i hhad
            simp only [Option.some.injEq, Prod.mk.injEq] at hop; rw [← hop.1]
            refine ⟨hwf, ?_⟩
            intro c' e'
            rw [hm, hhas']
            by_cases he : e' = e
            · subst he
              by_cases hc : c = c'
              · subst hc; simp [hhad]
              · have : (c == c') = false := by simp [hc]
                simp [this]
            · simp [he]
          · rename_i hnot
            simp only [Option.some.injEq, Prod.mk.injEq] at hop; rw [← hop.1]
            have hnew : ¬ memS (shape st.reg) ty.id e := by
              rw [htyid, hm]; simpa using hnot
            obtain ⟨hwf', hm'⟩ := addS_spec (shape st.reg) ty e hwf hnew
            refine ⟨by rw [shape_add]; exact hwf', ?_⟩
            intro c' e'
            rw [shape_add, hm', hm, hhas', htyid]
            by_cases he : e' = e
            · subst he
              by_cases hc : c = c'
              · subst hc; simp
              · have : (c == c') = false := by simp [hc]
                simp [this]; exact fun h => absurd h.symm hc
            · simp [he]
    | remove e c =>
      simp only [applyOp] at hop
      split at hop
      · simp only [Option.some.injEq, Prod.mk.injEq] at hop; rw [← hop.1]; exact ⟨hwf, hm⟩
      · rename_i hcond
        split at hop
        · cases hop
        · rename_i reg' dl' hr
          simp only [Option.some.injEq, Prod.mk.injEq] at hop; rw [← hop.1]
          obtain ⟨hwf', hm', _⟩ := remove_shape _ _ _ _ _ _ hr hwf
          refine ⟨hwf', ?_⟩
          intro c' e'
          have hal : st.world.alive e = true := by
            simp only [Bool.or_eq_true, Bool.not_eq_true', not_or, Bool.not_eq_false] at hcond
            exact hcond.1
          rw [hm', hm, World.has_def, World.has_def, World.comps_setComps]
          by_cases he : e' = e
          · subst he
            simp only [if_true, hal, List.any_filter]
            by_cases hc : c' = c
            · subst hc; simp
            · simp [hc]
          · simp [he]
    | despawn e =>
      simp only [applyOp] at hop
      split at hop
      · simp only [Option.some.injEq, Prod.mk.injEq] at hop; rw [← hop.1]; exact ⟨hwf, hm⟩
      · split at hop
        · cases hop
        · rename_i reg' dl' hr
          simp only [Option.some.injEq, Prod.mk.injEq] at hop; rw [← hop.1]
          obtain ⟨hwf', hm'⟩ := removeComps_shape _ _ _ _ _ _ hwf hr
          refine ⟨hwf', ?_⟩
          intro c' e'
          rw [hm', hm, World.has_def, World.has_def, World.comps_filter_ne]
          by_cases he : e' = e
          · subst he
            simp only [if_true, List.any_nil, Bool.false_eq_true, iff_false, not_and, true_and, List.mem_map]
            intro hany hnot
            simp only [List.any_eq_true, beq_iff_eq] at hany
            obtain ⟨p, hp, hpc⟩ := hany
            exact hnot ⟨p, hp, hpc⟩
          · simp [he]
    | rebuild =>
      simp only [applyOp] at hop
      split at hop
      · cases hop
      · rename_i reg' dl' hr
        simp only [Option.some.injEq, Prod.mk.injEq] at hop; rw [← hop.1]
        have := rebuildAll_shape _ _ _ _ _ _ hr
        exact ⟨by rw [this]; exact hwf, by intro c e; rw [this]; exact hm c e⟩
  update := by
    intro w reg r t o h hu
    have := update_shape t reg r o hu
    exact ⟨by rw [this]; exact h.wf, by intro c e; rw [this]; exact h.mirror c e⟩

theorem mirror_init : Mirror [] [] :=
  ⟨⟨List.nodup_nil, by simp [shape], by simp [shape]⟩, by intro c e; simp [memS, shape, World.has, World.comps]⟩

/-- looking a context up succeeds exactly for the holders recorded in the registry's shape -/
theorem get_iff_memS (reg : Registry) (hwf : ShapeWF (shape reg)) (c e : Nat) :
    (reg.get c e).isSome ↔ memS (shape reg) c e := by
  unfold Registry.get
  constructor
  · intro h
    cases hi : reg.index c with
    | none => simp [hi] at h
    | some gi =>
      obtain ⟨g, hg, hgid⟩ := index_spec reg c gi hi
      simp only [hi, hg] at h
      refine ⟨(g.ty, g.entities), ?_, hgid, ?_⟩
      · simp only [shape, List.mem_map]; exact ⟨g, List.mem_of_getElem? hg, rfl⟩
      · cases g with
        | exclusive ty is =>
          simp only [Option.isSome_map] at h
          obtain ⟨p, hp⟩ := Option.isSome_iff_exists.mp h
          have hm := List.mem_of_find?_eq_some hp
          have hpe := List.find?_some hp
          simp only [beq_iff_eq] at hpe
          simp only [Group.entities, List.mem_map]
          exact ⟨p, hm, hpe⟩
        | shared ty es ctx =>
          simp only at h
          split at h
          · rename_i hc; simpa [Group.entities] using hc
          · simp at h
  · rintro ⟨p, hp, hpid, hpe⟩
    simp only [shape, List.mem_map] at hp
    obtain ⟨g, hg, rfl⟩ := hp
    -- the group found by `index` is this one (one group per type)
    have hex : ∃ x ∈ reg, (fun g : Group => g.ty.id == c) x = true := ⟨g, hg, by simpa using hpid⟩
    have hlt := List.findIdx_lt_length_of_exists hex
    have hidx : reg.index c = some (reg.findIdx (fun g => g.ty.id == c)) := by
      simp [Registry.index, hlt]
    obtain ⟨g', hg', hgid'⟩ := index_spec reg c _ hidx
    obtain ⟨j, hj⟩ := List.getElem?_of_mem hg
    have hsame : reg.findIdx (fun g => g.ty.id == c) = j := by
      apply idx_unique (shape reg) hwf.types _ _ (g'.ty, g'.entities) (g.ty, g.entities)
      · simp [shape, hg']
      · simp [shape, hj]
      · simp only; rw [hgid', hpid]
    rw [hsame] at hg'
    rw [hj] at hg'
    cases hg'
    simp only [hidx, hsame, hj]
    cases g with
    | exclusive ty is =>
      simp only [Group.entities, List.mem_map] at hpe
      obtain ⟨q, hq, hqe⟩ := hpe
      simp only [Option.isSome_map]
      rw [List.find?_isSome]
      exact ⟨q, hq, by simpa using hqe⟩
    | shared ty es ctx =>
      have hmem : e ∈ es := by simpa [Group.entities] using hpe
      simp [hmem]


end BEI
