/-
  Characterisation of one `ActionBind::update` in declarative terms (used by C03, C04, C05, C12).
-/
import BEI.Proofs.Loop
namespace BEI

/-- the value after a chain of modifiers, in declaration order -/
def runMods (av : ActionsView) (t : Tick) : List Mod → Value → Value
  | [], v => v
  | m :: ms, v => runMods av t ms (m.apply av t v).2

/-- the results of a list of conditions, all evaluated on the same value -/
def runConds (av : ActionsView) (t : Tick) (cs : List Cond) (v : Value) : List Res :=
  cs.map (fun c => ((c.eval av t v).2.2, (c.eval av t v).2.1))

theorem applyModifiers_value (av : ActionsView) (t : Tick) :
    ∀ (ms : List Mod) (tr : Tracker), (tr.applyModifiers av t ms).1.value = runMods av t ms tr.value := by
  intro ms
  induction ms with
  | nil => intro tr; rfl
  | cons m ms ih => intro tr; simp only [Tracker.applyModifiers, runMods]; exact ih _

theorem note_value (tr : Tracker) (k : Kind) (s : AState) : (tr.note k s).value = tr.value := by
  cases k <;> rfl

theorem applyConditions_results (av : ActionsView) (t : Tick) :
    ∀ (cs : List Cond) (tr : Tracker), resultsOf (tr.applyConditions av t cs).2.2 = runConds av t cs tr.value := by
  intro cs
  induction cs with
  | nil => intro tr; rfl
  | cons c cs ih =>
    intro tr
    simp only [Tracker.applyConditions, resultsOf, runConds, List.map_cons]
    rw [ih, note_value]
    rfl

/-- facts about one evaluated input: its condition results are those of its conditions on its modified raw value,
    and its state obeys the law -/
theorem evalInput_spec (r : Reader) (av : ActionsView) (t : Tick) (b : InputBind) (e : Ev)
    (h : (evalInput r av t b).2.1 = some e) :
    e.input = b.input
    ∧ e.tracker.value = runMods av t b.mods (r.value b.input)
    ∧ e.results = runConds av t b.conds e.tracker.value
    ∧ e.state = lawState e.results e.tracker.value.asBool
    ∧ ¬ (b.ignored = true ∧ r.activeUnconsumed b.input = true) := by
  unfold evalInput at h
  split at h
  · simp at h
  · rename_i hign
    simp only [Option.some.injEq] at h
    subst h
    have hm := applyModifiers_spec av t b.mods (Tracker.new (r.value b.input)) [] (TInv.new _)
    have hc := applyConditions_spec av t b.conds ((Tracker.new (r.value b.input)).applyModifiers av t b.mods).1 [] hm.1
    have hv := applyModifiers_value av t b.mods (Tracker.new (r.value b.input))
    refine ⟨rfl, ?_, ?_, ?_, ?_⟩
    · simp only [hc.2.1, hv]; rfl
    · simp only [applyConditions_results, hc.2.1]
    · have := state_of_TInv _ _ hc.1
      simpa [Ev.state] using this
    · simpa using hign

/-- the result of one `ActionBind::update`, in declarative terms -/
theorem update_char (ab : ActionBind) (r : Reader) (av : ActionsView) (t : Tick) (es : List Nat)
    (o : ActionBind.Out) (h : ab.update r av t es = some o) :
    ∃ old d, av.get? ab.action = some old ∧ o.actions.get? ab.action = some d ∧
      let C := contributing (evalAll r av t ab.bindings)
      let merged := mergedValue ab.dim ab.accum (C.map (·.tracker.value))
      let v' := runMods av t ab.mods merged
      let rs := C.flatMap (·.results) ++ runConds av t ab.conds v'
      d = old.update t (lawState rs v'.asBool) (v'.convert ab.dim)
      ∧ o.eventsBlocked = lawEventsBlocked rs
      ∧ o.consumed = (if ab.consume && lawState rs v'.asBool != .none then C.map (·.input) else [])
      ∧ o.reader = o.consumed.foldl Reader.consume r
      ∧ o.log.map Inv.id = (evalLog r av t ab.bindings).map Inv.id ++ ab.mods.map (·.id) ++ ab.conds.map (·.id)
      ∧ o.bind.mods.map (·.id) = ab.mods.map (·.id) ∧ o.bind.conds.map (·.id) = ab.conds.map (·.id)
      ∧ o.bind.bindings = ab.bindings.map (fun b => (evalInput r av t b).1) := by
  have hloop := loopInputs_eq ab r av t ab.bindings { tracker := Tracker.new (Value.zero ab.dim) }
  have hinv := MInv.fold ab (evalAll r av t ab.bindings) [] _ (MInv.init ab) (evalAll_TInv r av t ab.bindings)
  simp only [List.nil_append] at hinv
  obtain ⟨hl1, hl2, hl3⟩ := hloop
  simp only [LoopAcc.core, Prod.mk.injEq] at hl2
  obtain ⟨ht, _, hb⟩ := hl2
  unfold ActionBind.update at h
  simp only at h
  generalize ab.loopInputs r av t { tracker := Tracker.new (Value.zero ab.dim) } ab.bindings = lp at *
  obtain ⟨bs', acc⟩ := lp
  simp only at hl1 hl3 ht hb h
  split at h
  · cases h
  · rename_i old hold
    simp only [Option.some.injEq] at h
    subst h
    refine ⟨old, _, hold, ActionsView.get?_set_same _ _ _ _ hold, ?_⟩
    have hflags : TInv acc.tracker ((contributing (evalAll r av t ab.bindings)).flatMap (·.results)) := by
      rw [ht]; exact hinv.flags
    have hval : acc.tracker.value = mergedValue ab.dim ab.accum ((contributing (evalAll r av t ab.bindings)).map (·.tracker.value)) := by
      rw [ht]; exact hinv.val
    have hm := applyModifiers_spec av t ab.mods acc.tracker _ hflags
    have hmv := applyModifiers_value av t ab.mods acc.tracker
    have hc := applyConditions_spec av t ab.conds (acc.tracker.applyModifiers av t ab.mods).1 _ hm.1
    have hcr := applyConditions_results av t ab.conds (acc.tracker.applyModifiers av t ab.mods).1
    have hst := state_of_TInv _ _ hc.1
    rw [hcr, hc.2.1, hmv, hval] at hst
    have heb := hc.1.eb
    rw [hcr, hmv, hval] at heb
    have hvalue : ((acc.tracker.applyModifiers av t ab.mods).1.applyConditions av t ab.conds).1.value
        = runMods av t ab.mods (mergedValue ab.dim ab.accum ((contributing (evalAll r av t ab.bindings)).map (·.tracker.value))) := by
      rw [hc.2.1, hmv, hval]
    refine ⟨?_, ?_, ?_, rfl, ?_, hm.2.2.2, hc.2.2.2.1, ?_⟩
    · simp only [hst, hvalue]
    · exact heb
    · simp only [hst, hb, hinv.buf]
      cases ab.consume <;> simp
    · simp only [hl3, List.nil_append, List.map_append, hm.2.2.1, hc.2.2.1, List.append_assoc]
    · exact hl1

/-- whether a binding is still under the initial held-input suppression in this evaluation -/
def suppressed (r : Reader) (b : InputBind) : Bool := b.ignored && r.activeUnconsumed b.input

/-- the invocations of one input binding: nothing while suppressed, otherwise its modifiers then its conditions,
    each once, in declaration order -/
theorem evalInput_log_ids (r : Reader) (av : ActionsView) (t : Tick) (b : InputBind) :
    (evalInput r av t b).2.2.map Inv.id =
      if suppressed r b then [] else b.mods.map (·.id) ++ b.conds.map (·.id) := by
  unfold evalInput suppressed
  split
  · rfl
  · have hm := applyModifiers_spec av t b.mods (Tracker.new (r.value b.input)) [] (TInv.new _)
    have hc := applyConditions_spec av t b.conds ((Tracker.new (r.value b.input)).applyModifiers av t b.mods).1 [] hm.1
    simp only [List.map_append, hm.2.2.1, hc.2.2.1]

theorem evalLog_ids (r : Reader) (av : ActionsView) (t : Tick) (bs : List InputBind) :
    (evalLog r av t bs).map Inv.id =
      bs.flatMap (fun b => if suppressed r b then [] else b.mods.map (·.id) ++ b.conds.map (·.id)) := by
  induction bs with
  | nil => rfl
  | cons b bs ih =>
    simp only [evalLog, List.flatMap_cons, List.map_append] at ih ⊢
    rw [evalInput_log_ids, ih]

/-- `update` succeeds whenever the action has an `ActionsData` entry (the only `expect` on the path) -/
theorem update_total (ab : ActionBind) (r : Reader) (av : ActionsView) (t : Tick) (es : List Nat)
    (h : (av.get? ab.action).isSome) : (ab.update r av t es).isSome := by
  unfold ActionBind.update
  simp only
  split
  · rename_i hn; simp [hn] at h
  · rfl

end BEI
