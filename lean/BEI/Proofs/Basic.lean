/-
  Helper lemmas about `ActionsView` and the evaluation loops (kept apart from the property theorems).
-/
import BEI.Model.App
namespace BEI

namespace ActionsView

theorem get?_set_same (av : ActionsView) (a : Nat) (d old : ActionData) (h : av.get? a = some old) :
    (av.set a d).get? a = some d := by
  induction av with
  | nil => simp [get?] at h
  | cons p rest ih =>
    obtain ⟨k, d'⟩ := p
    by_cases hk : k = a
    · simp [set, get?, hk]
    · have hk' : (k == a) = false := by simp [hk]
      simp only [get?, hk'] at h
      simp [set, get?, hk', ih h]

theorem get?_set_other (av : ActionsView) (a b : Nat) (d : ActionData) (h : b ≠ a) :
    (av.set a d).get? b = av.get? b := by
  induction av with
  | nil => simp [set]
  | cons p rest ih =>
    obtain ⟨k, d'⟩ := p
    by_cases hk : k = a
    · subst hk
      have hkb : (k == b) = false := by simp; omega
      simp [set, get?, hkb]
    · have hk' : (k == a) = false := by simp [hk]
      by_cases hb : k = b
      · subst hb
        simp [set, get?, hk]
      · have hb' : (k == b) = false := by simp [hb]
        simp [set, hk', get?, hb', ih]

theorem keys_set (av : ActionsView) (a : Nat) (d : ActionData) : (av.set a d).map (·.1) = av.map (·.1) := by
  induction av with
  | nil => rfl
  | cons p rest ih =>
    obtain ⟨k, d'⟩ := p
    by_cases hk : (k == a) = true
    · simp [set, hk]
    · simp [set, hk, ih]

end ActionsView

end BEI
