/-
  Invariants of the context registry (helper lemmas for C02, C06, C07, C14).
-/
import BEI.Proofs.Basic
namespace BEI

/-- groups are ordered by descending priority -/
def SortedDesc (reg : Registry) : Prop := reg.Pairwise (fun a b => a.ty.priority ≥ b.ty.priority)

theorem takeWhile_append_dropWhile_len {α : Type _} (p : α → Bool) (l : List α) :
    l.take (l.takeWhile p).length = l.takeWhile p ∧ l.drop (l.takeWhile p).length = l.dropWhile p := by
  induction l with
  | nil => simp
  | cons x xs ih =>
    by_cases h : p x = true
    · simp [List.takeWhile, List.dropWhile, h, ih.1, ih.2]
    · simp [List.takeWhile, List.dropWhile, h]

theorem dropWhile_head_not {α : Type _} (p : α → Bool) (l : List α) (y : α) (ys : List α)
    (h : l.dropWhile p = y :: ys) : p y = false := by
  induction l with
  | nil => simp at h
  | cons x xs ih =>
    by_cases hx : p x = true
    · rw [List.dropWhile_cons_of_pos hx] at h; exact ih h
    · rw [List.dropWhile_cons_of_neg hx] at h
      cases h
      simpa using hx

/-- inserting a group at `insertPos` keeps the registry sorted -/
theorem insert_sorted (reg : Registry) (g : Group) (h : SortedDesc reg) :
    SortedDesc (reg.take (reg.insertPos g.ty.priority) ++ [g] ++ reg.drop (reg.insertPos g.ty.priority)) := by
  unfold Registry.insertPos
  obtain ⟨h1, h2⟩ := takeWhile_append_dropWhile_len (fun x : Group => decide (x.ty.priority > g.ty.priority)) reg
  rw [h1, h2]
  have hsplit : reg.takeWhile (fun x => decide (x.ty.priority > g.ty.priority)) ++
      reg.dropWhile (fun x => decide (x.ty.priority > g.ty.priority)) = reg := List.takeWhile_append_dropWhile
  unfold SortedDesc at *
  rw [← hsplit] at h
  rw [List.pairwise_append] at h
  obtain ⟨ht, hd, _⟩ := h
  have htw : ∀ x ∈ reg.takeWhile (fun x => decide (x.ty.priority > g.ty.priority)), x.ty.priority > g.ty.priority := by
    intro x hx
    have := List.all_eq_true.mp (List.all_takeWhile (l := reg) (p := fun x => decide (x.ty.priority > g.ty.priority))) x hx
    simpa using this
  have hdw : ∀ x ∈ reg.dropWhile (fun x => decide (x.ty.priority > g.ty.priority)), x.ty.priority ≤ g.ty.priority := by
    intro x hx
    cases hdl : reg.dropWhile (fun x => decide (x.ty.priority > g.ty.priority)) with
    | nil => rw [hdl] at hx; simp at hx
    | cons y ys =>
      have hy : ¬ (y.ty.priority > g.ty.priority) := by
        have := dropWhile_head_not (fun x : Group => decide (x.ty.priority > g.ty.priority)) reg y ys hdl
        simpa using this
      rw [hdl] at hx hd
      rcases List.mem_cons.mp hx with rfl | hx
      · omega
      · have := (List.pairwise_cons.mp hd).1 x hx
        omega
  rw [List.append_assoc, List.pairwise_append]
  refine ⟨ht, ?_, ?_⟩
  · simp only [List.singleton_append, List.pairwise_cons]
    exact ⟨fun x hx => hdw x hx, hd⟩
  · intro a ha b hb
    simp only [List.singleton_append, List.mem_cons] at hb
    rcases hb with rfl | hb
    · have := htw a ha; omega
    · have := htw a ha; have := hdw b hb; omega

theorem sorted_of_map_eq (a b : Registry) (h : a.map (·.ty.priority) = b.map (·.ty.priority)) (hs : SortedDesc a) :
    SortedDesc b := by
  unfold SortedDesc at *
  have ha : (a.map (·.ty.priority)).Pairwise (· ≥ ·) := List.pairwise_map.mpr hs
  rw [h] at ha
  exact List.pairwise_map.mp ha

theorem sorted_eraseIdx (reg : Registry) (i : Nat) (h : SortedDesc reg) : SortedDesc (reg.eraseIdx i) :=
  List.Pairwise.sublist (List.eraseIdx_sublist reg i) h

theorem map_set_same {α β : Type _} (f : α → β) (l : List α) (i : Nat) (x : α) (hx : ∀ y, l[i]? = some y → f x = f y) :
    (l.set i x).map f = l.map f := by
  induction l generalizing i with
  | nil => simp
  | cons y ys ih =>
    cases i with
    | zero => simp [hx y (by simp)]
    | succ n => simp only [List.set_cons_succ, List.map_cons]; rw [ih n (fun z hz => hx z (by simpa using hz))]

theorem map_modify_same {α β : Type _} (f : α → β) (l : List α) (i : Nat) (g : α → α) (hg : ∀ y, f (g y) = f y) :
    (l.modify i g).map f = l.map f := by
  induction l generalizing i with
  | nil => simp
  | cons y ys ih =>
    cases i with
    | zero => simp [List.modify, hg]
    | succ n => simp [List.modify_succ_cons, ih]

/-- the list of context types of the registry -/
def tys (reg : Registry) : List CtxType := reg.map Group.ty

theorem add_tys (reg : Registry) (mk : Factory) (ty : CtxType) (e : Nat) :
    (∃ i, reg.index ty.id = some i ∧ tys (reg.add mk ty e) = tys reg) ∨
    (reg.index ty.id = none ∧ ∃ g : Group, g.ty = ty ∧
      reg.add mk ty e = reg.take (reg.insertPos ty.priority) ++ [g] ++ reg.drop (reg.insertPos ty.priority)) := by
  unfold Registry.add
  cases hi : reg.index ty.id with
  | some i =>
    left
    refine ⟨i, rfl, ?_⟩
    simp only [tys]
    apply map_modify_same
    intro y; cases y <;> rfl
  | none =>
    right
    refine ⟨rfl, ?_⟩
    simp only
    by_cases hs : ty.shared = true
    · exact ⟨Group.shared ty [e] (mk ty.id e), rfl, by simp [hs]⟩
    · exact ⟨Group.exclusive ty [(e, mk ty.id e)], rfl, by simp [hs]⟩

/-- `add` keeps the registry sorted by descending priority -/
theorem add_sorted (reg : Registry) (mk : Factory) (ty : CtxType) (e : Nat) (h : SortedDesc reg) :
    SortedDesc (reg.add mk ty e) := by
  rcases add_tys reg mk ty e with ⟨i, _, ht⟩ | ⟨_, g, hg, heq⟩
  · apply sorted_of_map_eq reg _ _ h
    have := congrArg (List.map CtxType.priority) ht
    simp only [tys, List.map_map] at this
    exact this.symm
  · rw [heq]
    have := insert_sorted reg g h
    rwa [hg] at this

def Group.instances : Group → List ContextInstance
  | .exclusive _ is => is.map (·.2)
  | .shared _ _ ctx => [ctx]

theorem mem_swapRemove.{u} {α : Type u} (l : List α) (i : Nat) (x : α) (h : x ∈ swapRemove l i) : x ∈ l := by
  unfold swapRemove at h
  split at h
  · cases hl : l.getLast? with
    | none => rw [hl] at h; exact h
    | some last =>
      rw [hl] at h
      have h1 := List.dropLast_subset _ h
      rcases List.mem_or_eq_of_mem_set h1 with h2 | h2
      · exact h2
      · rw [h2]; exact List.mem_of_getLast? hl
  · exact List.dropLast_subset _ h

/-- the instance a group holds for an entity -/
def Group.ctxOf (g : Group) (e : Nat) : Option ContextInstance :=
  match g with
  | .exclusive _ is => (is.find? (fun p => p.1 == e)).map (·.2)
  | .shared _ es ctx => if es.contains e then some ctx else none

theorem find?_of_findIdx {α : Type _} (p : α → Bool) (l : List α) (x : α) (h : l[l.findIdx p]? = some x) :
    l.find? p = some x := by
  induction l with
  | nil => simp at h
  | cons y ys ih =>
    by_cases hy : p y = true
    · simp [List.findIdx_cons, hy] at h; subst h; simp [List.find?_cons, hy]
    · simp only [List.findIdx_cons, hy, cond_false, List.getElem?_cons_succ] at h
      simp [List.find?_cons, hy, ih h]

/-- everything `remove` does, in one statement -/
theorem remove_char (reg : Registry) (t : Tick) (c e : Nat) (reg' : Registry) (dl : List Delivery)
    (hr : reg.remove t c e = some (reg', dl)) :
    ∃ gi g ctx, reg.index c = some gi ∧ reg[gi]? = some g ∧ g.ctxOf e = some ctx
      ∧ ctx.triggerRemoved t [e] = some dl
      ∧ ((reg' = reg.eraseIdx gi ∧ swapRemove g.entities (g.entities.findIdx (· == e)) = [])
         ∨ ∃ g', g'.ty = g.ty ∧ g'.entities = swapRemove g.entities (g.entities.findIdx (· == e))
              ∧ g'.entities ≠ [] ∧ reg' = reg.set gi g' ∧ (∀ ci ∈ g'.instances, ci ∈ g.instances)) := by
  unfold Registry.remove at hr
  cases hi : reg.index c with
  | none => simp [hi] at hr
  | some gi =>
    simp only [hi] at hr
    cases hg : reg[gi]? with
    | none => simp [hg] at hr
    | some g =>
      simp only [hg] at hr
      cases g with
      | exclusive ty is =>
        simp only at hr
        cases hp : is[List.findIdx (fun p => p.1 == e) is]? with
        | none => simp [hp] at hr
        | some p =>
          obtain ⟨e', ctx⟩ := p
          simp only [hp] at hr
          cases htr : ctx.triggerRemoved t [e] with
          | none => simp [htr] at hr
          | some dl' =>
            simp only [htr] at hr
            have hfind := find?_of_findIdx _ _ _ hp
            have hents : (is.map (·.1)).findIdx (· == e) = is.findIdx (fun p => p.1 == e) := by
              rw [List.findIdx_map]; rfl
            have hsw : (swapRemove is (is.findIdx (fun p => p.1 == e))).map (·.1)
                = swapRemove (is.map (·.1)) ((is.map (·.1)).findIdx (· == e)) := by
              rw [hents]
              unfold swapRemove
              simp only [List.length_map]
              split
              · cases hl : is.getLast? with
                | none => simp [hl, List.getLast?_map]
                | some l => simp [hl, List.getLast?_map, List.map_set, List.map_dropLast]
              · simp [List.map_dropLast]
            have hctx : (Group.exclusive ty is).ctxOf e = some ctx := by simp [Group.ctxOf, hfind]
            by_cases hemp : (swapRemove is (List.findIdx (fun p => p.1 == e) is)).isEmpty = true
            · simp only [hemp, if_true, Option.some.injEq, Prod.mk.injEq] at hr
              obtain ⟨hr1, hr2⟩ := hr
              subst hr2
              refine ⟨gi, _, ctx, rfl, hg, hctx, htr, Or.inl ⟨hr1.symm, ?_⟩⟩
              simp only [Group.entities]
              rw [← hsw]
              simpa using hemp
            · simp only [hemp, Bool.false_eq_true, if_false, Option.some.injEq, Prod.mk.injEq] at hr
              obtain ⟨hr1, hr2⟩ := hr
              subst hr2
              refine ⟨gi, _, ctx, rfl, hg, hctx, htr, Or.inr ⟨Group.exclusive ty (swapRemove is (List.findIdx (fun p => p.1 == e) is)), rfl, ?_, ?_, hr1.symm, ?_⟩⟩
              rotate_left 2
              · intro ci hci
                simp only [Group.instances, List.mem_map] at hci ⊢
                obtain ⟨q, hq, rfl⟩ := hci
                exact ⟨q, mem_swapRemove _ _ _ hq, rfl⟩
              · simp only [Group.entities]; exact hsw
              · simp only [Group.entities]
                intro hnil
                apply hemp
                have := List.map_eq_nil_iff.mp hnil
                simp [this]
      | shared ty es ctx =>
        simp only at hr
        by_cases hlt : List.findIdx (fun x => x == e) es < es.length
        · simp only [hlt, if_true] at hr
          cases htr : ctx.triggerRemoved t [e] with
          | none => simp [htr] at hr
          | some dl' =>
            simp only [htr] at hr
            have hctx : (Group.shared ty es ctx).ctxOf e = some ctx := by
              have : es.contains e = true := by
                have := List.findIdx_lt_length.mp hlt
                obtain ⟨x, hx, hxe⟩ := this
                simp only [beq_iff_eq] at hxe
                subst hxe
                simpa using hx
              have hmem : e ∈ es := by simpa using this
              simp [Group.ctxOf, hmem]
            by_cases hemp : (swapRemove es (List.findIdx (fun x => x == e) es)).isEmpty = true
            · simp only [hemp, if_true, Option.some.injEq, Prod.mk.injEq] at hr
              obtain ⟨hr1, hr2⟩ := hr
              subst hr2
              exact ⟨gi, _, ctx, rfl, hg, hctx, htr, Or.inl ⟨hr1.symm, by simpa [Group.entities] using hemp⟩⟩
            · simp only [hemp, Bool.false_eq_true, if_false, Option.some.injEq, Prod.mk.injEq] at hr
              obtain ⟨hr1, hr2⟩ := hr
              subst hr2
              refine ⟨gi, _, ctx, rfl, hg, hctx, htr, Or.inr ⟨Group.shared ty (swapRemove es (List.findIdx (fun x => x == e) es)) ctx, rfl, rfl, ?_, hr1.symm, fun ci hci => hci⟩⟩
              simp only [Group.entities]
              intro hnil
              apply hemp
              simp [hnil]
        · simp [hlt] at hr

/-- `remove` keeps it sorted (a group keeps its type or disappears) -/
theorem remove_sorted (reg : Registry) (t : Tick) (c e : Nat) (reg' : Registry) (dl : List Delivery)
    (h : SortedDesc reg) (hr : reg.remove t c e = some (reg', dl)) : SortedDesc reg' := by
  obtain ⟨gi, g, ctx, _, hg, _, _, hcase⟩ := remove_char reg t c e reg' dl hr
  rcases hcase with ⟨rfl, _⟩ | ⟨g', hty, _, _, rfl, _⟩
  · exact sorted_eraseIdx _ _ h
  · apply sorted_of_map_eq reg _ _ h
    symm; apply map_set_same
    intro y hy; rw [hg] at hy; cases hy; rw [hty]

/-- `rebuild` keeps the type list -/
theorem rebuild_tys (reg : Registry) (mk : Factory) (t : Tick) (c : Nat) (reg' : Registry) (dl : List Delivery)
    (hr : reg.rebuild mk t c = some (reg', dl)) : tys reg' = tys reg := by
  unfold Registry.rebuild at hr
  split at hr
  · simp only [Option.some.injEq, Prod.mk.injEq] at hr; rw [← hr.1]
  · split at hr
    · cases hr
    · rename_i ty is hg
      split at hr
      · cases hr
      · simp only [Option.some.injEq, Prod.mk.injEq] at hr; rw [← hr.1]
        apply map_set_same
        intro y hy; rw [hg] at hy; cases hy; rfl
    · rename_i ty es ctx hg
      split at hr
      · simp only [Option.some.injEq, Prod.mk.injEq] at hr; rw [← hr.1]
        apply map_set_same
        intro y hy; rw [hg] at hy; cases hy; rfl
      · cases hr

theorem sorted_of_tys_eq (a b : Registry) (h : tys b = tys a) (hs : SortedDesc a) : SortedDesc b := by
  apply sorted_of_map_eq a b _ hs
  have := congrArg (List.map CtxType.priority) h
  simp only [tys, List.map_map] at this
  exact this.symm

/-- the per-frame update keeps the type list (and the entity lists) -/
theorem update_tys (t : Tick) : ∀ (reg : Registry) (r : Reader) (o : Registry.Out),
    Registry.update r t reg = some o → tys o.reg = tys reg ∧ o.reg.map Group.entities = reg.map Group.entities := by
  intro reg
  induction reg with
  | nil => intro r o h; simp [Registry.update] at h; subst h; simp [tys]
  | cons g rest ih =>
    intro r o h
    cases g with
    | exclusive ty is =>
      simp only [Registry.update] at h
      split at h
      · cases h
      · rename_i is' r' dl lg hex
        split at h
        · cases h
        · rename_i o' ho'
          simp only [Option.some.injEq] at h
          subst h
          obtain ⟨h1, h2⟩ := ih _ _ ho'
          have hents : ∀ (is : List (Nat × ContextInstance)) (r : Reader) is' r' dl lg,
              Registry.updateExclusive r t is = some (is', r', dl, lg) → is'.map (·.1) = is.map (·.1) := by
            intro is
            induction is with
            | nil => intro r is' r' dl lg h; simp [Registry.updateExclusive] at h; simp [h.1]
            | cons p ps ihp =>
              intro r is' r' dl lg h
              obtain ⟨e, ctx⟩ := p
              simp only [Registry.updateExclusive] at h
              split at h
              · cases h
              · split at h
                · cases h
                · rename_i rest' _ _ _ hrest
                  simp only [Option.some.injEq, Prod.mk.injEq] at h
                  rw [← h.1]
                  simp [ihp _ _ _ _ _ hrest]
          simp only [tys, List.map_cons, Group.ty, Group.entities] at h1 h2 ⊢
          exact ⟨by rw [show List.map Group.ty o'.reg = List.map Group.ty rest from h1],
                 by rw [hents _ _ _ _ _ _ hex, h2]⟩
    | shared ty es ctx =>
      simp only [Registry.update] at h
      split at h
      · cases h
      · split at h
        · cases h
        · rename_i o' ho'
          simp only [Option.some.injEq] at h
          subst h
          obtain ⟨h1, h2⟩ := ih _ _ ho'
          simp only [tys, List.map_cons, Group.ty, Group.entities] at h1 h2 ⊢
          exact ⟨by rw [show List.map Group.ty o'.reg = List.map Group.ty rest from h1], by rw [h2]⟩

end BEI
