/-
  Lifting registry invariants to every reachable application state (any history of lifecycle operations issued
  between frames, through commands, or from observers during a frame).
-/
import BEI.Proofs.Reg
namespace BEI

/-- what a predicate on (world, registry) pairs must satisfy to be an invariant of the application -/
structure AppPred (su : Setup) (P : World → Registry → Prop) : Prop where
  op : ∀ (st : AppState) (o : Op) (st' : AppState) (dl : List Delivery),
    P st.world st.reg → applyOp su st o = some (st', dl) → P st'.world st'.reg
  update : ∀ (w : World) (reg : Registry) (r : Reader) (t : Tick) (o : Registry.Out),
    P w reg → Registry.update r t reg = some o → P w o.reg

/-- application states reachable from the empty app by any history -/
inductive Reachable (su : Setup) : AppState → Prop
  | init : Reachable su {}
  | op (st : AppState) (o : Op) (st' : AppState) (dl : List Delivery) :
      Reachable su st → applyOp su st o = some (st', dl) → Reachable su st'
  | frame (st : AppState) (raw : RawInput) (t : Tick) (reacts : Reactions) (posts : List Op) (fuel : Nat) (out : FrameOut) :
      Reachable su st → frame su st raw t reacts posts fuel = some out → Reachable su out.st

theorem runQueue_pred (su : Setup) (P : World → Registry → Prop) (hP : AppPred su P) (reacts : Reactions) :
    ∀ (fuel : Nat) (stack : List QItem) (st : AppState) (k : Nat) (seen : List Delivery) st' k' seen',
      P st.world st.reg → runQueue su reacts fuel stack st k seen = some (st', k', seen') → P st'.world st'.reg := by
  intro fuel
  induction fuel with
  | zero => intro stack st k seen st' k' seen' h hr; simp [runQueue] at hr; obtain ⟨rfl, _, _⟩ := hr; exact h
  | succ n ih =>
    intro stack st k seen st' k' seen' h hr
    cases stack with
    | nil => simp [runQueue] at hr; obtain ⟨rfl, _, _⟩ := hr; exact h
    | cons item rest =>
      cases item with
      | deliver d => simp only [runQueue] at hr; exact ih _ _ _ _ _ _ _ h hr
      | op o =>
        simp only [runQueue] at hr
        split at hr
        · cases hr
        · rename_i st2 dl hop
          exact ih _ _ _ _ _ _ _ (hP.op st o st2 dl h hop) hr

theorem frame_pred (su : Setup) (P : World → Registry → Prop) (hP : AppPred su P)
    (st : AppState) (raw : RawInput) (t : Tick) (reacts : Reactions) (posts : List Op) (fuel : Nat) (out : FrameOut)
    (h : P st.world st.reg) (hf : frame su st raw t reacts posts fuel = some out) : P out.st.world out.st.reg := by
  unfold frame at hf
  simp only at hf
  split at hf
  · cases hf
  · rename_i o ho
    split at hf
    · cases hf
    · rename_i st1 k1 seen1 hq1
      split at hf
      · cases hf
      · rename_i st2 k2 seen2 hq2
        simp only [Option.some.injEq] at hf
        subst hf
        exact runQueue_pred su P hP reacts _ _ _ _ _ _ _ _
          (runQueue_pred su P hP reacts _ _ _ _ _ _ _ _ (hP.update _ _ _ _ _ h ho) hq1) hq2

/-- an application predicate that holds of the empty app holds of every reachable state -/
theorem reachable_pred (su : Setup) (P : World → Registry → Prop) (hP : AppPred su P) (h0 : P [] [])
    (st : AppState) (hr : Reachable su st) : P st.world st.reg := by
  induction hr with
  | init => exact h0
  | op st o st' dl _ hop ih => exact hP.op st o st' dl ih hop
  | frame st raw t reacts posts fuel out _ hf ih => exact frame_pred su P hP st raw t reacts posts fuel out ih hf

/-! ### sortedness is an application invariant -/

theorem removeComps_sorted (t : Tick) (e : Nat) : ∀ (cs : List Nat) (reg reg' : Registry) (dl : List Delivery),
    SortedDesc reg → removeComps t e cs reg = some (reg', dl) → SortedDesc reg' := by
  intro cs
  induction cs with
  | nil => intro reg reg' dl h hr; simp [removeComps] at hr; rw [← hr.1]; exact h
  | cons c cs ih =>
    intro reg reg' dl h hr
    simp only [removeComps] at hr
    split at hr
    · cases hr
    · rename_i reg1 dl1 h1
      split at hr
      · cases hr
      · rename_i reg2 dl2 h2
        simp only [Option.some.injEq, Prod.mk.injEq] at hr
        rw [← hr.1]
        exact ih _ _ _ (remove_sorted _ _ _ _ _ _ h h1) h2

theorem rebuildAll_tys (mk : Factory) (t : Tick) : ∀ (tysl : List CtxType) (reg reg' : Registry) (dl : List Delivery),
    rebuildAll mk t tysl reg = some (reg', dl) → tys reg' = tys reg := by
  intro tysl
  induction tysl with
  | nil => intro reg reg' dl hr; simp [rebuildAll] at hr; rw [← hr.1]
  | cons ty rest ih =>
    intro reg reg' dl hr
    simp only [rebuildAll] at hr
    split at hr
    · cases hr
    · rename_i reg1 dl1 h1
      split at hr
      · cases hr
      · rename_i reg2 dl2 h2
        simp only [Option.some.injEq, Prod.mk.injEq] at hr
        rw [← hr.1, ih _ _ _ h2, rebuild_tys _ _ _ _ _ _ h1]

theorem sorted_appPred (su : Setup) : AppPred su (fun _ reg => SortedDesc reg) where
  op := by
    intro st o st' dl h hop
    cases o with
    | spawn e =>
      simp only [applyOp] at hop
      split at hop <;> (simp only [Option.some.injEq, Prod.mk.injEq] at hop; rw [← hop.1]; exact h)
    | insert e c v =>
      simp only [applyOp] at hop
      split at hop
      · simp only [Option.some.injEq, Prod.mk.injEq] at hop; rw [← hop.1]; exact h
      · split at hop
        · simp only [Option.some.injEq, Prod.mk.injEq] at hop; rw [← hop.1]; exact h
        · split at hop
          · simp only [Option.some.injEq, Prod.mk.injEq] at hop; rw [← hop.1]; exact h
          · simp only [Option.some.injEq, Prod.mk.injEq] at hop; rw [← hop.1]; exact add_sorted _ _ _ _ h
    | remove e c =>
      simp only [applyOp] at hop
      split at hop
      · simp only [Option.some.injEq, Prod.mk.injEq] at hop; rw [← hop.1]; exact h
      · split at hop
        · cases hop
        · rename_i reg' dl' hr
          simp only [Option.some.injEq, Prod.mk.injEq] at hop; rw [← hop.1]
          exact remove_sorted _ _ _ _ _ _ h hr
    | despawn e =>
      simp only [applyOp] at hop
      split at hop
      · simp only [Option.some.injEq, Prod.mk.injEq] at hop; rw [← hop.1]; exact h
      · split at hop
        · cases hop
        · rename_i reg' dl' hr
          simp only [Option.some.injEq, Prod.mk.injEq] at hop; rw [← hop.1]
          exact removeComps_sorted _ _ _ _ _ _ h hr
    | rebuild =>
      simp only [applyOp] at hop
      split at hop
      · cases hop
      · rename_i reg' dl' hr
        simp only [Option.some.injEq, Prod.mk.injEq] at hop; rw [← hop.1]
        exact sorted_of_tys_eq _ _ (rebuildAll_tys _ _ _ _ _ _ hr) h
  update := by
    intro w reg r t o h hu
    exact sorted_of_tys_eq _ _ (update_tys t reg r o hu).1 h

end BEI
