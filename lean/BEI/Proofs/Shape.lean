/-
  The membership "shape" of the registry (which entities each context type's group holds) and the well-formedness
  invariant on it; how `add` / `remove` / `rebuild` / `update` act on the shape.
-/
import BEI.Proofs.Swap
namespace BEI

abbrev Shape := List (CtxType × List Nat)

def shape (reg : Registry) : Shape := reg.map (fun g => (g.ty, g.entities))

/-- entity `e` is a holder of context type `c` -/
def memS (sh : Shape) (c e : Nat) : Prop := ∃ p ∈ sh, p.1.id = c ∧ e ∈ p.2

/-- one group per type, no empty group, no duplicate holder -/
structure ShapeWF (sh : Shape) : Prop where
  types : (sh.map (·.1.id)).Nodup
  nonempty : ∀ p ∈ sh, p.2 ≠ []
  nodup : ∀ p ∈ sh, p.2.Nodup

theorem shape_index (reg : Registry) (c : Nat) :
    reg.index c = (let i := (shape reg).findIdx (fun p => p.1.id == c); if i < (shape reg).length then some i else none) := by
  simp only [Registry.index, shape, List.findIdx_map, List.length_map]
  rfl

theorem findIdx_getElem? {α : Type _} (p : α → Bool) (l : List α) (h : l.findIdx p < l.length) :
    ∃ x, l[l.findIdx p]? = some x ∧ p x = true := by
  have := List.findIdx_getElem (w := h)
  exact ⟨l[l.findIdx p], by simp [List.getElem?_eq_getElem h], this⟩

/-- with one group per type, the group found by `index` is *the* group of that type -/
theorem idx_unique (sh : Shape) (hwf : (sh.map (·.1.id)).Nodup) (i j : Nat) (p q : CtxType × List Nat)
    (hi : sh[i]? = some p) (hj : sh[j]? = some q) (h : p.1.id = q.1.id) : i = j := by
  have hil := lt_length_of_getElem?' sh i p hi
  have hjl := lt_length_of_getElem?' sh j q hj
  have h1 : (sh.map (·.1.id))[i]? = some p.1.id := by simp [hi]
  have h2 : (sh.map (·.1.id))[j]? = some q.1.id := by simp [hj]
  rw [h] at h1
  exact (List.getElem?_inj (by simpa using hil) hwf).mp (h1.trans h2.symm)
where
  lt_length_of_getElem?' (l : Shape) (i : Nat) (x : CtxType × List Nat) (h : l[i]? = some x) : i < l.length := by
    rcases Nat.lt_or_ge i l.length with h' | h'
    · exact h'
    · simp [List.getElem?_eq_none h'] at h

theorem memS_of_getElem (sh : Shape) (i : Nat) (p : CtxType × List Nat) (e : Nat) (hi : sh[i]? = some p) (he : e ∈ p.2) :
    memS sh p.1.id e := ⟨p, List.mem_of_getElem? hi, rfl, he⟩

/-- shape after `add` -/
def addS (sh : Shape) (ty : CtxType) (e : Nat) : Shape :=
  let i := sh.findIdx (fun p => p.1.id == ty.id)
  if i < sh.length then sh.modify i (fun p => (p.1, p.2 ++ [e]))
  else
    let pos := (sh.takeWhile (fun p => p.1.priority > ty.priority)).length
    sh.take pos ++ [(ty, [e])] ++ sh.drop pos

theorem map_modify_comm {α β : Type _} (g : α → β) (f : α → α) (f' : β → β) (hc : ∀ x, g (f x) = f' (g x)) :
    ∀ (l : List α) (i : Nat), (l.modify i f).map g = (l.map g).modify i f' := by
  intro l
  induction l with
  | nil => intro i; simp
  | cons y ys ih =>
    intro i
    cases i with
    | zero => simp [List.modify, hc]
    | succ n => simp [List.modify_succ_cons, ih]

theorem shape_add (reg : Registry) (mk : Factory) (ty : CtxType) (e : Nat) :
    shape (reg.add mk ty e) = addS (shape reg) ty e := by
  unfold Registry.add addS
  rw [shape_index]
  by_cases hlt : (shape reg).findIdx (fun p => p.1.id == ty.id) < (shape reg).length
  · simp only [hlt, if_true]
    simp only [shape]
    rw [map_modify_comm (fun g : Group => (g.ty, g.entities)) _ (fun p => (p.1, p.2 ++ [e]))]
    intro g; cases g <;> simp [Group.ty, Group.entities]
  · simp only [hlt, if_false]
    have hpos : reg.insertPos ty.priority
        = (List.takeWhile (fun p : CtxType × List Nat => decide (p.1.priority > ty.priority)) (shape reg)).length := by
      simp only [Registry.insertPos, shape, List.takeWhile_map, List.length_map]
      rfl
    rw [hpos]
    simp only [shape, List.map_append, List.map_take, List.map_drop]
    by_cases hs : ty.shared = true <;> simp [hs, Group.ty, Group.entities]

/-! ### shapes of the form `a ++ p :: b` -/

theorem memS_split (a b : Shape) (p : CtxType × List Nat) (c e : Nat) :
    memS (a ++ p :: b) c e ↔ memS (a ++ b) c e ∨ (p.1.id = c ∧ e ∈ p.2) := by
  simp only [memS, List.mem_append, List.mem_cons]
  constructor
  · rintro ⟨q, (hq | rfl | hq), h1, h2⟩
    · exact Or.inl ⟨q, Or.inl hq, h1, h2⟩
    · exact Or.inr ⟨h1, h2⟩
    · exact Or.inl ⟨q, Or.inr hq, h1, h2⟩
  · rintro (⟨q, (hq | hq), h1, h2⟩ | ⟨h1, h2⟩)
    · exact ⟨q, Or.inl hq, h1, h2⟩
    · exact ⟨q, Or.inr (Or.inr hq), h1, h2⟩
    · exact ⟨p, Or.inr (Or.inl rfl), h1, h2⟩

theorem wf_split (a b : Shape) (p : CtxType × List Nat) :
    ShapeWF (a ++ p :: b) ↔ ShapeWF (a ++ b) ∧ p.2 ≠ [] ∧ p.2.Nodup ∧ (∀ q ∈ a ++ b, q.1.id ≠ p.1.id) := by
  constructor
  · intro h
    obtain ⟨ht, hn, hd⟩ := h
    simp only [List.map_append, List.map_cons] at ht
    have hperm : (a.map (·.1.id) ++ p.1.id :: b.map (·.1.id)).Perm (p.1.id :: (a.map (·.1.id) ++ b.map (·.1.id))) :=
      List.perm_middle
    have ht' := (List.Perm.nodup_iff hperm).mp ht
    obtain ⟨hnotin, hrest⟩ := List.nodup_cons.mp ht'
    refine ⟨⟨by simpa using hrest, ?_, ?_⟩, hn p (by simp), hd p (by simp), ?_⟩
    · intro q hq; apply hn; simp only [List.mem_append, List.mem_cons] at hq ⊢; rcases hq with h | h <;> simp [h]
    · intro q hq; apply hd; simp only [List.mem_append, List.mem_cons] at hq ⊢; rcases hq with h | h <;> simp [h]
    · intro q hq heq
      apply hnotin
      rw [← heq]
      simp only [List.mem_append, List.mem_map] at hq ⊢
      rcases hq with hq | hq
      · exact Or.inl ⟨q, hq, rfl⟩
      · exact Or.inr ⟨q, hq, rfl⟩
  · rintro ⟨⟨ht, hn, hd⟩, h1, h2, h3⟩
    refine ⟨?_, ?_, ?_⟩
    · simp only [List.map_append, List.map_cons]
      have hperm : (a.map (·.1.id) ++ p.1.id :: b.map (·.1.id)).Perm (p.1.id :: (a.map (·.1.id) ++ b.map (·.1.id))) :=
        List.perm_middle
      rw [List.Perm.nodup_iff hperm, List.nodup_cons]
      refine ⟨?_, by simpa using ht⟩
      intro hmem
      simp only [List.mem_append, List.mem_map] at hmem
      rcases hmem with ⟨q, hq, heq⟩ | ⟨q, hq, heq⟩
      · exact h3 q (by simp [hq]) heq
      · exact h3 q (by simp [hq]) heq
    · intro q hq
      simp only [List.mem_append, List.mem_cons] at hq
      rcases hq with hq | rfl | hq
      · exact hn q (by simp [hq])
      · exact h1
      · exact hn q (by simp [hq])
    · intro q hq
      simp only [List.mem_append, List.mem_cons] at hq
      rcases hq with hq | rfl | hq
      · exact hd q (by simp [hq])
      · exact h2
      · exact hd q (by simp [hq])

/-- no other group has the type of `p` -/
theorem not_memS_rest (a b : Shape) (p : CtxType × List Nat) (h : ∀ q ∈ a ++ b, q.1.id ≠ p.1.id) (e : Nat) :
    ¬ memS (a ++ b) p.1.id e := by
  rintro ⟨q, hq, heq, _⟩
  exact h q hq heq

theorem split_shape (sh : Shape) (i : Nat) (p : CtxType × List Nat) (h : sh[i]? = some p) :
    sh = sh.take i ++ p :: sh.drop (i + 1)
    ∧ (∀ f, sh.modify i f = sh.take i ++ f p :: sh.drop (i + 1))
    ∧ (∀ x, sh.set i x = sh.take i ++ x :: sh.drop (i + 1))
    ∧ sh.eraseIdx i = sh.take i ++ sh.drop (i + 1) := by
  have hs := split_at' sh i p h
  refine ⟨hs, ?_, ?_, ?_⟩
  · intro f
    rw [List.modify_eq_take_drop]
    have : sh.drop i = p :: sh.drop (i + 1) := by
      have hil := idx_unique.lt_length_of_getElem?' sh i p h
      rw [List.drop_eq_getElem_cons hil]
      rw [List.getElem?_eq_getElem hil] at h
      cases h; rfl
    rw [this]; rfl
  · intro x
    have hil := idx_unique.lt_length_of_getElem?' sh i p h
    rw [List.set_eq_take_append_cons_drop, if_pos hil]
  · exact List.eraseIdx_eq_take_drop_succ sh i
where
  split_at' : ∀ (l : Shape) (i : Nat) (x : CtxType × List Nat), l[i]? = some x → l = l.take i ++ x :: l.drop (i + 1) := by
    intro l
    induction l with
    | nil => intro i x h; simp at h
    | cons y ys ih =>
      intro i x h
      cases i with
      | zero => simp at h; subst h; simp
      | succ n =>
        simp only [List.getElem?_cons_succ] at h
        simp only [List.take_succ_cons, List.drop_succ_cons, List.cons_append]
        rw [← ih n x h]


theorem findIdx_ge_all {α : Type _} (p : α → Bool) (l : List α) (h : ¬ l.findIdx p < l.length) : ∀ x ∈ l, p x = false := by
  intro x hx
  cases hpx : p x
  · rfl
  · exact absurd (List.findIdx_lt_length_of_exists ⟨x, hx, hpx⟩) h

/-- effect of `add` on the shape: the entity joins its type's group (created in place if absent) -/
theorem addS_spec (sh : Shape) (ty : CtxType) (e : Nat) (hwf : ShapeWF sh) (hnew : ¬ memS sh ty.id e) :
    ShapeWF (addS sh ty e) ∧ ∀ c' e', memS (addS sh ty e) c' e' ↔ memS sh c' e' ∨ (c' = ty.id ∧ e' = e) := by
  unfold addS
  simp only
  by_cases hlt : sh.findIdx (fun p => p.1.id == ty.id) < sh.length
  · simp only [hlt, if_true]
    obtain ⟨p, hp, hpid⟩ := findIdx_getElem? _ _ hlt
    simp only [beq_iff_eq] at hpid
    obtain ⟨hs, hmod, _, _⟩ := split_shape sh _ p hp
    rw [hmod]
    generalize sh.take (sh.findIdx fun p => p.1.id == ty.id) = a at *
    generalize sh.drop (sh.findIdx (fun p => p.1.id == ty.id) + 1) = b at *
    subst hs
    obtain ⟨hwf', hne, hnd, huniq⟩ := (wf_split a b p).mp hwf
    have henot : e ∉ p.2 := fun he => hnew ⟨p, by simp, hpid, he⟩
    constructor
    · apply (wf_split a b (p.1, p.2 ++ [e])).mpr
      refine ⟨hwf', by simp, ?_, huniq⟩
      rw [List.nodup_append]
      exact ⟨hnd, by simp, by intro x hx y hy; simp at hy; subst hy; exact fun h => henot (h ▸ hx)⟩
    · intro c' e'
      rw [memS_split, memS_split]
      simp only [List.mem_append, List.mem_singleton]
      constructor
      · rintro (h | ⟨h1, h2 | h2⟩)
        · exact Or.inl (Or.inl h)
        · exact Or.inl (Or.inr ⟨h1, h2⟩)
        · exact Or.inr ⟨by rw [← h1, hpid], h2⟩
      · rintro ((h | ⟨h1, h2⟩) | ⟨h1, h2⟩)
        · exact Or.inl h
        · exact Or.inr ⟨h1, Or.inl h2⟩
        · exact Or.inr ⟨by rw [h1, hpid], Or.inr h2⟩
  · simp only [hlt, if_false]
    have hall := findIdx_ge_all _ _ hlt
    generalize (sh.takeWhile fun p => decide (p.1.priority > ty.priority)).length = pos
    have hsplit : sh = sh.take pos ++ sh.drop pos := (List.take_append_drop pos sh).symm
    generalize sh.take pos = a at *
    generalize sh.drop pos = b at *
    subst hsplit
    rw [List.append_assoc, List.singleton_append]
    constructor
    · apply (wf_split a b (ty, [e])).mpr
      refine ⟨hwf, by simp, by simp, ?_⟩
      intro q hq
      have := hall q hq
      simpa using this
    · intro c' e'
      rw [memS_split]
      simp only [List.mem_singleton]
      constructor
      · rintro (h | ⟨h1, h2⟩)
        · exact Or.inl h
        · exact Or.inr ⟨h1.symm, h2⟩
      · rintro (h | ⟨h1, h2⟩)
        · exact Or.inl h
        · exact Or.inr ⟨h1.symm, h2⟩

theorem ctxOf_mem (g : Group) (e : Nat) (ctx : ContextInstance) (h : g.ctxOf e = some ctx) : e ∈ g.entities := by
  cases g with
  | exclusive ty is =>
    simp only [Group.ctxOf, Option.map_eq_some_iff] at h
    obtain ⟨p, hp, _⟩ := h
    have hmem := List.mem_of_find?_eq_some hp
    have hpe := List.find?_some hp
    simp only [beq_iff_eq] at hpe
    simp only [Group.entities, List.mem_map]
    exact ⟨p, hmem, hpe⟩
  | shared ty es c =>
    simp only [Group.ctxOf] at h
    split at h
    · rename_i hc; simpa [Group.entities] using hc
    · cases h

theorem index_spec (reg : Registry) (c gi : Nat) (h : reg.index c = some gi) :
    ∃ g, reg[gi]? = some g ∧ g.ty.id = c := by
  unfold Registry.index at h
  simp only at h
  split at h
  · rename_i hlt
    cases h
    obtain ⟨g, hg, hp⟩ := findIdx_getElem?' _ _ hlt
    exact ⟨g, hg, by simpa using hp⟩
  · cases h
where
  findIdx_getElem?' (p : Group → Bool) (l : Registry) (h : l.findIdx p < l.length) :
      ∃ x, l[l.findIdx p]? = some x ∧ p x = true := by
    have := List.findIdx_getElem (w := h)
    exact ⟨l[l.findIdx p], by simp [List.getElem?_eq_getElem h], this⟩

theorem map_eraseIdx' {α β : Type _} (f : α → β) : ∀ (l : List α) (i : Nat), (l.eraseIdx i).map f = (l.map f).eraseIdx i := by
  intro l
  induction l with
  | nil => intro i; simp
  | cons y ys ih =>
    intro i
    cases i with
    | zero => simp
    | succ n => simp [ih]

/-- effect of `remove` on the shape: the entity leaves its type's group; the group disappears when it was the last -/
theorem remove_shape (reg : Registry) (t : Tick) (c e : Nat) (reg' : Registry) (dl : List Delivery)
    (hr : reg.remove t c e = some (reg', dl)) (hwf : ShapeWF (shape reg)) :
    ShapeWF (shape reg')
    ∧ (∀ c' e', memS (shape reg') c' e' ↔ (memS (shape reg) c' e' ∧ ¬ (c' = c ∧ e' = e)))
    ∧ memS (shape reg) c e := by
  obtain ⟨gi, g, ctx, hidx, hg, hctx, _, hcase⟩ := remove_char reg t c e reg' dl hr
  obtain ⟨g0, hg0, hgid⟩ := index_spec reg c gi hidx
  rw [hg] at hg0; cases hg0
  have hemem := ctxOf_mem g e ctx hctx
  have hsh : (shape reg)[gi]? = some (g.ty, g.entities) := by simp [shape, hg]
  obtain ⟨hs, _, hset, herase⟩ := split_shape (shape reg) gi _ hsh
  have hmem0 : memS (shape reg) c e := ⟨(g.ty, g.entities), List.mem_of_getElem? hsh, hgid, hemem⟩
  generalize hA : (shape reg).take gi = a at *
  generalize hB : (shape reg).drop (gi + 1) = b at *
  rw [hs] at hwf
  obtain ⟨hwf', hne, hnd, huniq⟩ := (wf_split a b _).mp hwf
  obtain ⟨hsw1, hsw2, hsw3⟩ := swapRemove_entities g.entities e hnd hemem
  have hnotrest : ∀ e', ¬ memS (a ++ b) c e' := by
    intro e'; rw [← hgid]; exact not_memS_rest a b (g.ty, g.entities) huniq e'
  rcases hcase with ⟨hreg', hnil⟩ | ⟨g', hty, hents, hnn, hreg', _⟩
  · have hshape' : shape reg' = a ++ b := by
      rw [hreg']
      have : shape (reg.eraseIdx gi) = (shape reg).eraseIdx gi := by simp [shape, map_eraseIdx']
      rw [this, herase]
    have hsingle : g.entities = [e] := hsw3.mp hnil
    refine ⟨by rw [hshape']; exact hwf', ?_, hmem0⟩
    intro c' e'
    rw [hshape', hs, memS_split]
    simp only [hsingle, List.mem_singleton]
    constructor
    · intro h
      refine ⟨Or.inl h, ?_⟩
      rintro ⟨rfl, rfl⟩
      exact hnotrest _ h
    · rintro ⟨h | ⟨h1, h2⟩, hnot⟩
      · exact h
      · exact absurd ⟨by rw [← h1, hgid], h2⟩ hnot
  · have hshape' : shape reg' = a ++ (g.ty, g'.entities) :: b := by
      rw [hreg']
      have : shape (reg.set gi g') = (shape reg).set gi (g'.ty, g'.entities) := by simp [shape, List.map_set]
      rw [this, hset, hty]
    refine ⟨?_, ?_, hmem0⟩
    · rw [hshape']
      apply (wf_split a b _).mpr
      exact ⟨hwf', hnn, by rw [hents]; exact hsw2, huniq⟩
    · intro c' e'
      rw [hshape', hs, memS_split, memS_split]
      simp only [hents, hsw1]
      constructor
      · rintro (h | ⟨h1, h2, h3⟩)
        · refine ⟨Or.inl h, ?_⟩
          rintro ⟨rfl, rfl⟩
          exact hnotrest _ h
        · exact ⟨Or.inr ⟨h1, h2⟩, fun hh => h3 hh.2⟩
      · rintro ⟨h | ⟨h1, h2⟩, hnot⟩
        · exact Or.inl h
        · refine Or.inr ⟨h1, h2, ?_⟩
          intro heq
          exact hnot ⟨by rw [← h1, hgid], heq⟩

/-- `rebuild` and the per-frame `update` do not change the shape -/
theorem shape_of_tys_entities (a b : Registry) (h1 : tys a = tys b) (h2 : a.map Group.entities = b.map Group.entities) :
    shape a = shape b := by
  induction a generalizing b with
  | nil => cases b <;> simp_all [tys, shape]
  | cons x xs ih =>
    cases b with
    | nil => simp [tys] at h1
    | cons y ys =>
      simp only [tys, List.map_cons, List.cons.injEq] at h1 h2
      simp only [shape, List.map_cons, List.cons.injEq]
      exact ⟨by rw [h1.1, h2.1], ih ys h1.2 h2.2⟩

end BEI
