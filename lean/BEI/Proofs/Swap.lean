/-
  `Vec::swap_remove` as a permutation of "erase the element" (helper lemmas for the registry invariants).
-/
import BEI.Proofs.Reg
namespace BEI

theorem swapRemove_decomp {α : Type _} (a : List α) (x : α) (b : List α) :
    (swapRemove (a ++ x :: b) a.length).Perm (a ++ b) := by
  unfold swapRemove
  rcases List.eq_nil_or_concat b with rfl | ⟨b', z, hb⟩
  · have hlen : ¬ (a.length + 1 < (a ++ [x]).length) := by simp
    rw [if_neg hlen, List.dropLast_concat, List.append_nil]
  · rw [List.concat_eq_append] at hb
    subst hb
    have hlen : a.length + 1 < (a ++ x :: (b' ++ [z])).length := by simp
    simp only [hlen, if_true]
    have hlast : (a ++ x :: (b' ++ [z])).getLast? = some z := by
      have : a ++ x :: (b' ++ [z]) = (a ++ x :: b') ++ [z] := by simp
      rw [this, List.getLast?_concat]
    simp only [hlast]
    have hset : (a ++ x :: (b' ++ [z])).set a.length z = a ++ z :: (b' ++ [z]) := by
      rw [List.set_append_right _ _ (Nat.le_refl _)]
      simp
    rw [hset]
    have : a ++ z :: (b' ++ [z]) = (a ++ z :: b') ++ [z] := by simp
    rw [this, List.dropLast_concat]
    -- a ++ z :: b' ~ a ++ (b' ++ [z])
    apply List.Perm.append_left
    have : z :: b' = [z] ++ b' := rfl
    rw [this]
    exact List.perm_append_comm

/-- position of the first element equal to `e` in a list without duplicates -/
theorem findIdx_decomp (l : List Nat) (e : Nat) (h : e ∈ l) :
    ∃ a b, l = a ++ e :: b ∧ l.findIdx (· == e) = a.length ∧ e ∉ a := by
  induction l with
  | nil => simp at h
  | cons y ys ih =>
    by_cases hy : y = e
    · subst hy
      exact ⟨[], ys, rfl, by simp [List.findIdx_cons], by simp⟩
    · have hmem : e ∈ ys := by
        rcases List.mem_cons.mp h with h' | h'
        · exact absurd h'.symm hy
        · exact h'
      obtain ⟨a, b, hl, hi, hn⟩ := ih hmem
      refine ⟨y :: a, b, by simp [hl], ?_, ?_⟩
      · have : (y == e) = false := by simp [hy]
        simp [List.findIdx_cons, this, hi]
      · simp [hn]; exact fun h => hy h.symm

/-- removing `e` with `swap_remove` from a duplicate-free list: what is left is exactly the other elements, still
    without duplicates -/
theorem swapRemove_entities (l : List Nat) (e : Nat) (hnd : l.Nodup) (h : e ∈ l) :
    (∀ x, x ∈ swapRemove l (l.findIdx (· == e)) ↔ (x ∈ l ∧ x ≠ e))
    ∧ (swapRemove l (l.findIdx (· == e))).Nodup
    ∧ (swapRemove l (l.findIdx (· == e)) = [] ↔ l = [e]) := by
  obtain ⟨a, b, hl, hi, hn⟩ := findIdx_decomp l e h
  have hp := swapRemove_decomp a e b
  rw [hi]
  subst hl
  have hnd' : (a ++ b).Nodup := by
    have := hnd
    rw [List.nodup_append] at this ⊢
    obtain ⟨h1, h2, h3⟩ := this
    refine ⟨h1, (List.nodup_cons.mp h2).2, ?_⟩
    intro x hx y hy
    exact h3 x hx y (List.mem_cons_of_mem _ hy)
  have heb : e ∉ b := by
    rw [List.nodup_append] at hnd
    exact (List.nodup_cons.mp hnd.2.1).1
  refine ⟨?_, ?_, ?_⟩
  · intro x
    rw [hp.mem_iff]
    simp only [List.mem_append, List.mem_cons]
    constructor
    · rintro (hx | hx)
      · exact ⟨Or.inl hx, fun hxe => hn (hxe ▸ hx)⟩
      · exact ⟨Or.inr (Or.inr hx), fun hxe => heb (hxe ▸ hx)⟩
    · rintro ⟨hx | hx | hx, hne⟩
      · exact Or.inl hx
      · exact absurd hx hne
      · exact Or.inr hx
  · exact (List.Perm.nodup_iff hp).mpr hnd'
  · constructor
    · intro hnil
      have hlen := hp.length_eq
      rw [hnil] at hlen
      simp only [List.length_nil, List.length_append] at hlen
      have ha : a = [] := List.eq_nil_of_length_eq_zero (by omega)
      have hb : b = [] := List.eq_nil_of_length_eq_zero (by omega)
      simp [ha, hb]
    · intro hl
      have ha : a = [] := by
        cases a with
        | nil => rfl
        | cons y ys => simp at hl
      subst ha
      simp at hl
      subst hl
      simp [swapRemove]

end BEI
