/-
  Totality ("no `expect` fails, nothing panics") of every operation on well-formed states, and preservation of the
  well-formedness by every operation (helper for C07 / C04).
-/
import BEI.Proofs.Mirror
import BEI.Proofs.Update
namespace BEI

/-- bindings and `ActionsData` agree: every bound action has data -/
def CtxWF (ci : ContextInstance) : Prop := ∀ ab ∈ ci.bindings, (ci.actions.get? ab.action).isSome

/-- every instance held by the registry is well formed -/
def RegWF (reg : Registry) : Prop := ∀ g ∈ reg, ∀ ci ∈ g.instances, CtxWF ci

theorem get?_isSome_iff_key (av : ActionsView) (a : Nat) : (av.get? a).isSome ↔ a ∈ av.map (·.1) := by
  induction av with
  | nil => simp [ActionsView.get?]
  | cons p rest ih =>
    obtain ⟨k, d⟩ := p
    by_cases hk : k = a
    · subst hk; simp [ActionsView.get?]
    · have : (k == a) = false := by simp [hk]
      simp only [ActionsView.get?, this, Bool.false_eq_true, if_false, ih, List.map_cons, List.mem_cons]
      constructor
      · intro h; exact Or.inr h
      · rintro (h | h)
        · exact absurd h.symm hk
        · exact h

/-- `trigger_removed` cannot fail on a well-formed instance -/
theorem triggerRemoved_total (ci : ContextInstance) (t : Tick) (es : List Nat) (h : CtxWF ci) :
    (ci.triggerRemoved t es).isSome := by
  unfold ContextInstance.triggerRemoved
  have key : ∀ (bs : List ActionBind) (acc : List Delivery), (∀ ab ∈ bs, (ci.actions.get? ab.action).isSome) →
      (bs.foldlM (fun (acc : List Delivery) (ab : ActionBind) => match ci.actions.get? ab.action with
        | none => none
        | some d => some (acc ++ triggerEvents ab.action (d.update t .none (Value.zero ab.dim)) es)) acc).isSome := by
    intro bs
    induction bs with
    | nil => intro acc _; simp
    | cons b bs ih =>
      intro acc hb
      simp only [List.foldlM_cons]
      obtain ⟨d, hd⟩ := Option.isSome_iff_exists.mp (hb b (by simp))
      simp only [hd, bind, Option.bind]
      exact ih _ (fun x hx => hb x (by simp [hx]))
  exact key ci.bindings [] h

/-- the action loop cannot fail when every remaining binding has data, and it keeps the keys of `ActionsData` and the
    action ids of the bindings -/
theorem loopActions_total (t : Tick) (es : List Nat) :
    ∀ (bs : List ActionBind) (r : Reader) (av : ActionsView), (∀ ab ∈ bs, (av.get? ab.action).isSome) →
      ∃ bs' r' av' dl lg, ContextInstance.loopActions r av t es bs = some (bs', r', av', dl, lg)
        ∧ av'.map (·.1) = av.map (·.1) ∧ bs'.map (·.action) = bs.map (·.action) := by
  intro bs
  induction bs with
  | nil => intro r av _; exact ⟨[], r, av, [], [], rfl, rfl, rfl⟩
  | cons ab rest ih =>
    intro r av h
    obtain ⟨o, ho⟩ := Option.isSome_iff_exists.mp (update_total ab r av t es (h ab (by simp)))
    have hkeys : o.actions.map (·.1) = av.map (·.1) := by
      unfold ActionBind.update at ho
      simp only at ho
      split at ho
      · cases ho
      · simp only [Option.some.injEq] at ho; subst ho; exact ActionsView.keys_set _ _ _
    have hact : o.bind.action = ab.action := by
      unfold ActionBind.update at ho
      simp only at ho
      split at ho
      · cases ho
      · simp only [Option.some.injEq] at ho; subst ho; rfl
    have hrest : ∀ x ∈ rest, (o.actions.get? x.action).isSome := by
      intro x hx
      rw [get?_isSome_iff_key, hkeys, ← get?_isSome_iff_key]
      exact h x (by simp [hx])
    obtain ⟨bs', r', av', dl, lg, hl, hk, hb⟩ := ih o.reader o.actions hrest
    refine ⟨o.bind :: bs', r', av', o.deliveries ++ dl, o.log ++ lg, ?_, by rw [hk, hkeys], by simp [hb, hact]⟩
    simp [ContextInstance.loopActions, ho, hl]

theorem instance_update_total (ci : ContextInstance) (r : Reader) (t : Tick) (es : List Nat) (h : CtxWF ci) :
    ∃ o, ci.update r t es = some o ∧ CtxWF o.inst := by
  obtain ⟨bs', r', av', dl, lg, hl, hk, hb⟩ := loopActions_total t es ci.bindings (r.setGamepad ci.gamepad) ci.actions h
  refine ⟨{ inst := { ci with bindings := bs', actions := av' }, reader := r', deliveries := dl, log := lg }, ?_, ?_⟩
  · simp [ContextInstance.update, hl]
  · intro ab hab
    simp only at hab ⊢
    rw [get?_isSome_iff_key, hk, ← get?_isSome_iff_key]
    -- ab's action id is one of the original ids
    have : ab.action ∈ bs'.map (·.action) := List.mem_map_of_mem hab
    rw [hb] at this
    obtain ⟨x, hx, hxa⟩ := List.mem_map.mp this
    rw [← hxa]
    exact h x hx

theorem updateExclusive_total (t : Tick) : ∀ (is : List (Nat × ContextInstance)) (r : Reader),
    (∀ p ∈ is, CtxWF p.2) →
    ∃ is' r' dl lg, Registry.updateExclusive r t is = some (is', r', dl, lg) ∧ (∀ p ∈ is', CtxWF p.2) := by
  intro is
  induction is with
  | nil => intro r _; exact ⟨[], r, [], [], rfl, by simp⟩
  | cons p ps ih =>
    intro r h
    obtain ⟨e, ctx⟩ := p
    obtain ⟨o, ho, hwf⟩ := instance_update_total ctx r t [e] (h (e, ctx) (by simp))
    obtain ⟨is', r', dl, lg, hl, hw⟩ := ih o.reader (fun q hq => h q (by simp [hq]))
    refine ⟨(e, o.inst) :: is', r', o.deliveries ++ dl, o.log ++ lg, by simp [Registry.updateExclusive, ho, hl], ?_⟩
    intro q hq
    rcases List.mem_cons.mp hq with rfl | hq
    · exact hwf
    · exact hw q hq

/-- the per-frame update cannot fail on a well-formed registry and keeps it well formed -/
theorem registry_update_total (t : Tick) : ∀ (reg : Registry) (r : Reader), RegWF reg →
    ∃ o, Registry.update r t reg = some o ∧ RegWF o.reg := by
  intro reg
  induction reg with
  | nil => intro r _; exact ⟨_, rfl, by intro g hg; cases hg⟩
  | cons g rest ih =>
    intro r h
    have hrest : RegWF rest := fun g' hg' => h g' (by simp [hg'])
    cases g with
    | exclusive ty is =>
      have his : ∀ p ∈ is, CtxWF p.2 := by
        intro p hp
        exact h (.exclusive ty is) (by simp) p.2 (by simp only [Group.instances, List.mem_map]; exact ⟨p, hp, rfl⟩)
      obtain ⟨is', r', dl, lg, hl, hw⟩ := updateExclusive_total t is r his
      obtain ⟨o, ho, hwo⟩ := ih r' hrest
      refine ⟨{ o with reg := .exclusive ty is' :: o.reg, deliveries := dl ++ o.deliveries, log := lg ++ o.log }, ?_, ?_⟩
      · simp [Registry.update, hl, ho]
      · intro g' hg' ci hci
        rcases List.mem_cons.mp hg' with rfl | hg'
        · simp only [Group.instances, List.mem_map] at hci
          obtain ⟨p, hp, rfl⟩ := hci
          exact hw p hp
        · exact hwo g' hg' ci hci
    | shared ty es ctx =>
      have hctx : CtxWF ctx := h (.shared ty es ctx) (by simp) ctx (by simp [Group.instances])
      obtain ⟨oc, hoc, hwc⟩ := instance_update_total ctx r t es hctx
      obtain ⟨o, ho, hwo⟩ := ih oc.reader hrest
      refine ⟨{ o with reg := .shared ty es oc.inst :: o.reg, deliveries := oc.deliveries ++ o.deliveries, log := oc.log ++ o.log }, ?_, ?_⟩
      · simp [Registry.update, hoc, ho]
      · intro g' hg' ci hci
        rcases List.mem_cons.mp hg' with rfl | hg'
        · simp only [Group.instances, List.mem_singleton] at hci
          subst hci; exact hwc
        · exact hwo g' hg' ci hci


/-! ### well-formedness of the world and of the instances is preserved; nothing can fail -/

/-- what `context_instance` builds is well formed for every context type and variant -/
def SetupWF (su : Setup) : Prop := ∀ c v, CtxWF (su.config c v)

/-- the components of each entity are kept sorted by component id without duplicates; each entity is listed once -/
structure WorldOK (w : World) : Prop where
  ents : (w.map (·.1)).Nodup
  comps : ∀ p ∈ w, (p.2.map (·.1)).Pairwise (· < ·)

theorem insertComp_sorted (cs : List (Nat × Nat)) (c v : Nat) (h : (cs.map (·.1)).Pairwise (· < ·)) :
    ((World.insertComp cs c v).map (·.1)).Pairwise (· < ·) ∧ ∀ x ∈ (World.insertComp cs c v).map (·.1), x = c ∨ x ∈ cs.map (·.1) := by
  induction cs with
  | nil => simp [World.insertComp]
  | cons p ps ih =>
    obtain ⟨k, kv⟩ := p
    simp only [List.map_cons, List.pairwise_cons] at h
    obtain ⟨hk, hps⟩ := h
    obtain ⟨ih1, ih2⟩ := ih hps
    simp only [World.insertComp]
    by_cases h1 : (k == c) = true
    · have : k = c := by simpa using h1
      subst this
      simp only [h1, if_true, List.map_cons, List.pairwise_cons]
      exact ⟨⟨hk, hps⟩, by intro x hx; simp only [List.mem_cons] at hx; rcases hx with h | h <;> simp [h]⟩
    · simp only [h1, Bool.false_eq_true, if_false]
      have hne : k ≠ c := by simpa using h1
      by_cases h2 : c < k
      · simp only [h2, if_true, List.map_cons, List.pairwise_cons]
        refine ⟨⟨?_, hk, hps⟩, ?_⟩
        · intro x hx
          simp only [List.mem_cons] at hx
          rcases hx with rfl | hx
          · exact h2
          · exact Nat.lt_trans h2 (hk x hx)
        · intro x hx; simp only [List.mem_cons] at hx ⊢; rcases hx with h | h | h <;> simp [h]
      · simp only [h2, if_false, List.map_cons, List.pairwise_cons]
        refine ⟨⟨?_, ih1⟩, ?_⟩
        · intro x hx
          rcases ih2 x hx with rfl | hx
          · omega
          · exact hk x hx
        · intro x hx
          simp only [List.mem_cons] at hx ⊢
          rcases hx with rfl | hx
          · exact Or.inr (Or.inl rfl)
          · rcases ih2 x hx with h | h
            · exact Or.inl h
            · exact Or.inr (Or.inr h)

theorem setComps_keys (w : World) (e : Nat) (cs : List (Nat × Nat)) : (w.setComps e cs).map (·.1) = w.map (·.1) := by
  simp only [World.setComps, List.map_map]
  apply List.map_congr_left
  intro p _
  simp only [Function.comp]
  split <;> rfl

theorem comps_mem (w : World) (e : Nat) (h : w.alive e = true) (hnd : (w.map (·.1)).Nodup) : (e, w.comps e) ∈ w := by
  induction w with
  | nil => simp [World.alive] at h
  | cons p ps ih =>
    obtain ⟨k, kcs⟩ := p
    by_cases hk : k = e
    · subst hk; simp [World.comps]
    · have hke : (k == e) = false := by simp [hk]
      simp only [World.alive, List.any_cons, hke, Bool.false_or] at h
      simp only [List.map_cons, List.nodup_cons] at hnd
      simp only [World.comps, hke, Bool.false_eq_true, if_false, List.mem_cons]
      exact Or.inr (ih h hnd.2)

theorem worldOK_setComps (w : World) (e : Nat) (cs : List (Nat × Nat)) (h : WorldOK w) (hcs : (cs.map (·.1)).Pairwise (· < ·)) :
    WorldOK (w.setComps e cs) := by
  refine ⟨by rw [setComps_keys]; exact h.ents, ?_⟩
  intro p hp
  simp only [World.setComps, List.mem_map] at hp
  obtain ⟨q, hq, rfl⟩ := hp
  split
  · exact hcs
  · exact h.comps q hq

/-- the combined invariant -/
structure Good (w : World) (reg : Registry) : Prop where
  mirror : Mirror w reg
  regwf : RegWF reg
  world : WorldOK w

theorem regWF_add (su : Setup) (hs : SetupWF su) (w : World) (reg : Registry) (ty : CtxType) (e : Nat) (h : RegWF reg) :
    RegWF (reg.add (su.factory w) ty e) := by
  unfold Registry.add
  cases hi : reg.index ty.id with
  | some i =>
    simp only
    intro g hg ci hci
    rw [List.mem_iff_getElem?] at hg
    obtain ⟨j, hj⟩ := hg
    rw [List.getElem?_modify] at hj
    cases hrj : reg[j]? with
    | none => simp [hrj] at hj
    | some g0 =>
      simp only [hrj, Option.map_eq_map, Option.map_some, Option.some.injEq] at hj
      have hg0 : g0 ∈ reg := List.mem_of_getElem? hrj
      by_cases hij : i = j
      · simp only [hij, if_true] at hj
        subst hj
        cases g0 with
        | exclusive t is =>
          simp only [Group.instances, List.map_append, List.map_cons, List.map_nil, List.mem_append, List.mem_singleton] at hci
          rcases hci with hci | rfl
          · exact h _ hg0 ci (by simpa [Group.instances] using hci)
          · exact hs _ _
        | shared t es ctx =>
          exact h _ hg0 ci (by simpa [Group.instances] using hci)
      · simp only [hij, if_false] at hj
        subst hj
        exact h _ hg0 ci hci
  | none =>
    simp only
    intro g hg ci hci
    simp only [List.mem_append, List.mem_singleton] at hg
    rcases hg with (hg | rfl) | hg
    · exact h g (List.mem_of_mem_take hg) ci hci
    · split at hci
      · simp only [Group.instances, List.mem_singleton] at hci; subst hci; exact hs _ _
      · simp only [Group.instances, List.map_cons, List.map_nil, List.mem_singleton] at hci; subst hci; exact hs _ _
    · exact h g (List.mem_of_mem_drop hg) ci hci

theorem regWF_remove (reg : Registry) (t : Tick) (c e : Nat) (reg' : Registry) (dl : List Delivery)
    (h : RegWF reg) (hr : reg.remove t c e = some (reg', dl)) : RegWF reg' := by
  obtain ⟨gi, g, ctx, _, hg, _, _, hcase⟩ := remove_char reg t c e reg' dl hr
  rcases hcase with ⟨rfl, _⟩ | ⟨g', _, _, _, rfl, hsub⟩
  · intro g0 hg0 ci hci
    exact h g0 ((List.eraseIdx_sublist reg gi).subset hg0) ci hci
  · intro g0 hg0 ci hci
    rcases List.mem_or_eq_of_mem_set hg0 with h1 | h1
    · exact h g0 h1 ci hci
    · subst h1
      exact h g (List.mem_of_getElem? hg) ci (hsub ci hci)

theorem regWF_rebuild (su : Setup) (hs : SetupWF su) (w : World) (reg : Registry) (t : Tick) (c : Nat) (reg' : Registry)
    (dl : List Delivery) (h : RegWF reg) (hr : reg.rebuild (su.factory w) t c = some (reg', dl)) : RegWF reg' := by
  unfold Registry.rebuild at hr
  split at hr
  · simp only [Option.some.injEq, Prod.mk.injEq] at hr; rw [← hr.1]; exact h
  · rename_i gi _
    split at hr
    · cases hr
    · rename_i ty is hg
      split at hr
      · cases hr
      · rename_i is' dl' hre
        simp only [Option.some.injEq, Prod.mk.injEq] at hr; rw [← hr.1]
        intro g0 hg0 ci hci
        rcases List.mem_or_eq_of_mem_set hg0 with h1 | h1
        · exact h g0 h1 ci hci
        · subst h1
          -- every rebuilt instance comes from the factory
          have hall : ∀ (is is' : List (Nat × ContextInstance)) (dl : List Delivery),
              Registry.rebuildExclusive (su.factory w) t c is = some (is', dl) → ∀ p ∈ is', CtxWF p.2 := by
            intro is
            induction is with
            | nil => intro is' dl h; simp [Registry.rebuildExclusive] at h; intro p hp; rw [h.1] at hp; cases hp
            | cons p ps ih =>
              intro is' dl h
              obtain ⟨e0, ctx0⟩ := p
              simp only [Registry.rebuildExclusive] at h
              split at h
              · rename_i dl1 rest' dl2 h1 h2
                simp only [Option.some.injEq, Prod.mk.injEq] at h
                rw [← h.1]
                intro q hq
                rcases List.mem_cons.mp hq with rfl | hq
                · exact hs _ _
                · exact ih _ _ h2 q hq
              · cases h
          simp only [Group.instances, List.mem_map] at hci
          obtain ⟨q, hq, rfl⟩ := hci
          exact hall _ _ _ hre q hq
    · rename_i ty es ctx hg
      split at hr
      · simp only [Option.some.injEq, Prod.mk.injEq] at hr; rw [← hr.1]
        intro g0 hg0 ci hci
        rcases List.mem_or_eq_of_mem_set hg0 with h1 | h1
        · exact h g0 h1 ci hci
        · subst h1
          simp only [Group.instances, List.mem_singleton] at hci
          subst hci; exact hs _ _
      · cases hr

end BEI
