/-
  Totality ("no `expect` fails, nothing panics") of every operation on well-formed states, and preservation of the
  well-formedness by every operation (helper for C07 / C04).
-/
import BEI.Proofs.Mirror
import BEI.Proofs.Update
namespace BEI

/-- bindings and `ActionsData` agree: every bound action has data -/
def CtxWF (ci : ContextInstance) : Prop := ∀ ab ∈ ci.bindings, (ci.actions.get? ab.action).isSome

/-- every instance held by the registry is well formed -/
def RegWF (reg : Registry) : Prop := ∀ g ∈ reg, ∀ ci ∈ g.instances, CtxWF ci

theorem get?_isSome_iff_key (av : ActionsView) (a : Nat) : (av.get? a).isSome ↔ a ∈ av.map (·.1) := by
  induction av with
  | nil => simp [ActionsView.get?]
  | cons p rest ih =>
    obtain ⟨k, d⟩ := p
    by_cases hk : k = a
    · subst hk; simp [ActionsView.get?]
    · have : (k == a) = false := by simp [hk]
      simp only [ActionsView.get?, this, Bool.false_eq_true, if_false, ih, List.map_cons, List.mem_cons]
      constructor
      · intro h; exact Or.inr h
      · rintro (h | h)
        · exact absurd h.symm hk
        · exact h

/-- `trigger_removed` cannot fail on a well-formed instance -/
theorem triggerRemoved_total (ci : ContextInstance) (t : Tick) (es : List Nat) (h : CtxWF ci) :
    (ci.triggerRemoved t es).isSome := by
  unfold ContextInstance.triggerRemoved
  have key : ∀ (bs : List ActionBind) (acc : List Delivery), (∀ ab ∈ bs, (ci.actions.get? ab.action).isSome) →
      (bs.foldlM (fun (acc : List Delivery) (ab : ActionBind) => match ci.actions.get? ab.action with
        | none => none
        | some d => some (acc ++ triggerEvents ab.action (d.update t .none (Value.zero ab.dim)) es)) acc).isSome := by
    intro bs
    induction bs with
    | nil => intro acc _; simp
    | cons b bs ih =>
      intro acc hb
      simp only [List.foldlM_cons]
      obtain ⟨d, hd⟩ := Option.isSome_iff_exists.mp (hb b (by simp))
      simp only [hd, bind, Option.bind]
      exact ih _ (fun x hx => hb x (by simp [hx]))
  exact key ci.bindings [] h

/-- the action loop cannot fail when every remaining binding has data, and it keeps the keys of `ActionsData` and the
    action ids of the bindings -/
theorem loopActions_total (t : Tick) (es : List Nat) :
    ∀ (bs : List ActionBind) (r : Reader) (av : ActionsView), (∀ ab ∈ bs, (av.get? ab.action).isSome) →
      ∃ bs' r' av' dl lg, ContextInstance.loopActions r av t es bs = some (bs', r', av', dl, lg)
        ∧ av'.map (·.1) = av.map (·.1) ∧ bs'.map (·.action) = bs.map (·.action) := by
  intro bs
  induction bs with
  | nil => intro r av _; exact ⟨[], r, av, [], [], rfl, rfl, rfl⟩
  | cons ab rest ih =>
    intro r av h
    obtain ⟨o, ho⟩ := Option.isSome_iff_exists.mp (update_total ab r av t es (h ab (by simp)))
    have hkeys : o.actions.map (·.1) = av.map (·.1) := by
      unfold ActionBind.update at ho
      simp only at ho
      split at ho
      · cases ho
      · simp only [Option.some.injEq] at ho; subst ho; exact ActionsView.keys_set _ _ _
    have hact : o.bind.action = ab.action := by
      unfold ActionBind.update at ho
      simp only at ho
      split at ho
      · cases ho
      · simp only [Option.some.injEq] at ho; subst ho; rfl
    have hrest : ∀ x ∈ rest, (o.actions.get? x.action).isSome := by
      intro x hx
      rw [get?_isSome_iff_key, hkeys, ← get?_isSome_iff_key]
      exact h x (by simp [hx])
    obtain ⟨bs', r', av', dl, lg, hl, hk, hb⟩ := ih o.reader o.actions hrest
    refine ⟨o.bind :: bs', r', av', o.deliveries ++ dl, o.log ++ lg, ?_, by rw [hk, hkeys], by simp [hb, hact]⟩
    simp [ContextInstance.loopActions, ho, hl]

theorem instance_update_total (ci : ContextInstance) (r : Reader) (t : Tick) (es : List Nat) (h : CtxWF ci) :
    ∃ o, ci.update r t es = some o ∧ CtxWF o.inst := by
  obtain ⟨bs', r', av', dl, lg, hl, hk, hb⟩ := loopActions_total t es ci.bindings (r.setGamepad ci.gamepad) ci.actions h
  refine ⟨{ inst := { ci with bindings := bs', actions := av' }, reader := r', deliveries := dl, log := lg }, ?_, ?_⟩
  · simp [ContextInstance.update, hl]
  · intro ab hab
    simp only at hab ⊢
    rw [get?_isSome_iff_key, hk, ← get?_isSome_iff_key]
    -- ab's action id is one of the original ids
    have : ab.action ∈ bs'.map (·.action) := List.mem_map_of_mem hab
    rw [hb] at this
    obtain ⟨x, hx, hxa⟩ := List.mem_map.mp this
    rw [← hxa]
    exact h x hx

theorem updateExclusive_total (t : Tick) : ∀ (is : List (Nat × ContextInstance)) (r : Reader),
    (∀ p ∈ is, CtxWF p.2) →
    ∃ is' r' dl lg, Registry.updateExclusive r t is = some (is', r', dl, lg) ∧ (∀ p ∈ is', CtxWF p.2) := by
  intro is
  induction is with
  | nil => intro r _; exact ⟨[], r, [], [], rfl, by simp⟩
  | cons p ps ih =>
    intro r h
    obtain ⟨e, ctx⟩ := p
    obtain ⟨o, ho, hwf⟩ := instance_update_total ctx r t [e] (h (e, ctx) (by simp))
    obtain ⟨is', r', dl, lg, hl, hw⟩ := ih o.reader (fun q hq => h q (by simp [hq]))
    refine ⟨(e, o.inst) :: is', r', o.deliveries ++ dl, o.log ++ lg, by simp [Registry.updateExclusive, ho, hl], ?_⟩
    intro q hq
    rcases List.mem_cons.mp hq with rfl | hq
    · exact hwf
    · exact hw q hq

/-- the per-frame update cannot fail on a well-formed registry and keeps it well formed -/
theorem registry_update_total (t : Tick) : ∀ (reg : Registry) (r : Reader), RegWF reg →
    ∃ o, Registry.update r t reg = some o ∧ RegWF o.reg := by
  intro reg
  induction reg with
  | nil => intro r _; exact ⟨_, rfl, by intro g hg; cases hg⟩
  | cons g rest ih =>
    intro r h
    have hrest : RegWF rest := fun g' hg' => h g' (by simp [hg'])
    cases g with
    | exclusive ty is =>
      have his : ∀ p ∈ is, CtxWF p.2 := by
        intro p hp
        exact h (.exclusive ty is) (by simp) p.2 (by simp only [Group.instances, List.mem_map]; exact ⟨p, hp, rfl⟩)
      obtain ⟨is', r', dl, lg, hl, hw⟩ := updateExclusive_total t is r his
      obtain ⟨o, ho, hwo⟩ := ih r' hrest
      refine ⟨{ o with reg := .exclusive ty is' :: o.reg, deliveries := dl ++ o.deliveries, log := lg ++ o.log }, ?_, ?_⟩
      · simp [Registry.update, hl, ho]
      · intro g' hg' ci hci
        rcases List.mem_cons.mp hg' with rfl | hg'
        · simp only [Group.instances, List.mem_map] at hci
          obtain ⟨p, hp, rfl⟩ := hci
          exact hw p hp
        · exact hwo g' hg' ci hci
    | shared ty es ctx =>
      have hctx : CtxWF ctx := h (.shared ty es ctx) (by simp) ctx (by simp [Group.instances])
      obtain ⟨oc, hoc, hwc⟩ := instance_update_total ctx r t es hctx
      obtain ⟨o, ho, hwo⟩ := ih oc.reader hrest
      refine ⟨{ o with reg := .shared ty es oc.inst :: o.reg, deliveries := oc.deliveries ++ o.deliveries, log := oc.log ++ o.log }, ?_, ?_⟩
      · simp [Registry.update, hoc, ho]
      · intro g' hg' ci hci
        rcases List.mem_cons.mp hg' with rfl | hg'
        · simp only [Group.instances, List.mem_singleton] at hci
          subst hci; exact hwc
        · exact hwo g' hg' ci hci


/-! ### well-formedness of the world and of the instances is preserved; nothing can fail -/

/-- what `context_instance` builds is well formed for every context type and variant -/
def SetupWF (su : Setup) : Prop := ∀ c v, CtxWF (su.config c v)

/-- the components of each entity are kept sorted by component id without duplicates; each entity is listed once -/
structure WorldOK (w : World) : Prop where
  ents : (w.map (·.1)).Nodup
  comps : ∀ p ∈ w, (p.2.map (·.1)).Pairwise (· < ·)

theorem insertComp_sorted (cs : List (Nat × Nat)) (c v : Nat) (h : (cs.map (·.1)).Pairwise (· < ·)) :
    ((World.insertComp cs c v).map (·.1)).Pairwise (· < ·) ∧ ∀ x ∈ (World.insertComp cs c v).map (·.1), x = c ∨ x ∈ cs.map (·.1) := by
  induction cs with
  | nil => simp [World.insertComp]
  | cons p ps ih =>
    obtain ⟨k, kv⟩ := p
    simp only [List.map_cons, List.pairwise_cons] at h
    obtain ⟨hk, hps⟩ := h
    obtain ⟨ih1, ih2⟩ := ih hps
    simp only [World.insertComp]
    by_cases h1 : (k == c) = true
    · have : k = c := by simpa using h1
      subst this
      simp only [h1, if_true, List.map_cons, List.pairwise_cons]
      exact ⟨⟨hk, hps⟩, by intro x hx; simp only [List.mem_cons] at hx; rcases hx with h | h <;> simp [h]⟩
    · simp only [h1, Bool.false_eq_true, if_false]
      have hne : k ≠ c := by simpa using h1
      by_cases h2 : c < k
      · simp only [h2, if_true, List.map_cons, List.pairwise_cons]
        refine ⟨⟨?_, hk, hps⟩, ?_⟩
        · intro x hx
          simp only [List.mem_cons] at hx
          rcases hx with rfl | hx
          · exact h2
          · exact Nat.lt_trans h2 (hk x hx)
        · intro x hx; simp only [List.mem_cons] at hx ⊢; rcases hx with h | h | h <;> simp [h]
      · simp only [h2, if_false, List.map_cons, List.pairwise_cons]
        refine ⟨⟨?_, ih1⟩, ?_⟩
        · intro x hx
          rcases ih2 x hx with rfl | hx
          · omega
          · exact hk x hx
        · intro x hx
          simp only [List.mem_cons] at hx ⊢
          rcases hx with rfl | hx
          · exact Or.inr (Or.inl rfl)
          · rcases ih2 x hx with h | h
            · exact Or.inl h
            · exact Or.inr (Or.inr h)

theorem setComps_keys (w : World) (e : Nat) (cs : List (Nat × Nat)) : (w.setComps e cs).map (·.1) = w.map (·.1) := by
  simp only [World.setComps, List.map_map]
  apply List.map_congr_left
  intro p _
  simp only [Function.comp]
  split <;> rfl

theorem comps_mem (w : World) (e : Nat) (h : w.alive e = true) (hnd : (w.map (·.1)).Nodup) : (e, w.comps e) ∈ w := by
  induction w with
  | nil => simp [World.alive] at h
  | cons p ps ih =>
    obtain ⟨k, kcs⟩ := p
    by_cases hk : k = e
    · subst hk; simp [World.comps]
    · have hke : (k == e) = false := by simp [hk]
      simp only [World.alive, List.any_cons, hke, Bool.false_or] at h
      simp only [List.map_cons, List.nodup_cons] at hnd
      simp only [World.comps, hke, Bool.false_eq_true, if_false, List.mem_cons]
      exact Or.inr (ih h hnd.2)

theorem worldOK_setComps (w : World) (e : Nat) (cs : List (Nat × Nat)) (h : WorldOK w) (hcs : (cs.map (·.1)).Pairwise (· < ·)) :
    WorldOK (w.setComps e cs) := by
  refine ⟨by rw [setComps_keys]; exact h.ents, ?_⟩
  intro p hp
  simp only [World.setComps, List.mem_map] at hp
  obtain ⟨q, hq, rfl⟩ := hp
  split
  · exact hcs
  · exact h.comps q hq

/-- the combined invariant -/
structure Good (w : World) (reg : Registry) : Prop where
  mirror : Mirror w reg
  regwf : RegWF reg
  world : WorldOK w

theorem regWF_add (su : Setup) (hs : SetupWF su) (w : World) (reg : Registry) (ty : CtxType) (e : Nat) (h : RegWF reg) :
    RegWF (reg.add (su.factory w) ty e) := by
  unfold Registry.add
  cases hi : reg.index ty.id with
  | some i =>
    simp only
    intro g hg ci hci
    rw [List.mem_iff_getElem?] at hg
    obtain ⟨j, hj⟩ := hg
    rw [List.getElem?_modify] at hj
    cases hrj : reg[j]? with
    | none => simp [hrj] at hj
    | some g0 =>
      simp only [hrj, Option.map_eq_map, Option.map_some, Option.some.injEq] at hj
      have hg0 : g0 ∈ reg := List.mem_of_getElem? hrj
      by_cases hij : i = j
      · simp only [hij, if_true] at hj
        subst hj
        cases g0 with
        | exclusive t is =>
          simp only [Group.instances, List.map_append, List.map_cons, List.map_nil, List.mem_append, List.mem_singleton] at hci
          rcases hci with hci | rfl
          · exact h _ hg0 ci (by simpa [Group.instances] using hci)
          · exact hs _ _
        | shared t es ctx =>
          exact h _ hg0 ci (by simpa [Group.instances] using hci)
      · simp only [hij, if_false] at hj
        subst hj
        exact h _ hg0 ci hci
  | none =>
    simp only
    intro g hg ci hci
    simp only [List.mem_append, List.mem_singleton] at hg
    rcases hg with (hg | rfl) | hg
    · exact h g (List.mem_of_mem_take hg) ci hci
    · split at hci
      · simp only [Group.instances, List.mem_singleton] at hci; subst hci; exact hs _ _
      · simp only [Group.instances, List.map_cons, List.map_nil, List.mem_singleton] at hci; subst hci; exact hs _ _
    · exact h g (List.mem_of_mem_drop hg) ci hci

theorem regWF_remove (reg : Registry) (t : Tick) (c e : Nat) (reg' : Registry) (dl : List Delivery)
    (h : RegWF reg) (hr : reg.remove t c e = some (reg', dl)) : RegWF reg' := by
  obtain ⟨gi, g, ctx, _, hg, _, _, hcase⟩ := remove_char reg t c e reg' dl hr
  rcases hcase with ⟨rfl, _⟩ | ⟨g', _, _, _, rfl, hsub⟩
  · intro g0 hg0 ci hci
    exact h g0 ((List.eraseIdx_sublist reg gi).subset hg0) ci hci
  · intro g0 hg0 ci hci
    rcases List.mem_or_eq_of_mem_set hg0 with h1 | h1
    · exact h g0 h1 ci hci
    · subst h1
      exact h g (List.mem_of_getElem? hg) ci (hsub ci hci)

theorem regWF_rebuild (su : Setup) (hs : SetupWF su) (w : World) (reg : Registry) (t : Tick) (c : Nat) (reg' : Registry)
    (dl : List Delivery) (h : RegWF reg) (hr : reg.rebuild (su.factory w) t c = some (reg', dl)) : RegWF reg' := by
  unfold Registry.rebuild at hr
  split at hr
  · simp only [Option.some.injEq, Prod.mk.injEq] at hr; rw [← hr.1]; exact h
  · rename_i gi _
    split at hr
    · cases hr
    · rename_i ty is hg
      split at hr
      · cases hr
      · rename_i is' dl' hre
        simp only [Option.some.injEq, Prod.mk.injEq] at hr; rw [← hr.1]
        intro g0 hg0 ci hci
        rcases List.mem_or_eq_of_mem_set hg0 with h1 | h1
        · exact h g0 h1 ci hci
        · subst h1
          -- every rebuilt instance comes from the factory
          have hall : ∀ (is is' : List (Nat × ContextInstance)) (dl : List Delivery),
              Registry.rebuildExclusive (su.factory w) t c is = some (is', dl) → ∀ p ∈ is', CtxWF p.2 := by
            intro is
            induction is with
            | nil => intro is' dl h; simp [Registry.rebuildExclusive] at h; intro p hp; rw [h.1] at hp; cases hp
            | cons p ps ih =>
              intro is' dl h
              obtain ⟨e0, ctx0⟩ := p
              simp only [Registry.rebuildExclusive] at h
              split at h
              · rename_i dl1 rest' dl2 h1 h2
                simp only [Option.some.injEq, Prod.mk.injEq] at h
                rw [← h.1]
                intro q hq
                rcases List.mem_cons.mp hq with rfl | hq
                · exact hs _ _
                · exact ih _ _ h2 q hq
              · cases h
          simp only [Group.instances, List.mem_map] at hci
          obtain ⟨q, hq, rfl⟩ := hci
          exact hall _ _ _ hre q hq
    · rename_i ty es ctx hg
      split at hr
      · simp only [Option.some.injEq, Prod.mk.injEq] at hr; rw [← hr.1]
        intro g0 hg0 ci hci
        rcases List.mem_or_eq_of_mem_set hg0 with h1 | h1
        · exact h g0 h1 ci hci
        · subst h1
          simp only [Group.instances, List.mem_singleton] at hci
          subst hci; exact hs _ _
      · cases hr


/-- removing a holder cannot fail: the group is found, the entity is found in it, and the closing events can be built -/
theorem remove_total (reg : Registry) (t : Tick) (c e : Nat) (hwf : ShapeWF (shape reg)) (hreg : RegWF reg)
    (hmem : memS (shape reg) c e) : (reg.remove t c e).isSome := by
  have hget := (get_iff_memS reg hwf c e).mpr hmem
  unfold Registry.get at hget
  unfold Registry.remove
  cases hi : reg.index c with
  | none => simp [hi] at hget
  | some gi =>
    simp only [hi] at hget ⊢
    cases hg : reg[gi]? with
    | none => simp [hg] at hget
    | some g =>
      simp only [hg] at hget ⊢
      have hgm : g ∈ reg := List.mem_of_getElem? hg
      cases g with
      | exclusive ty is =>
        simp only [Option.isSome_map] at hget
        obtain ⟨p, hp⟩ := Option.isSome_iff_exists.mp hget
        have hpm := List.mem_of_find?_eq_some hp
        have hpe := List.find?_some hp
        have hlt : is.findIdx (fun p => p.1 == e) < is.length := List.findIdx_lt_length_of_exists ⟨p, hpm, hpe⟩
        simp only
        rw [List.getElem?_eq_getElem hlt]
        simp only
        have hctx : CtxWF (is[is.findIdx (fun p => p.1 == e)]).2 :=
          hreg _ hgm _ (by simp only [Group.instances, List.mem_map]; exact ⟨_, List.getElem_mem hlt, rfl⟩)
        obtain ⟨dl, hdl⟩ := Option.isSome_iff_exists.mp (triggerRemoved_total _ t [e] hctx)
        simp only [hdl]
        split <;> rfl
      | shared ty es ctx =>
        simp only at hget
        have hmem' : e ∈ es := by simpa using hget
        have hlt : es.findIdx (fun x => x == e) < es.length := List.findIdx_lt_length_of_exists ⟨e, hmem', by simp⟩
        simp only [hlt, if_true]
        have hctx : CtxWF ctx := hreg _ hgm ctx (by simp [Group.instances])
        obtain ⟨dl, hdl⟩ := Option.isSome_iff_exists.mp (triggerRemoved_total ctx t [e] hctx)
        simp only [hdl]
        split <;> rfl

theorem rebuildExclusive_total (mk : Factory) (t : Tick) (c : Nat) :
    ∀ (is : List (Nat × ContextInstance)), (∀ p ∈ is, CtxWF p.2) → (Registry.rebuildExclusive mk t c is).isSome := by
  intro is
  induction is with
  | nil => intro _; rfl
  | cons p ps ih =>
    intro h
    obtain ⟨e, ctx⟩ := p
    obtain ⟨dl, hdl⟩ := Option.isSome_iff_exists.mp (triggerRemoved_total ctx t [e] (h (e, ctx) (by simp)))
    obtain ⟨x, hx⟩ := Option.isSome_iff_exists.mp (ih (fun q hq => h q (by simp [hq])))
    simp [Registry.rebuildExclusive, hdl, hx]

theorem rebuild_total (reg : Registry) (mk : Factory) (t : Tick) (c : Nat) (hwf : ShapeWF (shape reg)) (hreg : RegWF reg) :
    (reg.rebuild mk t c).isSome := by
  unfold Registry.rebuild
  cases hi : reg.index c with
  | none => rfl
  | some gi =>
    obtain ⟨g, hg, _⟩ := index_spec reg c gi hi
    have hgm : g ∈ reg := List.mem_of_getElem? hg
    simp only [hg]
    cases g with
    | exclusive ty is =>
      have : ∀ p ∈ is, CtxWF p.2 := fun p hp =>
        hreg _ hgm p.2 (by simp only [Group.instances, List.mem_map]; exact ⟨p, hp, rfl⟩)
      obtain ⟨x, hx⟩ := Option.isSome_iff_exists.mp (rebuildExclusive_total mk t c is this)
      simp [hx]
    | shared ty es ctx =>
      have hctx : CtxWF ctx := hreg _ hgm ctx (by simp [Group.instances])
      obtain ⟨dl, hdl⟩ := Option.isSome_iff_exists.mp (triggerRemoved_total ctx t es hctx)
      have hne : es ≠ [] := hwf.nonempty (ty, es) (by simp only [shape, List.mem_map]; exact ⟨_, hgm, rfl⟩)
      cases es with
      | nil => exact absurd rfl hne
      | cons e0 rest => simp [hdl]


theorem removeComps_good (t : Tick) (e : Nat) : ∀ (cs : List Nat) (reg reg' : Registry) (dl : List Delivery),
    RegWF reg → removeComps t e cs reg = some (reg', dl) → RegWF reg' := by
  intro cs
  induction cs with
  | nil => intro reg reg' dl h hr; simp [removeComps] at hr; rw [← hr.1]; exact h
  | cons c cs ih =>
    intro reg reg' dl h hr
    simp only [removeComps] at hr
    split at hr
    · cases hr
    · rename_i reg1 dl1 h1
      split at hr
      · cases hr
      · rename_i reg2 dl2 h2
        simp only [Option.some.injEq, Prod.mk.injEq] at hr
        rw [← hr.1]
        exact ih _ _ _ (regWF_remove _ _ _ _ _ _ h h1) h2

theorem rebuildAll_good (su : Setup) (hs : SetupWF su) (w : World) (t : Tick) :
    ∀ (tysl : List CtxType) (reg reg' : Registry) (dl : List Delivery),
      RegWF reg → rebuildAll (su.factory w) t tysl reg = some (reg', dl) → RegWF reg' := by
  intro tysl
  induction tysl with
  | nil => intro reg reg' dl h hr; simp [rebuildAll] at hr; rw [← hr.1]; exact h
  | cons ty rest ih =>
    intro reg reg' dl h hr
    simp only [rebuildAll] at hr
    split at hr
    · cases hr
    · rename_i reg1 dl1 h1
      split at hr
      · cases hr
      · rename_i reg2 dl2 h2
        simp only [Option.some.injEq, Prod.mk.injEq] at hr
        rw [← hr.1]
        exact ih _ _ _ (regWF_rebuild su hs w _ _ _ _ _ h h1) h2

theorem filter_sorted (cs : List (Nat × Nat)) (p : Nat × Nat → Bool) (h : (cs.map (·.1)).Pairwise (· < ·)) :
    ((cs.filter p).map (·.1)).Pairwise (· < ·) :=
  List.Pairwise.sublist (List.Sublist.map _ List.filter_sublist) h

/-- the combined invariant is preserved by every lifecycle operation and by the per-frame update -/
theorem good_appPred (su : Setup) (hs : SetupWF su) : AppPred su Good where
  op := by
    intro st o st' dl h hop
    have hm := (mirror_appPred su).op st o st' dl h.mirror hop
    refine ⟨hm, ?_, ?_⟩
    · -- instances stay well formed
      cases o with
      | spawn e => simp only [applyOp] at hop; split at hop <;> (simp only [Option.some.injEq, Prod.mk.injEq] at hop; rw [← hop.1]; exact h.regwf)
      | insert e c v =>
        simp only [applyOp] at hop
        split at hop
        · simp only [Option.some.injEq, Prod.mk.injEq] at hop; rw [← hop.1]; exact h.regwf
        · split at hop
          · simp only [Option.some.injEq, Prod.mk.injEq] at hop; rw [← hop.1]; exact h.regwf
          · split at hop
            · simp only [Option.some.injEq, Prod.mk.injEq] at hop; rw [← hop.1]; exact h.regwf
            · simp only [Option.some.injEq, Prod.mk.injEq] at hop; rw [← hop.1]; exact regWF_add su hs _ _ _ _ h.regwf
      | remove e c =>
        simp only [applyOp] at hop
        split at hop
        · simp only [Option.some.injEq, Prod.mk.injEq] at hop; rw [← hop.1]; exact h.regwf
        · split at hop
          · cases hop
          · rename_i reg' dl' hr
            simp only [Option.some.injEq, Prod.mk.injEq] at hop; rw [← hop.1]
            exact regWF_remove _ _ _ _ _ _ h.regwf hr
      | despawn e =>
        simp only [applyOp] at hop
        split at hop
        · simp only [Option.some.injEq, Prod.mk.injEq] at hop; rw [← hop.1]; exact h.regwf
        · split at hop
          · cases hop
          · rename_i reg' dl' hr
            simp only [Option.some.injEq, Prod.mk.injEq] at hop; rw [← hop.1]
            exact removeComps_good _ _ _ _ _ _ h.regwf hr
      | rebuild =>
        simp only [applyOp] at hop
        split at hop
        · cases hop
        · rename_i reg' dl' hr
          simp only [Option.some.injEq, Prod.mk.injEq] at hop; rw [← hop.1]
          exact rebuildAll_good su hs _ _ _ _ _ _ h.regwf hr
    · -- the world stays well formed
      have hw := h.world
      cases o with
      | spawn e =>
        simp only [applyOp] at hop
        split at hop
        · simp only [Option.some.injEq, Prod.mk.injEq] at hop; rw [← hop.1]; exact hw
        · rename_i hal
          simp only [Option.some.injEq, Prod.mk.injEq] at hop; rw [← hop.1]
          refine ⟨?_, ?_⟩
          · simp only [List.map_append, List.map_cons, List.map_nil]
            rw [List.nodup_append]
            refine ⟨hw.ents, by simp, ?_⟩
            intro x hx y hy
            simp only [List.mem_singleton] at hy
            subst hy
            intro hxe
            subst hxe
            exact hal ((World.alive_iff_mem _ _).mpr hx)
          · intro p hp
            rcases List.mem_append.mp hp with hp | hp
            · exact hw.comps p hp
            · simp only [List.mem_singleton] at hp; subst hp; simp
      | insert e c v =>
        simp only [applyOp] at hop
        split at hop
        · simp only [Option.some.injEq, Prod.mk.injEq] at hop; rw [← hop.1]; exact hw
        · rename_i hal
          have hal' : st.world.alive e = true := by simpa using hal
          have hsorted := (insertComp_sorted (st.world.comps e) c v (hw.comps _ (comps_mem _ _ hal' hw.ents))).1
          split at hop
          · simp only [Option.some.injEq, Prod.mk.injEq] at hop; rw [← hop.1]; exact hw
          · split at hop
            · simp only [Option.some.injEq, Prod.mk.injEq] at hop; rw [← hop.1]
              exact worldOK_setComps _ _ _ hw hsorted
            · simp only [Option.some.injEq, Prod.mk.injEq] at hop; rw [← hop.1]
              exact worldOK_setComps _ _ _ hw hsorted
      | remove e c =>
        simp only [applyOp] at hop
        split at hop
        · simp only [Option.some.injEq, Prod.mk.injEq] at hop; rw [← hop.1]; exact hw
        · rename_i hcond
          split at hop
          · cases hop
          · simp only [Option.some.injEq, Prod.mk.injEq] at hop; rw [← hop.1]
            have hal : st.world.alive e = true := by
              simp only [Bool.or_eq_true, Bool.not_eq_true', not_or, Bool.not_eq_false] at hcond
              exact hcond.1
            exact worldOK_setComps _ _ _ hw (filter_sorted _ _ (hw.comps _ (comps_mem _ _ hal hw.ents)))
      | despawn e =>
        simp only [applyOp] at hop
        split at hop
        · simp only [Option.some.injEq, Prod.mk.injEq] at hop; rw [← hop.1]; exact hw
        · split at hop
          · cases hop
          · simp only [Option.some.injEq, Prod.mk.injEq] at hop; rw [← hop.1]
            refine ⟨List.Pairwise.sublist (List.Sublist.map _ List.filter_sublist) hw.ents, ?_⟩
            intro p hp
            exact hw.comps p (List.mem_filter.mp hp).1
      | rebuild =>
        simp only [applyOp] at hop
        split at hop
        · cases hop
        · simp only [Option.some.injEq, Prod.mk.injEq] at hop; rw [← hop.1]; exact hw
  update := by
    intro w reg r t o h hu
    obtain ⟨o', ho', hwf'⟩ := registry_update_total t reg r h.regwf
    rw [hu] at ho'
    cases ho'
    exact ⟨(mirror_appPred su).update w reg r t o h.mirror hu, hwf', h.world⟩

theorem good_init : Good [] [] where
  mirror := mirror_init
  regwf := fun g hg => nomatch hg
  world := { ents := List.nodup_nil, comps := fun p hp => nomatch hp }

/-- no lifecycle operation can fail on a good state -/
theorem applyOp_total (su : Setup) (hs : SetupWF su) (st : AppState) (h : Good st.world st.reg) (o : Op) :
    (applyOp su st o).isSome := by
  cases o with
  | spawn e => simp only [applyOp]; split <;> rfl
  | insert e c v =>
    simp only [applyOp]
    split
    · rfl
    · split
      · rfl
      · split <;> rfl
  | remove e c =>
    simp only [applyOp]
    split
    · rfl
    · rename_i hcond
      have hhas : st.world.has e c = true := by
        simp only [Bool.or_eq_true, Bool.not_eq_true', not_or, Bool.not_eq_false] at hcond
        exact hcond.2
      have hmem := (h.mirror.mirror c e).mpr hhas
      obtain ⟨x, hx⟩ := Option.isSome_iff_exists.mp (remove_total st.reg st.tick c e h.mirror.wf h.regwf hmem)
      simp [hx]
  | despawn e =>
    simp only [applyOp]
    split
    · rfl
    · rename_i hal
      have hal' : st.world.alive e = true := by simpa using hal
      -- removing the entity's components one after the other: each is still held when its turn comes
      have key : ∀ (cs : List Nat) (reg : Registry), ShapeWF (shape reg) → RegWF reg → cs.Nodup →
          (∀ c ∈ cs, memS (shape reg) c e) → (removeComps st.tick e cs reg).isSome := by
        intro cs
        induction cs with
        | nil => intro reg _ _ _ _; rfl
        | cons c cs ih =>
          intro reg hwf hreg hnd hall
          obtain ⟨x, hx⟩ := Option.isSome_iff_exists.mp (remove_total reg st.tick c e hwf hreg (hall c (by simp)))
          obtain ⟨reg1, dl1⟩ := x
          obtain ⟨hwf1, hm1, _⟩ := remove_shape _ _ _ _ _ _ hx hwf
          have hreg1 := regWF_remove _ _ _ _ _ _ hreg hx
          obtain ⟨hcn, hnd'⟩ := List.nodup_cons.mp hnd
          have hall1 : ∀ c' ∈ cs, memS (shape reg1) c' e := by
            intro c' hc'
            rw [hm1]
            exact ⟨hall c' (by simp [hc']), fun hh => hcn (hh.1 ▸ hc')⟩
          obtain ⟨y, hy⟩ := Option.isSome_iff_exists.mp (ih reg1 hwf1 hreg1 hnd' hall1)
          simp [removeComps, hx, hy]
      have hsorted := h.world.comps _ (comps_mem _ _ hal' h.world.ents)
      have hnd : ((st.world.comps e).map (·.1)).Nodup := by
        apply List.Pairwise.imp _ hsorted
        intro a b hab; exact Nat.ne_of_lt hab
      have hall : ∀ c ∈ (st.world.comps e).map (·.1), memS (shape st.reg) c e := by
        intro c hc
        rw [h.mirror.mirror, World.has_def, List.any_eq_true]
        obtain ⟨p, hp, rfl⟩ := List.mem_map.mp hc
        exact ⟨p, hp, by simp⟩
      obtain ⟨x, hx⟩ := Option.isSome_iff_exists.mp (key _ st.reg h.mirror.wf h.regwf hnd hall)
      simp [hx]
  | rebuild =>
    simp only [applyOp]
    have key : ∀ (tysl : List CtxType) (reg : Registry), ShapeWF (shape reg) → RegWF reg → SetupWF su →
        (rebuildAll (su.factory st.world) st.tick tysl reg).isSome := by
      intro tysl
      induction tysl with
      | nil => intro reg _ _ _; rfl
      | cons ty rest ih =>
        intro reg hwf hreg hs
        obtain ⟨x, hx⟩ := Option.isSome_iff_exists.mp (rebuild_total reg (su.factory st.world) st.tick ty.id hwf hreg)
        obtain ⟨reg1, dl1⟩ := x
        have hsh := rebuild_shape _ _ _ _ _ _ hx
        have hreg1 := regWF_rebuild su hs _ _ _ _ _ _ hreg hx
        obtain ⟨y, hy⟩ := Option.isSome_iff_exists.mp (ih reg1 (by rw [hsh]; exact hwf) hreg1 hs)
        simp [rebuildAll, hx, hy]
    obtain ⟨x, hx⟩ := Option.isSome_iff_exists.mp (key su.types st.reg h.mirror.wf h.regwf hs)
    simp [hx]

/-- the command queue with arbitrary observer reactions cannot fail either -/
theorem runQueue_total (su : Setup) (hs : SetupWF su) (reacts : Reactions) :
    ∀ (fuel : Nat) (stack : List QItem) (st : AppState) (k : Nat) (seen : List Delivery),
      Good st.world st.reg → (runQueue su reacts fuel stack st k seen).isSome := by
  intro fuel
  induction fuel with
  | zero => intro stack st k seen _; rfl
  | succ n ih =>
    intro stack st k seen h
    cases stack with
    | nil => rfl
    | cons item rest =>
      cases item with
      | deliver d => simp only [runQueue]; exact ih _ _ _ _ h
      | op o =>
        obtain ⟨x, hx⟩ := Option.isSome_iff_exists.mp (applyOp_total su hs st h o)
        obtain ⟨st2, dl⟩ := x
        simp only [runQueue, hx]
        exact ih _ _ _ _ ((good_appPred su hs).op st o st2 dl h hx)

/-- a whole frame cannot fail on a good state -/
theorem frame_total (su : Setup) (hs : SetupWF su) (st : AppState) (raw : RawInput) (t : Tick) (reacts : Reactions)
    (posts : List Op) (fuel : Nat) (h : Good st.world st.reg) : (frame su st raw t reacts posts fuel).isSome := by
  unfold frame
  simp only
  obtain ⟨o, ho, hwf⟩ := registry_update_total t st.reg (({ raw := raw } : Reader).updateState) h.regwf
  simp only [ho]
  have hg1 : Good st.world o.reg := (good_appPred su hs).update st.world st.reg _ t o h ho
  obtain ⟨x, hx⟩ := Option.isSome_iff_exists.mp
    (runQueue_total su hs reacts fuel (o.deliveries.map QItem.deliver) { st with tick := t, reg := o.reg } 0 [] hg1)
  obtain ⟨st1, k1, seen1⟩ := x
  simp only [hx]
  have hg2 : Good st1.world st1.reg :=
    runQueue_pred su Good (good_appPred su hs) reacts _ _ _ _ _ _ _ _ hg1 hx
  obtain ⟨y, hy⟩ := Option.isSome_iff_exists.mp (runQueue_total su hs reacts fuel (posts.map QItem.op) st1 k1 seen1 hg2)
  obtain ⟨st2, k2, seen2⟩ := y
  simp [hy]

end BEI
