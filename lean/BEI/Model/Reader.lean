/-
  Raw input, the consumed set and `InputReader` (mirror of `/repo/src/input/input_reader.rs` and `input.rs`).
  Bevy's input resources are *modelled*: `RawInput` is what `ButtonInput`, the accumulated mouse deltas,
  the `Gamepad` components and the `Interaction` components hold when the crate's system runs.
-/
import BEI.Model.State
namespace BEI

/-- `ModKeys` bitset. -/
structure ModKeys where
  alt : Bool := false
  control : Bool := false
  shift : Bool := false
  super : Bool := false
  deriving DecidableEq, Repr, Inhabited

namespace ModKeys
def empty : ModKeys := {}
def has (m : ModKeys) : ModBit → Bool
  | .alt => m.alt | .control => m.control | .shift => m.shift | .super => m.super
def isEmpty (m : ModKeys) : Bool := !(m.alt || m.control || m.shift || m.super)
def intersects (a b : ModKeys) : Bool :=
  (a.alt && b.alt) || (a.control && b.control) || (a.shift && b.shift) || (a.super && b.super)
def union (a b : ModKeys) : ModKeys :=
  ⟨a.alt || b.alt, a.control || b.control, a.shift || b.shift, a.super || b.super⟩
/-- decode a `ModKeys::from_bits_truncate` mask using the extracted bit values -/
def ofMask (n : Nat) : ModKeys :=
  let bit (b : ModBit) : Bool :=
    match Gen.modKeys.find? (fun r => r.1 == b) with
    | some r => (n / r.2.1) % 2 == 1
    | none => false
  ⟨bit .alt, bit .control, bit .shift, bit .super⟩
/-- `iter_keys`: for each set flag in declaration order, the (left, right) key pair -/
def keyPairs (m : ModKeys) : List (Nat × Nat) :=
  (Gen.modKeys.filter (fun r => m.has r.1)).map (fun r => (r.2.2.1, r.2.2.2))
end ModKeys

/-- `Input`. Keys, buttons and axes are protocol pool indices. -/
inductive Input where
  | key (k : Nat) (m : ModKeys)
  | mbtn (b : Nat) (m : ModKeys)
  | motion (m : ModKeys)
  | wheel (m : ModKeys)
  | padBtn (b : Nat)
  | padAxis (x : Nat)
  deriving DecidableEq, Repr, Inhabited

/-- `GamepadDevice`. -/
inductive Device where
  | any
  | single (g : Nat)
  deriving DecidableEq, Repr, Inhabited

/-- one `Gamepad` component -/
structure Pad where
  handle : Nat
  buttons : List Nat := []
  axes : List (Nat × Rat) := []
  deriving DecidableEq, Repr, Inhabited

namespace Pad
def pressed (p : Pad) (b : Nat) : Bool := p.buttons.contains b
def axisRaw (p : Pad) (x : Nat) : Option Rat :=
  match p.axes.find? (fun a => a.1 == x) with
  | some a => some a.2
  | none => none
def clamp1 (q : Rat) : Rat := if q < -1 then -1 else if 1 < q then 1 else q
end Pad

/-- what Bevy's input resources hold in one frame -/
structure RawInput where
  keys : List Nat := []
  mouseButtons : List Nat := []
  motion : Rat × Rat := (0, 0)
  wheel : Rat × Rat := (0, 0)
  pads : List Pad := []
  /-- some `Interaction` component is not `None` -/
  uiActive : Bool := false
  deriving DecidableEq, Repr, Inhabited

/-- `ConsumedInput` (the `egui` flag is not modelled: feature off). -/
structure Consumed where
  uiWantsMouse : Bool := false
  keys : List Nat := []
  mods : ModKeys := {}
  mouseButtons : List Nat := []
  motion : Bool := false
  wheel : Bool := false
  padButtons : List (Device × Nat) := []
  padAxes : List (Device × Nat) := []
  deriving DecidableEq, Repr, Inhabited

/-- `InputReader`. -/
structure Reader where
  raw : RawInput
  consumed : Consumed := {}
  device : Device := .any
  deriving DecidableEq, Repr, Inhabited

namespace Reader

/-- `update_state`: reset the consumed set, recompute the UI flag. -/
def updateState (r : Reader) : Reader :=
  { r with consumed := { uiWantsMouse := r.raw.uiActive } }

/-- `set_gamepad`. -/
def setGamepad (r : Reader) (d : Device) : Reader := { r with device := d }

/-- `keys.any_pressed([l, r])` for every required modifier -/
def modsDown (r : Reader) (m : ModKeys) : Bool :=
  m.keyPairs.all (fun p => r.raw.keys.contains p.1 || r.raw.keys.contains p.2)

/-- `mod_keys_pressed`. -/
def modKeysPressed (r : Reader) (m : ModKeys) : Bool :=
  !(r.consumed.mods.intersects m) && r.modsDown m

def findPad (r : Reader) (g : Nat) : Option Pad := r.raw.pads.find? (fun p => p.handle == g)

/-- `InputReader::value`. -/
def value (r : Reader) : Input → Value
  | .key k m =>
    .bool (r.raw.keys.contains k && !r.consumed.keys.contains k && r.modKeysPressed m)
  | .mbtn b m =>
    .bool (!r.consumed.uiWantsMouse && r.raw.mouseButtons.contains b
           && !r.consumed.mouseButtons.contains b && r.modKeysPressed m)
  | .motion m =>
    if r.consumed.uiWantsMouse || !r.modKeysPressed m || r.consumed.motion then .a2 0 0
    else .a2 r.raw.motion.1 r.raw.motion.2
  | .wheel m =>
    if r.consumed.uiWantsMouse || !r.modKeysPressed m || r.consumed.wheel then .a2 0 0
    else .a2 r.raw.wheel.1 r.raw.wheel.2
  | .padBtn b =>
    if r.consumed.padButtons.contains (r.device, b) then .bool false
    else match r.device with
      | .any => .bool (r.raw.pads.any (fun p => p.pressed b))
      | .single g => .bool (match r.findPad g with | some p => p.pressed b | none => false)
  | .padAxis x =>
    if r.consumed.padAxes.contains (r.device, x) then .a1 0
    else match r.device with
      | .any =>
        -- first gamepad (query order) reporting a non-zero unclamped value
        .a1 ((r.raw.pads.findSome? (fun p => (p.axisRaw x).filter (fun q => q != 0))).getD 0)
      | .single g =>
        .a1 (((r.findPad g).bind (fun p => (p.axisRaw x).map Pad.clamp1)).getD 0)

/-- `InputReader::active_unconsumed` (added by the D6 fix): physical activity of the input,
    ignoring the consumed set and the UI flag. -/
def activeUnconsumed (r : Reader) : Input → Bool
  | .key k m => r.raw.keys.contains k && r.modsDown m
  | .mbtn b m => r.raw.mouseButtons.contains b && r.modsDown m
  | .motion m => (r.raw.motion != (0, 0)) && r.modsDown m
  | .wheel m => (r.raw.wheel != (0, 0)) && r.modsDown m
  | .padBtn b =>
    match r.device with
    | .any => r.raw.pads.any (fun p => p.pressed b)
    | .single g => (match r.findPad g with | some p => p.pressed b | none => false)
  | .padAxis x =>
    match r.device with
    | .any => r.raw.pads.any (fun p => match p.axisRaw x with | some q => q != 0 | none => false)
    | .single g =>
      (match r.findPad g with
       | some p => (match p.axisRaw x with | some q => Pad.clamp1 q != 0 | none => false)
       | none => false)

/-- `InputReader::consume`. -/
def consume (r : Reader) : Input → Reader
  | .key k m => { r with consumed := { r.consumed with keys := k :: r.consumed.keys, mods := r.consumed.mods.union m } }
  | .mbtn b m => { r with consumed := { r.consumed with mouseButtons := b :: r.consumed.mouseButtons, mods := r.consumed.mods.union m } }
  | .motion m => { r with consumed := { r.consumed with motion := true, mods := r.consumed.mods.union m } }
  | .wheel m => { r with consumed := { r.consumed with wheel := true, mods := r.consumed.mods.union m } }
  | .padBtn b => { r with consumed := { r.consumed with padButtons := (r.device, b) :: r.consumed.padButtons } }
  | .padAxis x => { r with consumed := { r.consumed with padAxes := (r.device, x) :: r.consumed.padAxes } }

end Reader
end BEI
