/-
  A small model of the frame schedule as far as C09 needs it (Bevy's executor is *modelled*, not verified):
  `First`, then any linearisation of the `PreUpdate` systems consistent with the dependency edges — with a sync point
  that applies a system's deferred commands before any system ordered after it runs — then `Update`.
-/
namespace BEI.Sched

/-- the systems of `PreUpdate` that matter: Bevy's `InputSystem` set (folds window events into the input resources),
    the crate's system (`EnhancedInputSystem`), a probe ordered after it, and unrelated systems -/
inductive PSys where
  | input | eis | probe | other (n : Nat)
  deriving DecidableEq, Repr

/-- `R`: contents of the input resources, `E`: pending window events, `D`: what the crate delivers -/
structure World (R E D : Type) where
  res : R
  events : E
  /-- deliveries made so far in this frame (the crate's commands are applied at the sync point right after it) -/
  delivered : Option D := none
  /-- what the probe saw -/
  probed : List (Option D) := []

variable {R E D : Type}

/-- one system run; `absorb` = `InputSystem`, `eval` = the crate's evaluation of the input resources -/
def runSys (absorb : R → E → R) (noEvents : E) (eval : R → D) (w : World R E D) : PSys → World R E D
  | .input => { w with res := absorb w.res w.events, events := noEvents }
  | .eis => { w with delivered := some (eval w.res) }
  | .probe => { w with probed := w.probed ++ [w.delivered] }
  | .other _ => w

def runAll (absorb : R → E → R) (noEvents : E) (eval : R → D) (w : World R E D) (lin : List PSys) : World R E D :=
  lin.foldl (runSys absorb noEvents eval) w

/-- the facts the harness reads off the real schedule graph on every run (`sched …` line) -/
structure Facts where
  eisInPreUpdate : Bool
  inputBeforeEis : Bool
  preUpdateBeforeUpdate : Bool

/-- a linearisation of `PreUpdate` in which each of the three systems runs once, `InputSystem` before the crate's system
    (edge `InputSystem → EnhancedInputSystem`) and the probe after it (`.after(EnhancedInputSystem)`) -/
structure Respects (lin : List PSys) : Prop where
  shape : ∃ a b c d, lin = a ++ [PSys.input] ++ b ++ [PSys.eis] ++ c ++ [PSys.probe] ++ d
    ∧ (∀ x ∈ a ++ b ++ c ++ d, ∃ n, x = PSys.other n)

end BEI.Sched
