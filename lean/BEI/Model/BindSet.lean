/-
  Binding-set expressions (`InputBindSet` and its adapters / presets; mirror of `/repo/src/input_context/input_bind.rs`
  and `preset.rs`, fixes applied).
-/
import BEI.Model.Instance
import BEI.Model.Modifiers
namespace BEI

/-- the ways of denoting a set of input bindings -/
inductive BSet where
  /-- anything `Into<InputBind>`: a raw input, an `Input`, an `InputBind` with its own modifiers / conditions -/
  | single (b : InputBind)
  /-- `&Vec<I>`, `&[I; N]`, `&[I]` of plain inputs -/
  | list (is : List Input)
  /-- a tuple: the members' bindings chained in order (n-ary tuples are iterated chains) -/
  | empty
  | tuple (a b : BSet)
  /-- `with_modifiers_each` / `with_conditions_each` -/
  | modsEach (s : BSet) (ms : List Mod)
  | condsEach (s : BSet) (cs : List Cond)
  /-- presets -/
  | cardinal (n e s w : BSet)
  | bidir (p n : BSet)
  | stick (right : Bool)

namespace BSet

def withMods (b : InputBind) (ms : List Mod) : InputBind := { b with mods := b.mods ++ ms }
def withConds (b : InputBind) (cs : List Cond) : InputBind := { b with conds := b.conds ++ cs }

/-- the modifiers presets attach (not instrumented: id 0) -/
def swzYXZ : Mod := Mod.swizzle 0 .yxz
def negAll : Mod := Mod.negate 0 true true true

/-- `InputBindSet::bindings` -/
def bindings : BSet → List InputBind
  | .single b => [b]
  | .list is => is.map (fun i => { input := i })
  | .empty => []
  | .tuple a b => a.bindings ++ b.bindings
  | .modsEach s ms => s.bindings.map (fun b => withMods b ms)
  | .condsEach s cs => s.bindings.map (fun b => withConds b cs)
  | .cardinal n e s w =>
    n.bindings.map (fun b => withMods b [swzYXZ])
      ++ e.bindings
      ++ s.bindings.map (fun b => withMods b [negAll, swzYXZ])
      ++ w.bindings.map (fun b => withMods b [negAll])
  | .bidir p n => p.bindings ++ n.bindings.map (fun b => withMods b [negAll])
  | .stick right =>
    [{ input := .padAxis (if right then 2 else 0) },
     withMods { input := .padAxis (if right then 3 else 1) } [swzYXZ]]

end BSet

/-- `ActionBind::to(set)` -/
def ActionBind.to (ab : ActionBind) (s : BSet) : ActionBind := { ab with bindings := ab.bindings ++ s.bindings }

end BEI
