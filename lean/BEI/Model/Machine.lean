/-
  Conditions and modifiers as arbitrary state machines (`InputCondition` / `InputModifier` trait objects).
  Built-in ones are instances (Conditions.lean / Modifiers.lean); theorems that quantify over `Cond` / `Mod`
  quantify over every user-defined implementation as well.
-/
import BEI.Model.State
namespace BEI

/-- An `InputCondition` trait object: private state, `evaluate`, and `kind` (called after `evaluate`,
    on the updated object, exactly as `apply_conditions` does). `id` only labels log entries. -/
structure Cond where
  id : Nat
  σ : Type
  s : σ
  step : σ → ActionsView → Tick → Value → σ × AState
  kind : σ → Kind

/-- An `InputModifier` trait object. -/
structure Mod where
  id : Nat
  σ : Type
  s : σ
  step : σ → ActionsView → Tick → Value → σ × Value

/-- What an instrumented condition / modifier records about one invocation. -/
inductive Inv where
  | cond (id : Nat) (input : Value) (out : AState) (kind : Kind)
  | mod (id : Nat) (input : Value) (out : Value)
  deriving DecidableEq, Repr, Inhabited

namespace Inv
def id : Inv → Nat
  | .cond i _ _ _ => i
  | .mod i _ _ => i
end Inv

namespace Cond
/-- one `evaluate` call: updated object, returned state, kind reported afterwards -/
def eval (c : Cond) (av : ActionsView) (t : Tick) (v : Value) : Cond × AState × Kind :=
  let r := c.step c.s av t v
  ({ c with s := r.1 }, r.2, c.kind r.1)
end Cond

namespace Mod
def apply (m : Mod) (av : ActionsView) (t : Tick) (v : Value) : Mod × Value :=
  let r := m.step m.s av t v
  ({ m with s := r.1 }, r.2)
end Mod

end BEI
