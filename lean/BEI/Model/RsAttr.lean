/-
  Simp sets for the generated code: every definition `tools/codegen.py` emits for a unit is tagged with the unit's attribute, so the
  bridge proofs unfold *whatever* functions the translator produced for that unit (including helpers a refactor extracted) without
  naming them.
-/
import Lean
register_simp_attr rs_value
register_simp_attr rs_events
register_simp_attr rs_timer
register_simp_attr rs_conditions
register_simp_attr rs_tracker
register_simp_attr rs_actiondata
register_simp_attr rs_modifiers
register_simp_attr rs_refs
register_simp_attr rs_merge
register_simp_attr rs_loops
