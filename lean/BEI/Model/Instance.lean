/-
  `InputBind`, `ActionBind`, `ContextInstance` and their per-frame evaluation
  (mirror of `/repo/src/input_context/context_instance.rs`, *with the fix commits applied*).
-/
import BEI.Model.Tracker
import BEI.Model.Reader
namespace BEI

/-- `InputBind`. -/
structure InputBind where
  input : Input
  mods : List Mod := []
  conds : List Cond := []
  /-- newly created bindings are ignored until their input is physically inactive once -/
  ignored : Bool := true

/-- `ActionBind` (the per-action binding record; the consume buffer is local to `update`). -/
structure ActionBind where
  action : Nat
  dim : Dim
  consume : Bool
  accum : Accum
  mods : List Mod := []
  conds : List Cond := []
  bindings : List InputBind := []

/-- accumulator of the loop over the input bindings of one action -/
structure LoopAcc where
  tracker : Tracker
  /-- most significant state among the inputs merged so far (D7 fix: tracked separately) -/
  trackerState : AState := .none
  consumeBuffer : List Input := []
  log : List Inv := []

namespace ActionBind

/-- one iteration of the `for binding in &mut self.bindings` loop of `ActionBind::update`:
    returns the updated binding and accumulator. -/
def stepInput (ab : ActionBind) (r : Reader) (av : ActionsView) (t : Tick)
    (acc : LoopAcc) (b : InputBind) : InputBind × LoopAcc :=
  let value := r.value b.input
  if b.ignored && r.activeUnconsumed b.input then
    (b, acc)                                   -- still held since creation: skip entirely
  else
    let cur := Tracker.new value
    let (cur, mods', log1) := cur.applyModifiers av t b.mods
    let (cur, conds', log2) := cur.applyConditions av t b.conds
    let b' : InputBind := { b with mods := mods', conds := conds', ignored := false }
    let acc := { acc with log := acc.log ++ log1 ++ log2 }
    let st := cur.state
    if st == .none then (b', acc)
    else
      match AState.cmp st acc.trackerState with
      | .lt => (b', acc)
      | .eq =>
        (b', { acc with tracker := acc.tracker.combine cur ab.accum,
                        consumeBuffer := if ab.consume then acc.consumeBuffer ++ [b.input] else acc.consumeBuffer })
      | .gt =>
        (b', { acc with tracker := acc.tracker.overwrite cur,
                        trackerState := st,
                        consumeBuffer := if ab.consume then [b.input] else acc.consumeBuffer })

/-- the loop over all input bindings -/
def loopInputs (ab : ActionBind) (r : Reader) (av : ActionsView) (t : Tick) :
    LoopAcc → List InputBind → List InputBind × LoopAcc
  | acc, [] => ([], acc)
  | acc, b :: bs =>
    let (b', acc') := ab.stepInput r av t acc b
    let (bs', acc'') := loopInputs ab r av t acc' bs
    (b' :: bs', acc'')

/-- result of `ActionBind::update` -/
structure Out where
  bind : ActionBind
  reader : Reader
  actions : ActionsView
  deliveries : List Delivery
  log : List Inv
  /-- the inputs handed to `reader.consume` (empty when nothing was consumed) -/
  consumed : List Input
  /-- events suppressed by an events-only blocker -/
  eventsBlocked : Bool

/-- `ActionBind::update`. `none` models the `expect` panic on a missing `ActionsData` entry. -/
def update (ab : ActionBind) (r : Reader) (av : ActionsView) (t : Tick) (entities : List Nat) : Option Out :=
  let acc0 : LoopAcc := { tracker := Tracker.new (Value.zero ab.dim) }
  let (bindings', acc) := ab.loopInputs r av t acc0 ab.bindings
  let (tr, mods', log1) := acc.tracker.applyModifiers av t ab.mods
  let (tr, conds', log2) := tr.applyConditions av t ab.conds
  match av.get? ab.action with
  | none => none
  | some old =>
    let state := tr.state
    let value := tr.value.convert ab.dim
    let toConsume := if ab.consume && state != .none then acc.consumeBuffer else []
    let r' := toConsume.foldl Reader.consume r
    let d := old.update t state value
    let dl := if tr.eventsBlocked then [] else triggerEvents ab.action d entities
    some { bind := { ab with mods := mods', conds := conds', bindings := bindings' },
           reader := r', actions := av.set ab.action d, deliveries := dl,
           log := acc.log ++ log1 ++ log2, consumed := toConsume, eventsBlocked := tr.eventsBlocked }

end ActionBind

/-- `ContextInstance`. -/
structure ContextInstance where
  gamepad : Device := .any
  bindings : List ActionBind := []
  actions : ActionsView := []

namespace ContextInstance

/-- `ContextInstance::bind::<A>()` followed by a configuration function applied to the (new or existing)
    `ActionBind`: binding an action again returns the existing entry in place. -/
def bind (ci : ContextInstance) (action : Nat) (dim : Dim) (consume : Bool) (accum : Accum)
    (f : ActionBind → ActionBind) : ContextInstance :=
  match ci.actions.get? action with
  | some _ =>
    { ci with bindings := ci.bindings.map (fun b => if b.action == action then f b else b) }
  | none =>
    { ci with actions := ci.actions ++ [(action, ActionData.new dim)],
              bindings := ci.bindings ++ [f { action := action, dim := dim, consume := consume, accum := accum }] }

structure Out where
  inst : ContextInstance
  reader : Reader
  deliveries : List Delivery
  log : List Inv

/-- the loop over the action bindings of `ContextInstance::update` -/
def loopActions (r : Reader) (av : ActionsView) (t : Tick) (entities : List Nat) :
    List ActionBind → Option (List ActionBind × Reader × ActionsView × List Delivery × List Inv)
  | [] => some ([], r, av, [], [])
  | ab :: rest =>
    match ab.update r av t entities with
    | none => none
    | some o =>
      match loopActions o.reader o.actions t entities rest with
      | none => none
      | some (rest', r', av', dl, lg) => some (o.bind :: rest', r', av', o.deliveries ++ dl, o.log ++ lg)

/-- `ContextInstance::update`. -/
def update (ci : ContextInstance) (r : Reader) (t : Tick) (entities : List Nat) : Option Out :=
  match loopActions (r.setGamepad ci.gamepad) ci.actions t entities ci.bindings with
  | none => none
  | some (bs, r', av', dl, lg) =>
    some { inst := { ci with bindings := bs, actions := av' }, reader := r', deliveries := dl, log := lg }

/-- `ContextInstance::trigger_removed`: copy each action's data, transition the copy to `None` with a zero value,
    trigger its events. `none` models the `expect` panic. -/
def triggerRemoved (ci : ContextInstance) (t : Tick) (entities : List Nat) : Option (List Delivery) :=
  ci.bindings.foldlM (fun acc ab =>
    match ci.actions.get? ab.action with
    | none => none
    | some d => some (acc ++ triggerEvents ab.action (d.update t .none (Value.zero ab.dim)) entities)) []

end ContextInstance
end BEI
