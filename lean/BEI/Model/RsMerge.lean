/-
  Prelude for the translated merge step of `ActionBind::update` (BEI/Gen/Code/Merge.lean): the loop variables' types and the
  *modelled* pieces the fragment calls — `Vec::push / clear`, and `TriggerTracker::combine` as "the translated flag / conversion
  part (`combine_with`, generated) applied to the accumulated vector", where the accumulated vector (a `for` loop over
  `iter_mut().zip(..)` in the source: per axis the larger magnitude for `MaxAbs`, the sum for `Cumulative`) is written by hand.
-/
import BEI.Gen.Code.Tracker
import BEI.Model.Reader
namespace BEI.Rs

/-- the fields of `ActionBind` the merge step reads or writes -/
structure ActionBindM where
  accumulation : Accumulation
  consume_input : Bool
  consume_buffer : List BEI.Input

/-- `binding.input` -/
structure BindingRef where
  input : BEI.Input

def _root_.List.push {α : Type} (l : List α) (x : α) : List α := l ++ [x]
def _root_.List.clear {α : Type} (_ : List α) : List α := []

/-- the vector `combine` accumulates (modelled: the source computes it with a `for` loop) -/
def TriggerTracker.accumulated (self other : TriggerTracker) (acc : Accumulation) : Vec3 :=
  let a := self.value.as_axis3d
  let b := other.value.as_axis3d
  match acc with
  | .MaxAbs => ⟨Tracker.maxAbs1 a.x b.x, Tracker.maxAbs1 a.y b.y, Tracker.maxAbs1 a.z b.z⟩
  | .Cumulative => a + b

/-- `TriggerTracker::combine` -/
def TriggerTracker.combine (self other : TriggerTracker) (acc : Accumulation) : TriggerTracker :=
  self.combine_with other (self.accumulated other acc)

end BEI.Rs
