/-
  `TriggerTracker` (mirror of `/repo/src/input_context/context_instance/trigger_tracker.rs`).
-/
import BEI.Model.Machine
namespace BEI

/-- `Accumulation`. -/
inductive Accum where
  | cumulative | maxAbs
  deriving DecidableEq, Repr, Inhabited

structure Tracker where
  value : Value
  foundExplicit : Bool := false
  anyExplicitFired : Bool := false
  foundActive : Bool := false
  foundImplicit : Bool := false
  allImplicitsFired : Bool := true
  blocked : Bool := false
  eventsBlocked : Bool := false
  deriving DecidableEq, Repr, Inhabited

namespace Tracker

/-- `TriggerTracker::new`. -/
def new (v : Value) : Tracker := { value := v }

/-- `apply_modifiers`: every modifier is applied, in order; returns the updated modifier objects and the log. -/
def applyModifiers (tr : Tracker) (av : ActionsView) (t : Tick) :
    List Mod → Tracker × List Mod × List Inv
  | [] => (tr, [], [])
  | m :: ms =>
    let (m', v') := m.apply av t tr.value
    let (tr', ms', log) := applyModifiers { tr with value := v' } av t ms
    (tr', m' :: ms', Inv.mod m.id tr.value v' :: log)

/-- the flag update of one condition result (the `match condition.kind()` of `apply_conditions`). -/
def note (tr : Tracker) (k : Kind) (st : AState) : Tracker :=
  match k with
  | .explicit =>
    { tr with foundExplicit := true,
              anyExplicitFired := tr.anyExplicitFired || st == .fired,
              foundActive := tr.foundActive || st != .none }
  | .implicit =>
    { tr with foundImplicit := true,
              allImplicitsFired := tr.allImplicitsFired && st == .fired,
              foundActive := tr.foundActive || st != .none }
  | .blocker => { tr with blocked := tr.blocked || st == .none }
  | .eventsBlocker => { tr with eventsBlocked := tr.eventsBlocked || st == .none }

/-- `apply_conditions`: no early outs — every condition is evaluated. -/
def applyConditions (tr : Tracker) (av : ActionsView) (t : Tick) :
    List Cond → Tracker × List Cond × List Inv
  | [] => (tr, [], [])
  | c :: cs =>
    let (c', st, k) := c.eval av t tr.value
    let (tr', cs', log) := applyConditions (tr.note k st) av t cs
    (tr', c' :: cs', Inv.cond c.id tr.value st k :: log)

/-- `TriggerTracker::state`. -/
def state (tr : Tracker) : AState :=
  if tr.blocked then .none
  else if !tr.foundExplicit && !tr.foundImplicit then
    (if tr.value.asBool then .fired else .none)
  else if (!tr.foundExplicit || tr.anyExplicitFired) && tr.allImplicitsFired then .fired
  else if tr.foundActive then .ongoing
  else .none

/-- `TriggerTracker::overwrite`: take `other`, keep own dimension. -/
def overwrite (tr other : Tracker) : Tracker :=
  { other with value := other.value.convert tr.value.dim }

def absR (x : Rat) : Rat := if x < 0 then -x else x

/-- per-axis "largest magnitude wins, ties keep the accumulated one". -/
def maxAbs1 (a b : Rat) : Rat := if absR a < absR b then b else a

/-- `TriggerTracker::combine`. -/
def combine (tr other : Tracker) (acc : Accum) : Tracker :=
  let a := tr.value.as3
  let b := other.value.as3
  let m : V3 :=
    match acc with
    | .maxAbs => ⟨maxAbs1 a.x b.x, maxAbs1 a.y b.y, maxAbs1 a.z b.z⟩
    | .cumulative => a + b
  { value := Value.ofV3 m tr.value.dim,
    foundExplicit := tr.foundExplicit || other.foundExplicit,
    anyExplicitFired := tr.anyExplicitFired || other.anyExplicitFired,
    foundActive := tr.foundActive || other.foundActive,
    foundImplicit := tr.foundImplicit || other.foundImplicit,
    allImplicitsFired := tr.allImplicitsFired && other.allImplicitsFired,
    blocked := tr.blocked || other.blocked,
    eventsBlocked := tr.eventsBlocked || other.eventsBlocked }

end Tracker
end BEI
