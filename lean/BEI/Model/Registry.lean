/-
  `ContextInstances` — the registry of instantiated contexts (mirror of `/repo/src/input_context.rs`).
-/
import BEI.Model.Instance
namespace BEI

/-- static facts about a context type `C: InputContext` -/
structure CtxType where
  id : Nat
  priority : Int
  shared : Bool
  deriving DecidableEq, Repr, Inhabited

/-- `InstanceGroup`. -/
inductive Group where
  | exclusive (ty : CtxType) (instances : List (Nat × ContextInstance))
  | shared (ty : CtxType) (entities : List Nat) (ctx : ContextInstance)

namespace Group
def ty : Group → CtxType
  | .exclusive t _ => t
  | .shared t _ _ => t
def entities : Group → List Nat
  | .exclusive _ is => is.map (·.1)
  | .shared _ es _ => es
end Group

/-- `ContextInstances(Vec<InstanceGroup>)`. -/
abbrev Registry := List Group

/-- `C::context_instance(world, entity)`: how the app builds an instance of type `c` for an entity. -/
abbrev Factory := Nat → Nat → ContextInstance

/-- `Vec::swap_remove(i)`. -/
def swapRemove.{u} {α : Type u} (l : List α) (i : Nat) : List α :=
  if i + 1 < l.length then
    match l.getLast? with
    | some last => (l.set i last).dropLast
    | none => l
  else l.dropLast

namespace Registry

/-- `ContextInstances::index::<C>()`. -/
def index (reg : Registry) (c : Nat) : Option Nat :=
  let i := reg.findIdx (fun g => g.ty.id == c)
  if i < reg.length then some i else none

/-- insertion point used by `add`: `binary_search_by_key(&Reverse(p), |g| Reverse(g.priority()))` on a list
    sorted by descending priority returns a position that keeps it sorted; with distinct priorities it is the
    number of groups with a strictly higher priority (the model uses that position; equal priorities are unclaimed). -/
def insertPos (reg : Registry) (p : Int) : Nat :=
  (reg.takeWhile (fun g => g.ty.priority > p)).length

/-- `ContextInstances::add::<C>(world, entity)`. -/
def add (reg : Registry) (mk : Factory) (ty : CtxType) (e : Nat) : Registry :=
  match reg.index ty.id with
  | some i =>
    reg.modify i (fun g =>
      match g with
      | .exclusive t is => .exclusive t (is ++ [(e, mk ty.id e)])
      | .shared t es ctx => .shared t (es ++ [e]) ctx)
  | none =>
    let g := if ty.shared then Group.shared ty [e] (mk ty.id e) else Group.exclusive ty [(e, mk ty.id e)]
    let pos := reg.insertPos ty.priority
    reg.take pos ++ [g] ++ reg.drop pos

/-- `ContextInstances::remove::<C>(commands, time, entity)`; `none` models an `expect` panic. -/
def remove (reg : Registry) (t : Tick) (c : Nat) (e : Nat) : Option (Registry × List Delivery) :=
  match reg.index c with
  | none => none
  | some gi =>
    match reg[gi]? with
    | none => none
    | some (.exclusive ty is) =>
      let ei := is.findIdx (fun p => p.1 == e)
      match is[ei]? with
      | none => none
      | some (_, ctx) =>
        match ctx.triggerRemoved t [e] with
        | none => none
        | some dl =>
          let is' := swapRemove is ei
          if is'.isEmpty then some (reg.eraseIdx gi, dl)
          else some (reg.set gi (.exclusive ty is'), dl)
    | some (.shared ty es ctx) =>
      let ei := es.findIdx (fun x => x == e)
      if ei < es.length then
        match ctx.triggerRemoved t [e] with
        | none => none
        | some dl =>
          let es' := swapRemove es ei
          if es'.isEmpty then some (reg.eraseIdx gi, dl)
          else some (reg.set gi (.shared ty es' ctx), dl)
      else none

/-- the `for (entity, ctx) in instances` loop of `rebuild` for an exclusive group -/
def rebuildExclusive (mk : Factory) (t : Tick) (c : Nat) :
    List (Nat × ContextInstance) → Option (List (Nat × ContextInstance) × List Delivery)
  | [] => some ([], [])
  | (e, ctx) :: rest =>
    match ctx.triggerRemoved t [e], rebuildExclusive mk t c rest with
    | some dl, some (rest', dl') => some ((e, mk c e) :: rest', dl ++ dl')
    | _, _ => none

/-- `ContextInstances::rebuild::<C>(world, time, commands)`. -/
def rebuild (reg : Registry) (mk : Factory) (t : Tick) (c : Nat) : Option (Registry × List Delivery) :=
  match reg.index c with
  | none => some (reg, [])
  | some gi =>
    match reg[gi]? with
    | none => none
    | some (.exclusive ty is) =>
      match rebuildExclusive mk t c is with
      | none => none
      | some (is', dl) => some (reg.set gi (.exclusive ty is'), dl)
    | some (.shared ty es ctx) =>
      match ctx.triggerRemoved t es, es.head? with
      | some dl, some e0 => some (reg.set gi (.shared ty es (mk c e0)), dl)
      | _, _ => none

/-- `ContextInstances::get::<C>(entity)`. -/
def get (reg : Registry) (c : Nat) (e : Nat) : Option ContextInstance :=
  match reg.index c with
  | none => none
  | some gi =>
    match reg[gi]? with
    | none => none
    | some (.exclusive _ is) => (is.find? (fun p => p.1 == e)).map (·.2)
    | some (.shared _ es ctx) => if es.contains e then some ctx else none

structure Out where
  reg : Registry
  reader : Reader
  deliveries : List Delivery
  log : List Inv

/-- the inner loop of `update` over the instances of an exclusive group -/
def updateExclusive (r : Reader) (t : Tick) :
    List (Nat × ContextInstance) → Option (List (Nat × ContextInstance) × Reader × List Delivery × List Inv)
  | [] => some ([], r, [], [])
  | (e, ctx) :: rest =>
    match ctx.update r t [e] with
    | none => none
    | some o =>
      match updateExclusive o.reader t rest with
      | none => none
      | some (rest', r', dl, lg) => some ((e, o.inst) :: rest', r', o.deliveries ++ dl, o.log ++ lg)

/-- `ContextInstances::update`: groups in list order. -/
def update (r : Reader) (t : Tick) : Registry → Option Out
  | [] => some { reg := [], reader := r, deliveries := [], log := [] }
  | g :: rest =>
    match g with
    | .exclusive ty is =>
      match updateExclusive r t is with
      | none => none
      | some (is', r', dl, lg) =>
        match update r' t rest with
        | none => none
        | some o => some { o with reg := .exclusive ty is' :: o.reg, deliveries := dl ++ o.deliveries, log := lg ++ o.log }
    | .shared ty es ctx =>
      match ctx.update r t es with
      | none => none
      | some oc =>
        match update oc.reader t rest with
        | none => none
        | some o => some { o with reg := .shared ty es oc.inst :: o.reg, deliveries := oc.deliveries ++ o.deliveries, log := oc.log ++ o.log }

end Registry
end BEI
