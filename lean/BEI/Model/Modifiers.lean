/-
  Built-in modifiers as machines (mirror of `/repo/src/input_context/input_modifier/*.rs`, fixes applied),
  plus the two custom modifiers the harness implements identically in Rust.
  Vector length (`glam::Vec3::length`) is a parameter `len` of the radial dead zone; `powf` is modelled for
  natural exponents only (DESIGN.md §7).
-/
import BEI.Model.Machine
namespace BEI

def boolToRat (b : Bool) : Rat := if b then 1 else 0

/-- modifiers first turn `Bool` into `Axis1D` (1.0 / 0.0) -/
def Value.promote : Value → Value
  | .bool b => .a1 (boolToRat b)
  | v => v

def absQ (x : Rat) : Rat := if x < 0 then -x else x
/-- `f32::signum` on finite values (`+0.0 ↦ 1.0`) -/
def signumQ (x : Rat) : Rat := if x < 0 then -1 else 1
def maxQ (a b : Rat) : Rat := if a < b then b else a
def minQ (a b : Rat) : Rat := if b < a then b else a

/-- `DeadZone::dead_zone` on one axis. The Rust divides by `upper - lower`; every theorem about this function
    carries the hypothesis `lower < upper` (Lean's `x / 0 = 0` is never relied upon). -/
def deadZone1 (lo hi x : Rat) : Rat :=
  minQ (maxQ (absQ x - lo) 0 / (hi - lo)) 1 * signumQ x

/-- integer square root based rational square root: exact on squares of dyadics with at most 40 fractional
    bits, a 2⁻⁴⁰-accurate lower approximation otherwise (used by the *approximate class* only). -/
def sqrtQ (q : Rat) : Rat :=
  if q ≤ 0 then 0
  else
    let k : Nat := 2 ^ 80
    let n := (q.num.toNat * k) / q.den
    ((Nat.sqrt n : Nat) : Rat) / ((2 ^ 40 : Nat) : Rat)

def V3.scale (a : V3) (s : Rat) : V3 := ⟨a.x * s, a.y * s, a.z * s⟩
def V3.sub (a b : V3) : V3 := ⟨a.x - b.x, a.y - b.y, a.z - b.z⟩
def V3.len (a : V3) : Rat := sqrtQ a.normSq

/-- radial dead zone on a vector: `normalize_or_zero(v) * dead_zone(length(v))`, for a length function `len`. -/
def deadZoneRadial (len : V3 → Rat) (lo hi : Rat) (v : V3) : V3 :=
  let l := len v
  if l == 0 then V3.zero else (v.scale (1 / l)).scale (deadZone1 lo hi l)

/-- `apply_exp` for a natural exponent: `|x|^n` with the sign of `x`. -/
def expCurve1 (x : Rat) (n : Nat) : Rat := absQ x ^ n * signumQ x

namespace Mod

def stateless (id : Nat) (f : ActionsView → Tick → Value → Value) : Mod :=
  { id, σ := Unit, s := (), step := fun _ av t v => ((), f av t v) }

def negateV (nx ny nz : Bool) : Value → Value
  | .bool b => .a1 (if nx then -(boolToRat b) else boolToRat b)
  | .a1 x => .a1 (if nx then -x else x)
  | .a2 x y => .a2 (if nx then -x else x) (if ny then -y else y)
  | .a3 x y z => .a3 (if nx then -x else x) (if ny then -y else y) (if nz then -z else z)

/-- `Negate`. -/
def negate (id : Nat) (nx ny nz : Bool) : Mod := stateless id (fun _ _ v => negateV nx ny nz v)

def scaleV (fx fy fz : Rat) : Value → Value
  | .bool b => .a1 (boolToRat b * fx)
  | .a1 x => .a1 (x * fx)
  | .a2 x y => .a2 (x * fx) (y * fy)
  | .a3 x y z => .a3 (x * fx) (y * fy) (z * fz)

/-- `Scale`. -/
def scale (id : Nat) (fx fy fz : Rat) : Mod := stateless id (fun _ _ v => scaleV fx fy fz v)

/-- `SwizzleAxis` variants. -/
inductive Swz where
  | yxz | zyx | xzy | yzx | zxy
  deriving DecidableEq, Repr, Inhabited

def swizzleV (s : Swz) : Value → Value
  | .bool b => swizzle1 s (boolToRat b)
  | .a1 x => swizzle1 s x
  | .a2 x y =>
    (match s with
     | .yxz => .a2 y x
     | .zyx => .a2 0 y
     | .xzy => .a2 x 0
     | .yzx => .a2 y 0
     | .zxy => .a2 0 x)
  | .a3 x y z =>
    (match s with
     | .yxz => .a3 y x z
     | .zyx => .a3 z y x
     | .xzy => .a3 x z y
     | .yzx => .a3 y z x
     | .zxy => .a3 z x y)
where
  swizzle1 (s : Swz) (x : Rat) : Value :=
    match s with
    | .yxz | .zxy => .a2 0 x
    | .zyx | .yzx => .a3 0 0 x
    | .xzy => .a1 x

/-- `SwizzleAxis`. -/
def swizzle (id : Nat) (s : Swz) : Mod := stateless id (fun _ _ v => swizzleV s v)

def deadZoneAxialV (lo hi : Rat) : Value → Value
  | .bool b => .a1 (deadZone1 lo hi (boolToRat b))
  | .a1 x => .a1 (deadZone1 lo hi x)
  | .a2 x y => .a2 (deadZone1 lo hi x) (deadZone1 lo hi y)
  | .a3 x y z => .a3 (deadZone1 lo hi x) (deadZone1 lo hi y) (deadZone1 lo hi z)

def deadZoneRadialV (len : V3 → Rat) (lo hi : Rat) : Value → Value
  | .bool b => .a1 (deadZone1 lo hi (boolToRat b))
  | .a1 x => .a1 (deadZone1 lo hi x)
  | .a2 x y => let r := deadZoneRadial len lo hi ⟨x, y, 0⟩; .a2 r.x r.y
  | .a3 x y z => let r := deadZoneRadial len lo hi ⟨x, y, z⟩; .a3 r.x r.y r.z

/-- `DeadZone` (axial). -/
def deadZoneAxial (id : Nat) (lo hi : Rat) : Mod := stateless id (fun _ _ v => deadZoneAxialV lo hi v)
/-- `DeadZone` (radial), with the executable length `V3.len`. -/
def deadZoneRadialM (id : Nat) (lo hi : Rat) : Mod := stateless id (fun _ _ v => deadZoneRadialV V3.len lo hi v)

def expV (ex ey ez : Nat) : Value → Value
  | .bool b => .a1 (expCurve1 (boolToRat b) ex)
  | .a1 x => .a1 (expCurve1 x ex)
  | .a2 x y => .a2 (expCurve1 x ex) (expCurve1 y ey)
  | .a3 x y z => .a3 (expCurve1 x ex) (expCurve1 y ey) (expCurve1 z ez)

/-- `ExponentialCurve` with natural exponents. -/
def expCurve (id : Nat) (ex ey ez : Nat) : Mod := stateless id (fun _ _ v => expV ex ey ez v)

def deltaScaleV (d : Rat) : Value → Value
  | .bool b => .a1 (boolToRat b * d)
  | .a1 x => .a1 (x * d)
  | .a2 x y => .a2 (x * d) (y * d)
  | .a3 x y z => .a3 (x * d) (y * d) (z * d)

/-- `ExponentialCurve` with an exponent that is not a natural number: `|x|^e · sign x` has no rational value in general,
    so the exact model covers only the inputs whose components are fixed points of every positive exponent (0, 1, −1),
    where the result is the (promoted) input itself (`C18.expCurve_fixed_real`); generators send nothing else. -/
def expFrac (id : Nat) : Mod := stateless id (fun _ _ v => v.promote)

/-- `DeltaScale`. -/
def deltaScale (id : Nat) : Mod := stateless id (fun _ t v => deltaScaleV t.delta v)

/-- `glam::Vec3::lerp`: `a * (1 - s) + b * s`. -/
def lerp3 (a b : V3) (s : Rat) : V3 := (a.scale (1 - s)) + (b.scale s)

def deltaLerpStep (speed : Rat) (prev : V3) (t : Tick) (v0 : Value) : V3 × Value :=
  let v := v0.promote
  let target := v.as3
  if (prev.sub target).normSq < Gen.dlerpSnapEps then (target, v)
  else
    let alpha := minQ (t.delta * speed) 1          -- D4 fix: clamped
    let sm := lerp3 prev target alpha
    (sm, Value.ofV3 sm v.dim)

/-- `DeltaLerp`. -/
def deltaLerp (id : Nat) (speed : Rat) : Mod :=
  { id, σ := V3, s := V3.zero, step := fun prev _ t v => deltaLerpStep speed prev t v }

def accumulateByStep (a : Nat) (acc : V3) (av : ActionsView) (v : Value) : V3 × Value :=
  match av.get? a with
  | some d =>
    let acc' := if d.state == .fired then acc + v.as3 else v.as3
    (acc', Value.ofV3 acc' v.dim)
  | none => (acc, v)

/-- `AccumulateBy<A>`. -/
def accumulateBy (id : Nat) (a : Nat) : Mod :=
  { id, σ := V3, s := V3.zero, step := fun acc av _ v => accumulateByStep a acc av v }

/-- custom (harness `sconv d`): `value.convert(d)`. -/
def sconv (id : Nat) (d : Dim) : Mod := stateless id (fun _ _ v => v.convert d)
/-- custom (harness `sadd d x y z`): `Axis3D(value.as_axis3d() + (x,y,z)).convert(d)`. -/
def sadd (id : Nat) (d : Dim) (p : V3) : Mod := stateless id (fun _ _ v => Value.ofV3 (v.as3 + p) d)

end Mod
end BEI
