/-
  Action values and their conversions (mirror of `/repo/src/action_value.rs`).
  `f32` is modelled by exact rationals (core `Rat`); see DESIGN.md §2 and §7.
-/
namespace BEI

/-- `ActionValueDim`. -/
inductive Dim where
  | bool | a1 | a2 | a3
  deriving DecidableEq, Repr, Inhabited

/-- A 3-vector over the rationals (`glam::Vec3`). -/
structure V3 where
  x : Rat
  y : Rat
  z : Rat
  deriving DecidableEq, Repr, Inhabited

namespace V3
def zero : V3 := ⟨0, 0, 0⟩
def add (a b : V3) : V3 := ⟨a.x + b.x, a.y + b.y, a.z + b.z⟩
def normSq (a : V3) : Rat := a.x * a.x + a.y * a.y + a.z * a.z
instance : Add V3 := ⟨add⟩
end V3

/-- `ActionValue`. -/
inductive Value where
  | bool (b : Bool)
  | a1 (x : Rat)
  | a2 (x y : Rat)
  | a3 (x y z : Rat)
  deriving DecidableEq, Repr, Inhabited

namespace Value

/-- `ActionValue::zero`. -/
def zero : Dim → Value
  | .bool => .bool false
  | .a1 => .a1 0
  | .a2 => .a2 0 0
  | .a3 => .a3 0 0 0

/-- `ActionValue::dim`. -/
def dim : Value → Dim
  | .bool _ => .bool
  | .a1 _ => .a1
  | .a2 _ _ => .a2
  | .a3 _ _ _ => .a3

/-- `ActionValue::as_bool`. -/
def asBool : Value → Bool
  | .bool b => b
  | .a1 x => x != 0
  | .a2 x y => !(x == 0 && y == 0)
  | .a3 x y z => !(x == 0 && y == 0 && z == 0)

/-- `ActionValue::as_axis1d`. -/
def as1 : Value → Rat
  | .bool b => if b then 1 else 0
  | .a1 x => x
  | .a2 x _ => x
  | .a3 x _ _ => x

/-- `ActionValue::as_axis2d`. -/
def as2 : Value → Rat × Rat
  | .bool b => (if b then 1 else 0, 0)
  | .a1 x => (x, 0)
  | .a2 x y => (x, y)
  | .a3 x y _ => (x, y)

/-- `ActionValue::as_axis3d`. -/
def as3 : Value → V3
  | .bool b => ⟨if b then 1 else 0, 0, 0⟩
  | .a1 x => ⟨x, 0, 0⟩
  | .a2 x y => ⟨x, y, 0⟩
  | .a3 x y z => ⟨x, y, z⟩

/-- `ActionValue::convert`. -/
def convert (v : Value) : Dim → Value
  | .bool => .bool v.asBool
  | .a1 => .a1 v.as1
  | .a2 => .a2 v.as2.1 v.as2.2
  | .a3 => .a3 v.as3.x v.as3.y v.as3.z

/-- `ActionValue::Axis3D(v).convert(d)`. -/
def ofV3 (p : V3) (d : Dim) : Value := (Value.a3 p.x p.y p.z).convert d

/-- `ActionValue::is_actuated`: `length_squared >= actuation * actuation`. -/
def isActuated (v : Value) (t : Rat) : Bool := decide (t * t ≤ v.as3.normSq)

end Value
end BEI
