/-
  Prelude for the translated loops of `TriggerTracker::apply_modifiers / apply_conditions` (BEI/Gen/Code/Loops.lean): the trait
  objects `Box<dyn InputModifier>` / `Box<dyn InputCondition>` are the model's arbitrary machines `Mod` / `Cond`; a call
  `object.method(..)` through `&mut` returns the updated object together with the result.
-/
import BEI.Gen.Code.Tracker
namespace BEI.Rs

/-- `condition.evaluate(actions, time, value)` on a trait object: the updated object and the returned state -/
def _root_.BEI.Cond.evaluate_obj (c : Cond) (av : ActionsView) (t : Tick) (v : ActionValue) : Cond × AState :=
  ((c.eval av t v.toModel).1, (c.eval av t v.toModel).2.1)

/-- `condition.kind()` (called after `evaluate`, on the updated object) -/
def _root_.BEI.Cond.kind_obj (c : Cond) : ConditionKind := ConditionKind.ofModel (c.kind c.s)

/-- `modifier.apply(actions, time, value)` on a trait object -/
def _root_.BEI.Mod.apply_obj (m : Mod) (av : ActionsView) (t : Tick) (v : ActionValue) : Mod × ActionValue :=
  ((m.apply av t v.toModel).1, ActionValue.ofModel (m.apply av t v.toModel).2)

end BEI.Rs
