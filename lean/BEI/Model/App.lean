/-
  The application-level model: a world of entities carrying context components, lifecycle operations with the
  observer reactions of `/repo/src/input_context.rs`, the per-frame system of `/repo/src/lib.rs`, and Bevy's
  command / observer queue discipline (modelled, see DESIGN.md §2 and §7).
-/
import BEI.Model.Registry
namespace BEI

/-- structural operations on the world -/
inductive Op where
  | spawn (e : Nat)
  | insert (e c v : Nat)
  | remove (e c : Nat)
  | despawn (e : Nat)
  | rebuild
  deriving DecidableEq, Repr, Inhabited

/-- the ECS world as far as the crate can see it: alive entities with their context components `(c, variant)` -/
abbrev World := List (Nat × List (Nat × Nat))

namespace World
def alive (w : World) (e : Nat) : Bool := w.any (fun p => p.1 == e)
def comps : World → Nat → List (Nat × Nat)
  | [], _ => []
  | (k, cs) :: rest, e => if k == e then cs else comps rest e
def has (w : World) (e c : Nat) : Bool := (w.comps e).any (fun p => p.1 == c)
def variant (w : World) (e c : Nat) : Nat :=
  match (w.comps e).find? (fun p => p.1 == c) with
  | some p => p.2
  | none => 0
def setComps (w : World) (e : Nat) (cs : List (Nat × Nat)) : World :=
  w.map (fun p => if p.1 == e then (p.1, cs) else p)
/-- sorted insertion of a component (archetype component order = ascending component id) -/
def insertComp (cs : List (Nat × Nat)) (c v : Nat) : List (Nat × Nat) :=
  match cs with
  | [] => [(c, v)]
  | (c', v') :: rest =>
    if c' == c then (c, v) :: rest
    else if c < c' then (c, v) :: (c', v') :: rest
    else (c', v') :: insertComp rest c v
end World

/-- everything that does not change during a run -/
structure Setup where
  /-- registered context types, in registration order -/
  types : List CtxType
  /-- `(c, variant) ↦` what `context_instance` builds -/
  config : Nat → Nat → ContextInstance

namespace Setup
def typeOf (s : Setup) (c : Nat) : Option CtxType := s.types.find? (fun t => t.id == c)
def factory (s : Setup) (w : World) : Factory := fun c e => s.config c (w.variant e c)
end Setup

/-- mutable application state between system runs -/
structure AppState where
  world : World := []
  reg : Registry := []
  /-- `Time<Virtual>` as the last frame left it -/
  tick : Tick := { delta := 0, speed := 1 }

/-- remove the listed components of an entity one by one (`OnRemove` observers run while the component is
    still present); returns the closing deliveries in order. `none` = panic. -/
def removeComps (t : Tick) (e : Nat) : List Nat → Registry → Option (Registry × List Delivery)
  | [], reg => some (reg, [])
  | c :: cs, reg =>
    match reg.remove t c e with
    | none => none
    | some (reg', dl) =>
      match removeComps t e cs reg' with
      | none => none
      | some (reg'', dl') => some (reg'', dl ++ dl')

/-- rebuild every registered type in registration order -/
def rebuildAll (mk : Factory) (t : Tick) : List CtxType → Registry → Option (Registry × List Delivery)
  | [], reg => some (reg, [])
  | ty :: tys, reg =>
    match reg.rebuild mk t ty.id with
    | none => none
    | some (reg', dl) =>
      match rebuildAll mk t tys reg' with
      | none => none
      | some (reg'', dl') => some (reg'', dl ++ dl')

/-- apply one structural operation; returns the new state and the closing deliveries it triggers (in trigger order).
    `none` = the real code would panic. -/
def applyOp (su : Setup) (st : AppState) : Op → Option (AppState × List Delivery)
  | .spawn e => if st.world.alive e then some (st, []) else some ({ st with world := st.world ++ [(e, [])] }, [])
  | .insert e c v =>
    if !st.world.alive e then some (st, [])
    else
      match su.typeOf c with
      | none => some (st, [])
      | some ty =>
        let had := st.world.has e c
        let w' := st.world.setComps e (World.insertComp (st.world.comps e) c v)
        if had then some ({ st with world := w' }, [])       -- replaced in place: `OnAdd` does not fire
        else some ({ st with world := w', reg := st.reg.add (su.factory w') ty e }, [])
  | .remove e c =>
    if !st.world.alive e || !st.world.has e c then some (st, [])
    else
      match st.reg.remove st.tick c e with
      | none => none
      | some (reg', dl) =>
        some ({ st with world := st.world.setComps e ((st.world.comps e).filter (fun p => p.1 != c)), reg := reg' }, dl)
  | .despawn e =>
    if !st.world.alive e then some (st, [])
    else
      match removeComps st.tick e ((st.world.comps e).map (·.1)) st.reg with
      | none => none
      | some (reg', dl) => some ({ st with world := st.world.filter (fun p => p.1 != e), reg := reg' }, dl)
  | .rebuild =>
    match rebuildAll (su.factory st.world) st.tick su.types st.reg with
    | none => none
    | some (reg', dl) => some ({ st with reg := reg' }, dl)

/-- an item of the command queue -/
inductive QItem where
  | deliver (d : Delivery)
  | op (o : Op)

/-- `react <k> <op>`: at the k-th delivery of the frame the observer issues `op` through `Commands`. -/
abbrev Reactions := List (Nat × Op)

/-- Bevy's queue discipline: every command is followed by a flush of whatever it queued (depth first).
    `stack` is the work list (front first); `k` counts deliveries seen so far in this frame. -/
def runQueue (su : Setup) (reacts : Reactions) :
    Nat → List QItem → AppState → Nat → List Delivery → Option (AppState × Nat × List Delivery)
  | 0, _, st, k, seen => some (st, k, seen)        -- fuel exhausted (never reached: see `runQueue_fuel`)
  | _ + 1, [], st, k, seen => some (st, k, seen)
  | fuel + 1, .deliver d :: rest, st, k, seen =>
    let extra := (reacts.filter (fun r => r.1 == k)).map (fun r => QItem.op r.2)
    runQueue su reacts fuel (extra ++ rest) st (k + 1) (seen ++ [d])
  | fuel + 1, .op o :: rest, st, k, seen =>
    match applyOp su st o with
    | none => none
    | some (st', dl) => runQueue su reacts fuel (dl.map QItem.deliver ++ rest) st' k seen

/-- `Time<Virtual>` for a frame: raw delta clamped to the maximum (250 ms), scaled by the effective speed. -/
def virtualTick (rawDelta speed : Rat) (paused : Bool) : Tick :=
  let clamped := if (1 : Rat) / 4 < rawDelta then (1 : Rat) / 4 else rawDelta
  { delta := clamped * (if paused then 0 else speed), speed := speed }

structure FrameOut where
  st : AppState
  log : List Inv
  deliveries : List Delivery
  /-- deliveries made by the time the systems ordered after the crate's set (and `Update`) run -/
  preCount : Nat

/-- one `App::update()`: advance virtual time, run the crate's system on this frame's raw input, apply its
    command queue with the observers' reactions (sync point before anything ordered after the set), then the
    `Update`-stage operations issued through commands. -/
def frame (su : Setup) (st : AppState) (raw : RawInput) (t : Tick) (reacts : Reactions) (posts : List Op)
    (fuel : Nat) : Option FrameOut :=
  let st := { st with tick := t }
  let reader : Reader := ({ raw := raw } : Reader).updateState
  match Registry.update reader t st.reg with
  | none => none
  | some o =>
    let st := { st with reg := o.reg }
    match runQueue su reacts fuel (o.deliveries.map QItem.deliver) st 0 [] with
    | none => none
    | some (st1, k1, seen1) =>
      match runQueue su reacts fuel (posts.map QItem.op) st1 k1 seen1 with
      | none => none
      | some (st2, _, seen2) => some { st := st2, log := o.log, deliveries := seen2, preCount := seen1.length }

end BEI
