/-
  Built-in conditions as machines (mirror of `/repo/src/input_context/input_condition/*.rs`, fixes applied),
  plus the two scripted custom conditions the harness implements identically in Rust.
-/
import BEI.Model.Machine
namespace BEI

/-- `ConditionTimer`. -/
structure CTimer where
  relative : Bool := false
  duration : Rat := 0
  deriving DecidableEq, Repr, Inhabited

namespace CTimer
/-- `ConditionTimer::update`: virtual delta, unscaled by the relative speed unless configured otherwise;
    nothing is added when the scale is zero (D3 fix — the division is never performed with a zero divisor). -/
def update (tm : CTimer) (t : Tick) : CTimer :=
  let scale := if tm.relative then 1 else t.speed
  if scale != 0 then { tm with duration := tm.duration + t.delta / scale } else tm
def reset (tm : CTimer) : CTimer := { tm with duration := 0 }
end CTimer

/-- `a <= b` on `f32` durations, as a Boolean (fixes the decidability instance at the model level) -/
def leQ (a b : Rat) : Bool := decide (a ≤ b)

theorem leQ_iff (a b : Rat) : leQ a b = true ↔ a ≤ b := by simp [leQ]

namespace Cond

/-- `Press`. -/
def press (id : Nat) (act : Rat) : Cond :=
  { id, σ := Unit, s := (), kind := fun _ => .explicit,
    step := fun _ _ _ v => ((), if v.isActuated act then .fired else .none) }

/-- `JustPress` (state: previously actuated). -/
def justPress (id : Nat) (act : Rat) : Cond :=
  { id, σ := Bool, s := false, kind := fun _ => .explicit,
    step := fun prev _ _ v =>
      let a := v.isActuated act
      (a, if a && !prev then .fired else .none) }

/-- `Release`. -/
def release (id : Nat) (act : Rat) : Cond :=
  { id, σ := Bool, s := false, kind := fun _ => .explicit,
    step := fun prev _ _ v =>
      let a := v.isActuated act
      (a, if a then .ongoing else if prev then .fired else .none) }

structure HoldSt where
  timer : CTimer
  fired : Bool := false
  deriving DecidableEq, Repr, Inhabited

def holdStep (T : Rat) (oneShot : Bool) (act : Rat) (s : HoldSt) (t : Tick) (v : Value) : HoldSt × AState :=
  let actuated := v.isActuated act
  let timer := if actuated then s.timer.update t else s.timer.reset
  let isFirst := !s.fired
  let fired := leQ T timer.duration
  let st : AState :=
    if fired then (if isFirst || !oneShot then .fired else .none)
    else if actuated then .ongoing else .none
  ({ timer, fired }, st)

/-- `Hold`. -/
def hold (id : Nat) (T : Rat) (oneShot : Bool) (act : Rat) (rel : Bool) : Cond :=
  { id, σ := HoldSt, s := { timer := { relative := rel } }, kind := fun _ => .explicit,
    step := fun s _ t v => holdStep T oneShot act s t v }

structure HoldRelSt where
  timer : CTimer
  actuated : Bool := false
  deriving DecidableEq, Repr, Inhabited

def holdRelStep (T : Rat) (act : Rat) (s : HoldRelSt) (t : Tick) (v : Value) : HoldRelSt × AState :=
  let timer := s.timer.update t
  let held := timer.duration
  let prev := s.actuated
  let a := v.isActuated act
  if a then ({ timer, actuated := a }, .ongoing)
  else ({ timer := timer.reset, actuated := a }, if prev && leQ T held then .fired else .none)

/-- `HoldAndRelease` (with the D2 fix: fires only on a falling edge). -/
def holdAndRelease (id : Nat) (T : Rat) (act : Rat) (rel : Bool) : Cond :=
  { id, σ := HoldRelSt, s := { timer := { relative := rel } }, kind := fun _ => .explicit,
    step := fun s _ t v => holdRelStep T act s t v }

structure TapSt where
  timer : CTimer
  actuated : Bool := false
  deriving DecidableEq, Repr, Inhabited

def tapStep (T : Rat) (act : Rat) (s : TapSt) (t : Tick) (v : Value) : TapSt × AState :=
  let last := s.actuated
  let lastHeld := s.timer.duration
  let a := v.isActuated act
  let timer := if a then s.timer.update t else s.timer.reset
  let st : AState :=
    if last && !a && leQ lastHeld T then .fired
    else if leQ T timer.duration then .none
    else if a then .ongoing else .none
  ({ timer, actuated := a }, st)

/-- `Tap`. -/
def tap (id : Nat) (T : Rat) (act : Rat) (rel : Bool) : Cond :=
  { id, σ := TapSt, s := { timer := { relative := rel } }, kind := fun _ => .explicit,
    step := fun s _ t v => tapStep T act s t v }

structure PulseSt where
  timer : CTimer
  count : Nat := 0
  deriving DecidableEq, Repr, Inhabited

def pulseStep (I : Rat) (limit : Nat) (onStart : Bool) (act : Rat) (s : PulseSt) (t : Tick) (v : Value) :
    PulseSt × AState :=
  if v.isActuated act then
    let timer := s.timer.update t
    if limit == 0 || s.count < limit then
      let n : Nat := if onStart then s.count else s.count + 1
      if leQ (I * (n : Rat)) timer.duration then ({ timer, count := s.count + 1 }, .fired)
      else ({ timer, count := s.count }, .ongoing)
    else ({ timer, count := s.count }, .none)
  else ({ timer := s.timer.reset, count := 0 }, .none)

/-- `Pulse`. -/
def pulse (id : Nat) (I : Rat) (limit : Nat) (onStart : Bool) (act : Rat) (rel : Bool) : Cond :=
  { id, σ := PulseSt, s := { timer := { relative := rel } }, kind := fun _ => .explicit,
    step := fun s _ t v => pulseStep I limit onStart act s t v }

/-- `Chord<A>`: inherits the referenced action's state; absent action ⇒ `None`. Implicit. -/
def chord (id : Nat) (a : Nat) : Cond :=
  { id, σ := Unit, s := (), kind := fun _ => .implicit,
    step := fun _ av _ _ => ((), match av.get? a with | some d => d.state | none => .none) }

/-- `BlockBy<A>`: `None` exactly while the referenced action is `Fired`; absent action ⇒ never blocks. -/
def blockBy (id : Nat) (a : Nat) (eventsOnly : Bool) : Cond :=
  { id, σ := Unit, s := (), kind := fun _ => if eventsOnly then .eventsBlocker else .blocker,
    step := fun _ av _ _ =>
      ((), match av.get? a with
           | some d => if d.state == .fired then .none else .fired
           | none => .fired) }

/-- custom: returns `script[i mod len]` at its `i`-th invocation (harness `sscript`). -/
def scripted (id : Nat) (k : Kind) (script : List AState) : Cond :=
  { id, σ := Nat, s := 0, kind := fun _ => k,
    step := fun i _ _ _ => (i + 1, (script[i % script.length]?).getD .none) }

/-- custom: returns `rT` if the value is truthy else `rF` (harness `sact`). -/
def onActive (id : Nat) (k : Kind) (rT rF : AState) : Cond :=
  { id, σ := Unit, s := (), kind := fun _ => k,
    step := fun _ _ _ v => ((), if v.asBool then rT else rF) }

end Cond
end BEI
