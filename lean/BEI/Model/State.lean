/-
  Action state, the event transition table (read from the generated table), `ActionData`
  (mirror of `ActionData` / `ActionEvents` in `/repo/src/input_context/{context_instance,events}.rs`).
-/
import BEI.Model.Value
import BEI.Gen.Tables
namespace BEI

namespace AState
/-- significance rank = position in the source's variant order (`derive(Ord)`). -/
def rank (s : AState) : Nat := (Gen.stateOrder.idxOf s)
/-- `Ord::cmp` on `ActionState`. -/
def cmp (a b : AState) : Ordering := compare a.rank b.rank
end AState

/-- the flags `ActionEvents::new(prev, cur)` sets (as listed in the matching arm; empty if no arm matches). -/
def eventsSet (prev cur : AState) : List EvKind :=
  match Gen.eventsNew.find? (fun r => r.1 == prev && r.2.1 == cur) with
  | some r => r.2.2
  | none => []

/-- the events of a transition in the order in which `trigger_events_typed` triggers them
    (`iter_names`: declaration order of the flags). -/
def eventsOf (prev cur : AState) : List EvKind :=
  (Gen.flags.map (·.1)).filter (fun k => (eventsSet prev cur).contains k)

/-- `ActionEvents::bits()` of an event list. -/
def eventBits (evs : List EvKind) : Nat :=
  (Gen.flags.filter (fun f => evs.contains f.1)).foldl (fun acc f => acc + f.2) 0

/-- One frame's timing as seen by the crate: `Time<Virtual>::delta_secs()` and `relative_speed()`. -/
structure Tick where
  delta : Rat
  speed : Rat
  deriving DecidableEq, Repr, Inhabited

/-- `ActionData`. -/
structure ActionData where
  state : AState
  events : List EvKind
  value : Value
  elapsed : Rat
  fired : Rat
  deriving DecidableEq, Repr, Inhabited

namespace ActionData

/-- `ActionData::new::<A>()` for an action with output dimension `d`. -/
def new (d : Dim) : ActionData :=
  { state := .none, events := [], value := Value.zero d, elapsed := 0, fired := 0 }

/-- `ActionData::update`. -/
def update (a : ActionData) (t : Tick) (st : AState) (v : Value) : ActionData :=
  let (el, fi) :=
    match a.state with
    | .none => ((0 : Rat), (0 : Rat))
    | .ongoing => (a.elapsed + t.delta, 0)
    | .fired => (a.elapsed + t.delta, a.fired + t.delta)
  { state := st, events := eventsOf a.state st, value := v, elapsed := el, fired := fi }

end ActionData

/-- `ActionsData`: action id ↦ data. Kept as an association list in binding order
    (the Rust `HashMap` is only ever looked up by key, never iterated). -/
abbrev ActionsView := List (Nat × ActionData)

namespace ActionsView
def get? (av : ActionsView) (a : Nat) : Option ActionData :=
  match av with
  | [] => none
  | (k, d) :: rest => if k == a then some d else get? rest a

def set (av : ActionsView) (a : Nat) (d : ActionData) : ActionsView :=
  match av with
  | [] => []
  | (k, d') :: rest => if k == a then (k, d) :: rest else (k, d') :: set rest a d
end ActionsView

/-- An event delivered to one entity (what a global observer sees). -/
structure Delivery where
  entity : Nat
  action : Nat
  kind : EvKind
  state : AState
  value : Value
  elapsed : Option Rat
  fired : Option Rat
  deriving DecidableEq, Repr, Inhabited

/-- payload of one event kind for action data `d` (fields each event struct carries). -/
def mkDelivery (action : Nat) (d : ActionData) (k : EvKind) (e : Nat) : Delivery :=
  match k with
  | .started => ⟨e, action, k, d.state, d.value, none, none⟩
  | .ongoing => ⟨e, action, k, d.state, d.value, some d.elapsed, none⟩
  | .fired => ⟨e, action, k, d.state, d.value, some d.elapsed, some d.fired⟩
  | .canceled => ⟨e, action, k, d.state, d.value, some d.elapsed, none⟩
  | .completed => ⟨e, action, k, d.state, d.value, some d.elapsed, some d.fired⟩

/-- `ActionData::trigger_events`: for each set flag in `iter_names` order, for each entity. -/
def triggerEvents (action : Nat) (d : ActionData) (entities : List Nat) : List Delivery :=
  d.events.flatMap (fun k => entities.map (fun e => mkDelivery action d k e))

end BEI
