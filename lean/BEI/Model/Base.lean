/-
  Enumerations shared by the generated tables (`BEI/Gen/Tables.lean`) and the model.
-/
namespace BEI

/-- `ActionState`. The significance order (`derive(Ord)`, i.e. the variant order in the source)
    is *not* fixed here: it comes from the extracted table `Gen.stateOrder`. -/
inductive AState where
  | none | ongoing | fired
  deriving DecidableEq, Repr, Inhabited

/-- The five action events (`Started`, `Ongoing`, `Fired`, `Canceled`, `Completed`). -/
inductive EvKind where
  | started | ongoing | fired | canceled | completed
  deriving DecidableEq, Repr, Inhabited

/-- `ConditionKind` (`Blocker { events_only }` is split in two). -/
inductive Kind where
  | explicit | implicit | blocker | eventsBlocker
  deriving DecidableEq, Repr, Inhabited

/-- The four modifier-key bits of `ModKeys`. -/
inductive ModBit where
  | alt | control | shift | super
  deriving DecidableEq, Repr, Inhabited

end BEI
