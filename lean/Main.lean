import BEI.Driver.Run
open BEI.Driver

/-- process the batch line by line; a fresh `RunState` per scenario -/
partial def loop (h : IO.FS.Stream) (lineNo : Nat) (st : Option RunState) : IO UInt32 := do
  let line ← h.getLine
  if line.isEmpty then return 0
  let l := line.trimAscii.toString
  if l.isEmpty || l.startsWith "#" then loop h (lineNo + 1) st
  else
    let out ← IO.getStdout
    match l.splitOn " ", st with
    | ["scenario", name], none =>
      out.putStrLn ("scenario " ++ name)
      loop h (lineNo + 1) (some {})
    | ["endscenario"], some s =>
      for o in s.out do out.putStrLn o
      out.putStrLn "endscenario"
      loop h (lineNo + 1) none
    | _, some s =>
      match s.step l with
      | some s' =>
        -- flush output eagerly to keep memory flat
        for o in s'.out do out.putStrLn o
        loop h (lineNo + 1) (some { s' with out := #[] })
      | none =>
        out.putStrLn ("error " ++ toString lineNo ++ " " ++ l)
        return 3
    | _, none =>
      out.putStrLn ("error " ++ toString lineNo ++ " " ++ l)
      return 3

def main (args : List String) : IO UInt32 := do
  match args with
  | [path] =>
    if path == "-" then loop (← IO.getStdin) 1 none
    else
      let h ← IO.FS.Handle.mk path IO.FS.Mode.read
      loop (IO.FS.Stream.ofHandle h) 1 none
  | _ =>
    IO.eprintln "usage: bei_driver <batch-file|->"
    return 2
