#!/bin/sh
# Offline set-up after a fresh restore: build the harness against /repo and the Lean development.
set -e
cd "$(dirname "$0")"
export CARGO_NET_OFFLINE=true
[ -f harness/Cargo.lock ] || cp /repo/Cargo.lock harness/Cargo.lock
(cd harness && cargo build --offline --release)
python3 tools/extract.py
(cd lean && lake build BEI bei_driver)
# translator + bridge theorems (generated code = model); a unit whose text is outside the translator's subset is skipped by the checks
python3 tools/codegen.py
(cd lean && lake build BEI.Bridge.Value BEI.Bridge.Events BEI.Bridge.Timer BEI.Bridge.Conditions BEI.Bridge.Tracker BEI.Bridge.ActionData BEI.Bridge.Modifiers BEI.Bridge.Refs BEI.Bridge.Merge BEI.Bridge.Loops BEI.Bridge.SourceC04 BEI.Bridge.SourceC12 BEI.Bridge.SourceC13 BEI.Bridge.SourceC18 BEI.Bridge.SourceC20 BEI.Bridge.SourceC03 BEI.Bridge.SourceC10 BEI.Bridge.SourceC11) || true
