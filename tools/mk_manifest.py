#!/usr/bin/env python3
"""Regenerates MANIFEST.json from the table below (kept in one place so it stays valid)."""
import json, os, subprocess
HERE = os.path.dirname(os.path.dirname(os.path.abspath(__file__)))

NOTE = ("Trusted base: Lean 4.33 kernel; axioms propext / Classical.choice / Quot.sound only (audited per run); the extractor "
        "(tables and constants), the Rust harness and the Python orchestrator; Bevy (ECS, observers, command queue, scheduler, time, "
        "input), glam, libm and f32 arithmetic are modelled (exact rationals on exact grids), not verified.")

# id -> (technique, level text, design ref)
CLAIMED = {
    "C20": ("Lean 4 theorems about the value model (case analysis over all values/dimensions) + checked correspondence on direct ActionValue API calls",
            "All conversion laws are proved in Lean for every value and dimension over exact rationals; the model is tied to the real "
            "ActionValue API by running both on an exhaustive grid and random dyadic values and comparing byte for byte.", "§5 C20"),
}

PENDING = {}

def main():
    commits = subprocess.run(["git", "-C", "/repo", "log", "--format=%h %s", "621628f..HEAD"], capture_output=True, text=True).stdout.splitlines()
    hook_commits = [c.split()[0] for c in commits if "verif_hooks" in c]
    checks = []
    for pid in sorted(CLAIMED):
        tech, text, ref = CLAIMED[pid]
        checks.append({
            "property_id": pid,
            "quick_cmd": f"./check {pid} --tier quick",
            "thorough_cmd": f"./check {pid} --tier thorough",
            "evidence_file": f"/verif/evidence/{pid}.json",
            "replay_cmd_template": f"./check {pid} --replay {{path}}",
            "engine": "lean4-model+correspondence",
            "level_claimed": {"category": "proof", "text": text, "design_ref": "DESIGN.md " + ref},
            "level_note": NOTE,
            "technique": tech,
        })
    all_ids = [json.loads(l)["id"] for l in open(os.path.join(HERE, "properties.jsonl"))]
    na = [{"property_id": p, "reason": PENDING.get(p, "not yet claimed: its theorems are still being written (the correspondence stream already runs)")}
          for p in all_ids if p not in CLAIMED]
    m = {
        "version": 1,
        "setup_cmd": "./setup.sh",
        "hooks": {
            "guard": "cargo feature `verif_hooks`",
            "enable": "harness/Cargo.toml: bevy_enhanced_input = { path = \"/repo\", features = [\"verif_hooks\"] }",
            "baseline_off_cmd": "cd /repo && cargo test --workspace --no-fail-fast --offline",
            "source_commits": hook_commits,
            "add_only": True,
        },
        "engines": [{
            "name": "lean4-model+correspondence", "path": "/verif/lean, /verif/harness, /verif/check",
            "serves_properties": sorted(CLAIMED),
            "kind_free_text": "hand-written executable Lean 4 model with machine-checked property theorems; extractor-regenerated tables; "
                              "differential correspondence against the real crate in a Bevy App",
        }],
        "checks": checks,
        "not_applicable": na,
        "notes": "See DESIGN.md. KNOWN_FINDINGS.txt lists the seven defects repaired by fix: commits in /repo.",
    }
    json.dump(m, open(os.path.join(HERE, "MANIFEST.json"), "w"), indent=1)
    print("manifest:", len(checks), "claimed,", len(na), "not claimed")

if __name__ == "__main__":
    main()
