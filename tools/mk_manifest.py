#!/usr/bin/env python3
"""Regenerates MANIFEST.json from the table below (kept in one place so it stays valid)."""
import json, os, subprocess
HERE = os.path.dirname(os.path.dirname(os.path.abspath(__file__)))

NOTE = ("Trusted base: Lean 4.33 kernel; axioms propext / Classical.choice / Quot.sound only (audited per run); the extractor "
        "(tables and constants), the Rust->Lean translator of function bodies (tools/rs2lean.py, tools/codegen.py) with its prelude "
        "BEI/Model/Rs.lean (glam vectors, bitflags, Into, Time getters modelled), the Rust harness and the Python orchestrator; Bevy (ECS, observers, command queue, scheduler, time, "
        "input), glam, libm and f32 arithmetic are modelled (exact rationals on exact grids), not verified.")

# id -> (technique, level text, design ref)
CORR = (" The model is tied to the real crate on every run by executing both (the crate inside a real Bevy App through its public API, "
        "the model through its compiled Lean definitions) on the committed corpus, directed/exhaustive enumerators and seeded random "
        "scenarios of this property's stream; the traces must be identical on every fact the property's function consumes or produces "
        "(tools/facts.py): a difference in a produced fact under equal consumed facts is reported as a failing input, a difference in a "
        "consumed fact as a broken correspondence (no-failing-input-found).")

CLAIMED = {
    "C01": ("Lean 4 theorems (extracted transition table checked against the documented one by decide; unfolding of the per-action update; "
            "induction over the action loop) + checked correspondence",
            "For every action configuration, reader, tick and entity list the model's update stores the table entry for (polled previous state, "
            "new state), delivers exactly those events with the polled payload to every entity, Started first, in the action's dimension; the "
            "transition table and flag order are re-extracted from the source on every run." + CORR, "§5 C01"),
    "C02": ("Lean 4 theorems (episode automaton accepted for every state history by induction; closing events of trigger_removed; removal "
            "closes exactly the leaving entity and the lookup fails afterwards, over every reachable state; command-queue discipline) + checked "
            "correspondence incl. exhaustive lifecycle op sequences and observer-issued deactivations",
            "Events of every state history form well-formed episodes; remove/despawn/rebuild deliver exactly the terminal events of the affected "
            "entities with zero value and state None; with arbitrary observer reaction scripts every queued event - frame events and closing "
            "events of observer-requested deactivations - is delivered exactly once (queue_exactly_once: the processed list contains all "
            "pending events in order and the delivery counter advances by its length). Bevy's queue discipline itself is modelled." + CORR, "§5 C02"),
    "C03": ("Lean 4 theorems (fold invariant over arbitrary condition machines, by induction on the condition list; combine/overwrite as list "
            "concatenation/replacement) + checked correspondence incl. exhaustive (kind x result) sequences",
            "The explicit/implicit/blocker law is proved for every list of arbitrary conditions at input level, at action level and for both "
            "levels combined through the merge loop." + CORR, "§5 C03"),
    "C04": ("Lean 4 theorems (loop invariant of the input merge by induction over the binding list; linearity of truncation) + checked correspondence",
            "Contributing inputs, merged value (sum / per-axis max-abs), modifier order, output dimension and absence of panics are proved for "
            "all configurations and inputs over exact rationals." + CORR, "§5 C04"),
    "C05": ("Lean 4 theorems (case analysis over input kinds; monotonicity of the consumed set; characterisation of what one update consumes) "
            "+ checked correspondence",
            "Consumption hides exactly the inputs sharing a source or a modifier key with a contributing input, only when the consuming action is "
            "not None, persists for the rest of the frame (every later action, instance and lower-priority context evaluates a hidden binding on the "
            "inactive value) and is reset by the next one - proved for all readers and inputs." + CORR, "§5 C05"),
    "C06": ("Lean 4 theorems (sortedness of the registry as an invariant of every reachable application state, by induction over operation "
            "histories incl. observer-issued and command-issued operations; list-order evaluation; uniqueness of the insertion point) + checked correspondence "
            "incl. all insertion orders of the pooled context types",
            "Every reachable registry is sorted by descending priority and the update walks it in list order, so a strictly higher priority type "
            "is always evaluated (and consumes) first: whatever its consuming actions hid reads inactive for every lower-priority context "
            "(higher_priority_wins, over every reachable state)." + CORR, "§5 C06"),
    "C07": ("Lean 4 theorems (mirror invariant registry <-> world over every reachable state: induction over operation histories; swap_remove as a "
            "permutation; one group per type, no empty group, no duplicate holder) + checked correspondence incl. exhaustive short op sequences",
            "Lookup succeeds exactly for current holders in every reachable state; groups exist exactly while a holder exists; a holder arriving "
            "after the last one left gets a freshly built instance; no lifecycle operation and no frame can panic in any reachable state "
            "(no_operation_panics / no_frame_panics: totality of every expect site under the invariant, for instances built with bind)." + CORR, "§5 C07"),
    "C08": ("Lean 4 theorems (suppressed binding is skipped untouched; the test reads only the physical input; induction over arbitrary frame "
            "histories; after the first inactive frame the binding is bisimilar to a never-suppressed one) + checked correspondence incl. "
            "contexts created above/below consumers of the same held input",
            "A new binding contributes nothing and drives none of its machines while its input has been physically held since creation, for "
            "every history; it behaves like any other binding after the first physically inactive evaluation." + CORR, "§5 C08"),
    "C09": ("Lean 4 theorems about a schedule model (every linearisation of PreUpdate respecting the edges InputSystem -> EnhancedInputSystem -> probe "
            "sees this frame's input and all deliveries; the edge is necessary; edge events only on a state change) + the schedule facts read "
            "off the real App's schedule graph on every run + probes in PreUpdate-after-set and Update with three ways of injecting input",
            "Same-frame reflection and delivery before dependants/Update are proved for the schedule model under hypotheses that the harness checks "
            "against the real schedule graph on every run; probe counts of the real App match the model for input injected as window events, by "
            "direct mutation and from First. Partial: Bevy's executor and sync-point insertion are modelled, not verified." + CORR, "§5 C09"),
    "C10": ("Lean 4 theorems (per-step equations; induction over arbitrary state/delta histories) + checked correspondence",
            "Elapsed/fired durations are characterised for every state history and every sequence of non-negative deltas; payload = polled." + CORR, "§5 C10"),
    "C11": ("Lean 4 theorems (refinement of Press / JustPress / Release / Hold / HoldAndRelease against declarative specs over actuation histories "
            "of any length by induction; timer base and finiteness incl. speed zero; Tap by induction as well; Pulse by a history invariant plus a per-evaluation fire condition) + checked correspondence on direct evaluate calls (exhaustive short actuation sequences "
            "x delta/speed grid x all parameter combinations) and in real contexts",
            "The built-in conditions are proved to follow their documented patterns in the chosen time base for every history; none fires without "
            "actuation; timers never divide by zero. Pulse is characterised by its history invariant (timer = continuous actuation, count "
            "within the limit, reset on release) plus the per-evaluation fire condition." + CORR, "§5 C11"),
    "C12": ("Lean 4 theorems (log of the evaluation equals the canonical invocation list, for arbitrary machines; independence from consumption) "
            "+ checked correspondence on instrumented conditions/modifiers",
            "Each modifier/condition past the held-input suppression is invoked exactly once per frame in the canonical order, with no "
            "hypothesis on results, blockers, consumption or state; proved for actions, whole context instances and the whole registry update of a "
            "frame (registry_log_canonical)." + CORR, "§5 C12"),
    "C13": ("Lean 4 theorems (re-binding keeps position and key bijection; append lemma and frame lemma for the action loop: earlier actions "
            "show this frame's data, later ones and self the previous frame's; Chord / BlockBy / AccumulateBy characterised incl. absent actions) "
            "+ checked correspondence over all binding orders with forward/backward/self/absent references",
            "Binding order, in-place re-binding and cross-action visibility are proved for every context; the three referencing built-ins are "
            "characterised exactly." + CORR, "§5 C13"),
    "C14": ("Lean 4 theorems (fan-out of trigger_events to exactly the given entity list, once per holder by Nodup of the holder list from the "
            "registry invariant; recipients of shared / exclusive group updates by induction over the loops) + checked correspondence",
            "Every event of a shared instance goes exactly once to each holder with identical payload and to nobody else; exclusive instances "
            "deliver only to their owner and their state depends on other instances only through the reader." + CORR, "§5 C14"),
    "C15": ("Lean 4 theorems about the reader model (extracted left/right modifier table; activity formula; congruence on the named keys; "
            "gamepad selection) + checked correspondence incl. all 16 masks x all 256 modifier-key subsets",
            "Keyboard/mouse bindings are active iff key/button (or non-zero delta) and, per required modifier, left or right variant - "
            "irrespective of other keys; single-gamepad contexts read only their gamepad; `Any` sees any pressed button and the unique "
            "non-zero axis; at any point of the frame an input that is not hidden by consumption or by the UI flag reads its physical state "
            "(unhidden_reads_physical). Partial: that Bevy's input resources hold what devices sent is Bevy's contract (modelled)." + CORR, "§5 C15"),
    "C16": ("Lean 4 theorems about the reader model (UI flag recomputed per frame; mouse inputs masked, keyboard/gamepad unchanged) + checked "
            "correspondence with Interaction components set by the harness",
            "With an interacted UI element all mouse-sourced inputs read inactive and keyboard/gamepad inputs are unchanged; without one "
            "nothing is masked; the flag is constant over the frame, so every context - whatever was evaluated and consumed before it - is "
            "masked alike (ui_masks_mouse_all_frame). Partial: bevy_ui's own Interaction detection is outside the model." + CORR, "§5 C16"),
    "C17": ("Lean 4 theorems (simulation relation `Agree` on the kept contexts' inputs: preserved by evaluating a kept action on both sides and by "
            "any consumption of an input-disjoint action on one side; lifted over instances, groups and the whole registry; determinism) + pairwise runs of the real crate (configuration vs "
            "sub-configuration with the input-disjoint contexts deleted, same script incl. noise) + every scenario run twice in separate processes",
            "An action's result depends on the reader only through its own inputs; disjoint consumption is invisible; the real crate's traces of "
            "the kept contexts are identical with and without the disjoint contexts and identical across re-runs; registry_noninterference lifts "
            "the simulation over arbitrary interleavings of kept and deleted context types in the evaluation order." + CORR, "§5 C17"),
    "C18": ("Lean 4 theorems over exact rationals (Mathlib order/field lemmas: dead-zone range, sign, monotonicity, saturation; lerp between; "
            "swizzle permutation and losslessness; zero-to-zero; dimension rules) + checked correspondence on direct apply calls (dense grid, "
            "random values, short exact DeltaLerp chains) and in real contexts",
            "All listed algebraic laws are proved for all values and parameters in the documented domains. Partial: radial dead zone for an "
            "abstract length function, natural exponents only, f32 rounding not modelled (exact grids in the correspondence)." + CORR, "§5 C18"),
    "C19": ("Lean 4 theorems about the binding-set model (bindings is a homomorphism: tuples / lists / each-helpers; equal flattening gives the "
            "same ActionBind; preset expansion and compass directions through the modifier pipeline) + checked correspondence through six "
            "construction routes of the real public API and the three presets bound to arbitrary inputs",
            "Equivalent constructions denote literally the same ActionBind in the model, and the real crate's traces through every route equal "
            "the route-independent model's; Cardinal / Bidirectional / GamepadStick map to the documented axes." + CORR, "§5 C19"),
    "C20": ("Lean 4 theorems about the value model (case analysis over all values/dimensions) + checked correspondence on direct ActionValue API calls",
            "All conversion laws are proved in Lean for every value and dimension over exact rationals; the model is tied to the real "
            "ActionValue API by running both on an exhaustive grid and random dyadic values and comparing byte for byte.", "§5 C20"),
}

PENDING = {}

# property -> source functions that are re-translated into Lean on every run and proved equal to the model (BEI/Bridge/*.lean)
BRIDGE = {
    "C01": "ActionEvents::new, ActionData::update",
    "C02": "ActionEvents::new",
    "C03": "TriggerTracker::{new, state, overwrite, combine (flags, conversion)}, apply_conditions and apply_modifiers (the loops over the trait objects, as folds over arbitrary machines), ActionValue::*",
    "C04": "TriggerTracker::{overwrite, combine (flags, conversion)}, the merge step (match on cmp) of ActionBind::update, ActionValue::*",
    "C05": "the merge step of ActionBind::update (consume buffer: appended on an equal state, restarted on a more significant one)",
    "C12": "TriggerTracker::apply_modifiers and apply_conditions (the loops over the trait objects: each object invoked exactly once, in order, no early out)",
    "C10": "ActionData::update",
    "C11": "ConditionTimer::{update, reset, duration}, evaluate of Press, JustPress, Release, Hold, HoldAndRelease, Tap, Pulse",
    "C13": "evaluate / kind of Chord and BlockBy, apply of AccumulateBy",
    "C18": "apply of Negate, DeadZone (+ dead_zone), DeltaLerp, SwizzleAxis, Scale, DeltaScale, AccumulateBy",
    "C20": "ActionValue::{dim, zero, as_bool, as_axis1d, as_axis2d, as_axis3d, convert, is_actuated}",
}
BRIDGE_TECH = (" + translation of the source's function bodies (%s) into Lean on every run (tools/rs2lean.py) with bridge theorems proving "
               "the translated code equal to the model functions the property theorems are about")
BRIDGE_TEXT = (" The bodies of %s are re-translated from /repo/src into Lean definitions on every run and proved equal to the model's "
               "functions (BEI/Bridge/*.lean), so the theorems are re-checked against what the code says now; a body whose text leaves the "
               "translator's subset falls back to the correspondence alone (recorded in the evidence).")

def main():
    commits = subprocess.run(["git", "-C", "/repo", "log", "--format=%h %s", "621628f..HEAD"], capture_output=True, text=True).stdout.splitlines()
    hook_commits = [c.split()[0] for c in commits if "verif_hooks" in c]
    checks = []
    for pid in sorted(CLAIMED):
        tech, text, ref = CLAIMED[pid]
        if pid in BRIDGE:
            tech += BRIDGE_TECH % BRIDGE[pid]
            text += BRIDGE_TEXT % BRIDGE[pid]
        checks.append({
            "property_id": pid,
            "quick_cmd": f"./check {pid} --tier quick",
            "thorough_cmd": f"./check {pid} --tier thorough",
            "evidence_file": f"/verif/evidence/{pid}.json",
            "replay_cmd_template": f"./check {pid} --replay {{path}}",
            "engine": "lean4-model+correspondence",
            "level_claimed": {"category": "proof", "text": text, "design_ref": "DESIGN.md " + ref},
            "level_note": NOTE,
            "technique": tech,
        })
    all_ids = [json.loads(l)["id"] for l in open(os.path.join(HERE, "properties.jsonl"))]
    na = [{"property_id": p, "reason": PENDING.get(p, "not yet claimed: its theorems are still being written (the correspondence stream already runs)")}
          for p in all_ids if p not in CLAIMED]
    m = {
        "version": 1,
        "setup_cmd": "./setup.sh",
        "hooks": {
            "guard": "cargo feature `verif_hooks`",
            "enable": "harness/Cargo.toml: bevy_enhanced_input = { path = \"/repo\", features = [\"verif_hooks\"] }",
            "baseline_off_cmd": "cd /repo && cargo test --workspace --no-fail-fast --offline",
            "source_commits": hook_commits,
            "add_only": True,
        },
        "engines": [{
            "name": "lean4-model+correspondence", "path": "/verif/lean, /verif/harness, /verif/check",
            "serves_properties": sorted(CLAIMED),
            "kind_free_text": "hand-written executable Lean 4 model with machine-checked property theorems; extractor-regenerated tables; "
                              "Rust->Lean translation of the pure function bodies with bridge theorems (translated code = model); "
                              "differential correspondence against the real crate in a Bevy App",
        }],
        "checks": checks,
        "not_applicable": na,
        "notes": "See DESIGN.md. KNOWN_FINDINGS.txt lists the seven defects repaired by fix: commits in /repo.",
    }
    json.dump(m, open(os.path.join(HERE, "MANIFEST.json"), "w"), indent=1)
    print("manifest:", len(checks), "claimed,", len(na), "not claimed")

if __name__ == "__main__":
    main()
