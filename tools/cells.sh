#!/bin/bash
# usage: tools/cells.sh <seeded-id> <prop>...  — applies a seeded change, runs the quick checks, prints verdict + first difference, reverts
export VERIF_EVIDENCE_DIR=/verif/work/evidence-scratch   # keep the committed evidence (unchanged tree, seed 1) intact
id="$1"; shift
cd /verif
git -C /repo apply "/verif/seeded/$id/patch.diff" || exit 9
(cd harness && CARGO_NET_OFFLINE=true cargo build --offline --release 2>&1 | tail -1) >/dev/null
for p in "$@"; do
  r=$(./check $p --skip-build 2>&1 | tail -1)
  echo "== $id / $p: ${r:0:150}"
  f="${r##*replay=}"; f="${f%% *}"
  [ -f "$f" ] && grep -m1 "first difference" "$f" | cut -c1-300
done
git -C /repo checkout -- .
(cd harness && CARGO_NET_OFFLINE=true cargo build --offline --release 2>&1 | tail -1) >/dev/null
