#!/usr/bin/env python3
"""rs2lean: a small Rust -> Lean 4 translator for the pure, first-order function bodies of the crate.

It re-reads /repo/src on every run and regenerates lean/BEI/Gen/Code.lean: one Lean definition per translated Rust
function (`ActionValue::*`, `TriggerTracker::{new,state,combine flags}`, the flag update of `apply_conditions`,
`ActionData::update`, `ConditionTimer::*`, `evaluate` of the seven built-in timing conditions, `apply` of the stateless
built-in modifiers).  `BEI/Proofs/Bridge.lean` (hand-written) proves that every generated definition equals the
hand-written model function the property theorems are about, so those theorems are re-checked against what the code
says *now*.

Supported subset (anything else raises Untranslatable, which makes that *unit* fall back to the correspondence):
  statements : let [mut] x = e; | lvalue = e; | lvalue op= e; | recv.mutating_method(args); | if / else if / else |
               match | return e; | macro!(...) (ignored: trace!, debug!, warn_once!) | tail expression
  expressions: literals, paths, self / field access, unary ! -, binary || && == != < <= > >= + - * /, `as f32`,
               method calls (resolved by Lean's type-directed dot notation), associated calls `T::f(args)`, tuples,
               `if` and `match` in expression position, struct literals `Self { a, b: e }`
  translation: state passing — `self` (for `&mut self`) and `mut` locals are shadowed by `let`; code after an `if`/`match`
               statement is duplicated into its branches; `return e` drops the continuation.  A `&mut self` function
               returning T becomes `Self -> args -> Self × T` (just `Self` when T is `()`).
"""
import os, re, struct, sys, json
from fractions import Fraction

REPO = os.environ.get("BEI_REPO", "/repo")


class Untranslatable(Exception):
    pass


# ------------------------------------------------------------------------------------------------ lexer
TOK = re.compile(r"""
    (?P<ws>\s+|//[^\n]*|/\*.*?\*/)
  | (?P<num>\d[\d_]*\.\d[\d_]*(?:[eE][+-]?\d+)?(?:f32|f64)?|\d[\d_]*[eE][+-]?\d+|\d[\d_]*(?:u32|usize|u8|i32|f32)?)
  | (?P<id>[A-Za-z_][A-Za-z0-9_]*)
  | (?P<str>"(?:[^"\\]|\\.)*")
  | (?P<life>'[a-z_]+)
  | (?P<op>::|=>|->|==|!=|<=|>=|&&|\|\||\|=|&=|\+=|-=|\*=|/=|\.\.|[{}()\[\],;:.=<>!&|+\-*/#?@%^])
""", re.X | re.S)


def lex(src):
    out, i = [], 0
    while i < len(src):
        m = TOK.match(src, i)
        if not m:
            raise Untranslatable(f"lexer: unexpected character {src[i]!r}")
        i = m.end()
        k = m.lastgroup
        if k == "ws":
            continue
        out.append((k, m.group(k)))
    out.append(("eof", ""))
    return out


# ------------------------------------------------------------------------------------------------ parser
class P:
    def __init__(self, toks):
        self.t, self.i = toks, 0

    def peek(self, k=0):
        return self.t[min(self.i + k, len(self.t) - 1)]

    def at(self, v):
        return self.peek()[1] == v and self.peek()[0] in ("op", "id")

    def eat(self, v=None):
        tok = self.peek()
        if v is not None and tok[1] != v:
            raise Untranslatable(f"parser: expected {v!r}, found {tok[1]!r}")
        self.i += 1
        return tok

    def skip_balanced(self, open_, close):
        depth = 0
        while True:
            tok = self.eat()
            if tok[0] == "eof":
                raise Untranslatable("parser: unbalanced")
            if tok[1] == open_:
                depth += 1
            elif tok[1] == close:
                depth -= 1
                if depth == 0:
                    return

    # ---- blocks and statements
    def block(self):
        self.eat("{")
        stmts = []
        tail = None
        while not self.at("}"):
            if self.at("#"):  # attribute
                self.eat("#")
                self.skip_balanced("[", "]")
                continue
            if self.at("let"):
                self.eat("let")
                mut = False
                if self.at("mut"):
                    self.eat("mut")
                    mut = True
                pat = self.pattern()
                if self.at(":"):
                    self.eat(":")
                    self.type_()
                self.eat("=")
                e = self.expr()
                self.eat(";")
                stmts.append(("let", pat, e, mut))
                continue
            if self.at("return"):
                self.eat("return")
                e = None if self.at(";") else self.expr()
                if self.at(";"):
                    self.eat(";")
                stmts.append(("return", e))
                continue
            if self.at("for"):
                self.eat("for")
                pat = self.pattern()
                self.eat("in")
                it = self.expr(nostruct=True)
                body = self.block()
                stmts.append(("for", pat, it, body))
                continue
            if self.at("while") or self.at("loop"):
                raise Untranslatable("loops are outside the supported subset")
            if self.peek()[0] == "id" and self.peek(1)[1] == "!" and self.peek(2)[1] in ("(", "["):
                name = self.eat()[1]
                self.eat("!")
                o = self.peek()[1]
                self.skip_balanced(o, ")" if o == "(" else "]")
                if self.at(";"):
                    self.eat(";")
                if name not in ("trace", "debug", "warn_once", "warn", "info", "debug_assert", "debug_assert_eq"):
                    raise Untranslatable(f"macro {name}! is outside the supported subset")
                continue
            e = self.expr(stmt=True)
            if self.at("=") or self.peek()[1] in ("|=", "&=", "+=", "-=", "*=", "/="):
                op = self.eat()[1]
                rhs = self.expr()
                self.eat(";")
                stmts.append(("assign", e, op, rhs))
                continue
            if self.at(";"):
                self.eat(";")
                stmts.append(("expr", e))
                continue
            if self.at("}"):
                tail = e
                break
            if e[0] in ("if", "match", "block", "iflet"):
                stmts.append(("expr", e))
                continue
            raise Untranslatable(f"parser: unexpected token {self.peek()[1]!r} after expression")
        self.eat("}")
        # an `if`/`match` statement in last position is the tail expression
        if tail is None and stmts and stmts[-1][0] == "expr" and stmts[-1][1][0] in ("if", "match", "iflet"):
            tail = stmts.pop()[1]
        return ("block", stmts, tail)

    def type_(self):
        # consume a type (no translation needed for local annotations)
        depth = 0
        while True:
            v = self.peek()[1]
            if depth == 0 and v in ("=", ",", ")", "{", ";", ">") and not (v == ">" and depth > 0):
                return
            if v == "<":
                depth += 1
            if v == ">":
                depth -= 1
            self.eat()

    def pattern(self):
        if self.at("&"):
            self.eat()
        if self.at("_"):
            self.eat()
            return ("pwild",)
        if self.at("("):
            self.eat("(")
            ps = []
            while not self.at(")"):
                ps.append(self.pattern())
                if self.at(","):
                    self.eat(",")
            self.eat(")")
            return ("ptuple", ps)
        if self.at("mut"):
            self.eat("mut")
            return ("pbind", self.eat()[1], True)
        if self.peek()[0] == "num" or self.at("true") or self.at("false"):
            return ("plit", self.eat()[1])
        if self.peek()[0] != "id":
            raise Untranslatable(f"pattern: unexpected {self.peek()[1]!r}")
        path = [self.eat()[1]]
        while self.at("::"):
            self.eat("::")
            path.append(self.eat()[1])
        if self.at("("):
            self.eat("(")
            ps = []
            while not self.at(")"):
                ps.append(self.pattern())
                if self.at(","):
                    self.eat(",")
            self.eat(")")
            return ("pctor", path, ps)
        if self.at("{"):
            self.eat("{")
            ps = []
            while not self.at("}"):
                f = self.eat()[1]
                if self.at(":"):
                    self.eat(":")
                    ps.append(self.pattern())
                else:
                    ps.append(("pbind", f, False))
                if self.at(","):
                    self.eat(",")
            self.eat("}")
            return ("pctor", path, ps)
        if len(path) == 1 and path[0][0].islower():
            return ("pbind", path[0], False)
        return ("pctor", path, [])

    # ---- expressions (precedence climbing)
    BIN = [["||"], ["&&"], ["==", "!=", "<", "<=", ">", ">="], ["|"], ["+", "-"], ["*", "/"]]

    def expr(self, stmt=False, nostruct=False):
        return self.binary(0, nostruct)

    def binary(self, lvl, nostruct):
        if lvl == len(self.BIN):
            return self.cast(nostruct)
        lhs = self.binary(lvl + 1, nostruct)
        while self.peek()[0] == "op" and self.peek()[1] in self.BIN[lvl]:
            op = self.eat()[1]
            rhs = self.binary(lvl + 1, nostruct)
            lhs = ("bin", op, lhs, rhs)
        return lhs

    def cast(self, nostruct):
        e = self.unary(nostruct)
        while self.at("as"):
            self.eat("as")
            ty = self.eat()[1]
            e = ("as", e, ty)
        return e

    def unary(self, nostruct):
        if self.at("!"):
            self.eat()
            return ("not", self.unary(nostruct))
        if self.at("-"):
            self.eat()
            return ("neg", self.unary(nostruct))
        if self.at("&"):
            self.eat()
            if self.at("mut"):
                self.eat()
            return self.unary(nostruct)
        if self.at("*"):
            self.eat()
            return self.unary(nostruct)
        return self.postfix(nostruct)

    def args(self):
        self.eat("(")
        a = []
        while not self.at(")"):
            a.append(self.expr())
            if self.at(","):
                self.eat(",")
        self.eat(")")
        return a

    def postfix(self, nostruct):
        e = self.primary(nostruct)
        while True:
            if self.at("."):
                self.eat(".")
                name = self.eat()[1]
                if self.at("::"):  # turbofish
                    self.eat("::")
                    self.skip_balanced("<", ">")
                if self.at("("):
                    e = ("mcall", e, name, self.args())
                else:
                    e = ("field", e, name)
            elif self.at("?"):
                raise Untranslatable("`?` is outside the supported subset")
            else:
                return e

    def primary(self, nostruct):
        k, v = self.peek()
        if k == "num":
            self.eat()
            return ("num", v)
        if k == "str":
            self.eat()
            return ("str", v)
        if v == "(":
            self.eat("(")
            if self.at(")"):
                self.eat(")")
                return ("unit",)
            e = self.expr()
            if self.at(","):
                es = [e]
                while self.at(","):
                    self.eat(",")
                    if self.at(")"):
                        break
                    es.append(self.expr())
                self.eat(")")
                return ("tuple", es)
            self.eat(")")
            return ("paren", e)
        if v == "{":
            return self.block()
        if v == "if":
            self.eat("if")
            if self.at("let"):
                self.eat("let")
                pat = self.pattern()
                self.eat("=")
                scrut = self.expr(nostruct=True)
                then = self.block()
                els = None
                if self.at("else"):
                    self.eat("else")
                    els = self.primary(nostruct) if self.at("if") else self.block()
                return ("iflet", pat, scrut, then, els)
            c = self.expr(nostruct=True)
            then = self.block()
            els = None
            if self.at("else"):
                self.eat("else")
                els = self.primary(nostruct) if self.at("if") else self.block()
            return ("if", c, then, els)
        if v == "match":
            self.eat("match")
            scrut = self.expr(nostruct=True)
            self.eat("{")
            arms = []
            while not self.at("}"):
                pats = [self.pattern()]
                while self.at("|"):
                    self.eat("|")
                    pats.append(self.pattern())
                if self.at("if"):
                    raise Untranslatable("match guards are outside the supported subset")
                self.eat("=>")
                body = self.expr()
                if self.at(","):
                    self.eat(",")
                for p_ in pats:
                    arms.append((p_, body))
            self.eat("}")
            return ("match", scrut, arms)
        if k == "id":
            if v in ("true", "false"):
                self.eat()
                return ("bool", v)
            path = [self.eat()[1]]
            while self.at("::"):
                self.eat("::")
                if self.at("<"):
                    self.skip_balanced("<", ">")
                    continue
                path.append(self.eat()[1])
            if self.at("(") :
                return ("call", path, self.args())
            if self.at("{") and not nostruct and path[-1][0].isupper():
                self.eat("{")
                fs = []
                while not self.at("}"):
                    if self.at(".."):
                        raise Untranslatable("struct update syntax is outside the supported subset")
                    f = self.eat()[1]
                    if self.at(":"):
                        self.eat(":")
                        fs.append((f, self.expr()))
                    else:
                        fs.append((f, ("path", [f])))
                    if self.at(","):
                        self.eat(",")
                self.eat("}")
                return ("struct", path, fs)
            return ("path", path)
        raise Untranslatable(f"parser: unexpected token {v!r}")


# ------------------------------------------------------------------------------------------------ source navigation
def strip_tests(src):
    i = src.find("#[cfg(test)]")
    return src if i < 0 else src[:i]


def find_fn(src, impl_pat, fn_name):
    """returns (signature text, body text incl. braces) of `fn fn_name` inside the first impl block matching impl_pat
    (impl_pat None: a free function)."""
    if impl_pat is not None:
        m = re.search(impl_pat, src)
        if not m:
            raise Untranslatable(f"impl block /{impl_pat}/ not found")
        start = src.index("{", m.end() - 1)
        end = match_brace(src, start)
        region, off = src[start:end + 1], start
    else:
        region, off = src, 0
    m = re.search(r"\bfn\s+" + re.escape(fn_name) + r"\s*(?:<[^>]*>)?\s*\(", region)
    if not m:
        raise Untranslatable(f"fn {fn_name} not found")
    b = region.index("{", m.end())
    # signature may contain `{`? no (no where-clauses with braces in this crate)
    e = match_brace(region, b)
    return region[m.start():b], region[b:e + 1]


def match_brace(s, i):
    depth = 0
    j = i
    n = len(s)
    while j < n:
        c = s[j]
        if c == "/" and s[j:j + 2] == "//":
            j = s.index("\n", j)
            continue
        if c == '"':
            j += 1
            while s[j] != '"':
                j += 2 if s[j] == "\\" else 1
        elif c == "{":
            depth += 1
        elif c == "}":
            depth -= 1
            if depth == 0:
                return j
        j += 1
    raise Untranslatable("unbalanced braces")


def parse_sig(sig):
    """-> (self_mode in {None,'ref','mut','val'}, [(name, type text)], return type text or None)"""
    m = re.search(r"\((.*)\)\s*(?:->\s*(.+?))?\s*$", sig, re.S)
    if not m:
        raise Untranslatable("signature not recognised")
    params, ret = m.group(1), m.group(2)
    parts, depth, cur = [], 0, ""
    for c in params:
        if c in "<([":
            depth += 1
        if c in ">)]":
            depth -= 1
        if c == "," and depth == 0:
            parts.append(cur)
            cur = ""
        else:
            cur += c
    if cur.strip():
        parts.append(cur)
    self_mode, ps = None, []
    for p_ in parts:
        p_ = " ".join(p_.split())
        if p_ in ("&mut self",):
            self_mode = "mut"
        elif p_ == "&self":
            self_mode = "ref"
        elif p_ in ("self", "mut self"):
            self_mode = "val"
        else:
            n, t = p_.split(":", 1)
            ps.append((n.replace("mut ", "").strip(), t.strip()))
    return self_mode, ps, (ret.strip() if ret else None)


TYPES = {
    "f32": "Rat", "bool": "Bool", "u32": "Nat", "usize": "Nat",
    "ActionValue": "ActionValue", "impl Into<ActionValue>": "ActionValue", "ActionValueDim": "ActionValueDim",
    "ActionState": "AState", "Accumulation": "Accumulation", "ConditionTimer": "ConditionTimer",
    "&Time<Virtual>": "Tick", "Vec2": "Vec2", "Vec3": "Vec3", "ActionEvents": "ActionEvents",
    "ConditionKind": "ConditionKind", "&ActionsData": "ActionsOf", "ActionsData": "ActionsOf",
}


def lean_type(t, self_ty):
    t = " ".join(t.split())
    if t in ("Self",):
        return self_ty
    m = re.fullmatch(r"Option<(.+)>", t)
    if m:
        return "(Option " + lean_type(m.group(1), self_ty) + ")"
    if t.startswith("&") and not t.startswith("&Time") :
        return lean_type(t[1:].replace("mut ", "").strip(), self_ty)
    if t in TYPES:
        return TYPES[t]
    raise Untranslatable(f"type `{t}` is outside the supported subset")


def parse_struct(src, name):
    m = re.search(r"pub(?:\(\w+\))?\s+struct\s+" + name + r"\s*(?:<[^>{]*>)?\s*\{", src)
    if not m:
        raise Untranslatable(f"struct {name} not found")
    b = src.index("{", m.end() - 1)
    body = src[b + 1:match_brace(src, b)]
    body = re.sub(r"//[^\n]*", "", body)
    body = re.sub(r"#\[[^\]]*\]", "", body)
    fields = []
    for part in split_top(body):
        part = part.strip()
        if not part:
            continue
        n, t = part.split(":", 1)
        n = n.replace("pub(super)", "").replace("pub(crate)", "").replace("pub", "").strip()
        t = " ".join(t.split())
        if t.startswith("fn(") or t.startswith("PhantomData"):
            continue  # function pointer (`ActionData::trigger_events`) / type marker: not data
        fields.append((n, t))
    return fields


def split_top(s):
    parts, depth, cur = [], 0, ""
    for c in s:
        if c in "<([{":
            depth += 1
        if c in ">)]}":
            depth -= 1
        if c == "," and depth == 0:
            parts.append(cur)
            cur = ""
        else:
            cur += c
    parts.append(cur)
    return parts


# ------------------------------------------------------------------------------------------------ emission
def f32_rat(lit):
    lit = re.sub(r"(f32|f64|_)", "", lit)
    x = struct.unpack("f", struct.pack("f", float(lit)))[0]
    fr = Fraction(x)
    if fr.denominator == 1:
        return f"({fr.numerator} : Rat)"
    return f"(({fr.numerator} : Rat) / {fr.denominator})"


PATHS = {
    ("ActionState", "None"): "AState.none", ("ActionState", "Ongoing"): "AState.ongoing",
    ("ActionState", "Fired"): "AState.fired",
    ("Accumulation", "MaxAbs"): "Accumulation.MaxAbs", ("Accumulation", "Cumulative"): "Accumulation.Cumulative",
    ("Vec2", "ZERO"): "Vec2.ZERO", ("Vec2", "X"): "Vec2.X", ("Vec2", "Y"): "Vec2.Y", ("Vec2", "ONE"): "Vec2.ONE",
    ("Vec3", "ZERO"): "Vec3.ZERO", ("Vec3", "X"): "Vec3.X", ("Vec3", "Y"): "Vec3.Y", ("Vec3", "Z"): "Vec3.Z",
    ("Vec3", "ONE"): "Vec3.ONE",
    ("Ordering", "Less"): "Ordering.lt", ("Ordering", "Equal"): "Ordering.eq", ("Ordering", "Greater"): "Ordering.gt",
    ("ActionValue", "Bool"): "ActionValue.vBool", ("ActionValue", "Axis1D"): "ActionValue.vAxis1D",
    ("ActionValue", "Axis2D"): "ActionValue.vAxis2D", ("ActionValue", "Axis3D"): "ActionValue.vAxis3D",
    ("ActionValueDim", "Bool"): "ActionValueDim.dBool", ("ActionValueDim", "Axis1D"): "ActionValueDim.dAxis1D",
    ("ActionValueDim", "Axis2D"): "ActionValueDim.dAxis2D", ("ActionValueDim", "Axis3D"): "ActionValueDim.dAxis3D",
}
ENUMS = {"ActionValue", "ActionValueDim", "ConditionKind", "DeadZoneKind", "Accumulation"}
CALL_RENAME = {}   # method-call renames a unit may install (trait-object calls: evaluate -> evaluate_obj, …)
OBJ_MUTATING = set()  # `&mut self` trait-object methods returning a value: `let x = obj.m(args)` rebinds `obj` as well
MUTATING = set()  # names of `&mut self` methods returning `()` seen in the translated units (filled by translate_unit)
FRESH = [0]


class Ctx:
    def __init__(self, self_ty, self_mode, ret_unit, muts):
        self.self_ty, self.self_mode, self.ret_unit = self_ty, self_mode, ret_unit
        self.muts = set(muts)  # mutable locals that were bound with a pattern binding `mut x` / let mut
        self.rec = None        # (fn name, Lean name of the fuelled function, indices of the arguments kept) for a self-recursive fn


def is_self_call(e, ctx):
    return ctx.rec is not None and e is not None and e[0] == "mcall" and e[1] == ("path", ["self"]) and e[2] == ctx.rec[0]


def self_call(e, ctx):
    args = [atom(a, ctx) for i, a in enumerate(e[3]) if i in ctx.rec[2]]
    return f"{ctx.rec[1]} fuel self " + " ".join(args)


def path_expr(path, ctx):
    if path[0] == "Self":
        path = [ctx.self_ty] + path[1:]
    if len(path) == 1:
        if path[0] == "None":
            return "none"
        return lean_ident(path[0])
    key = (path[-2], path[-1])
    if key in PATHS:
        return PATHS[key]
    if path[-2] in ENUMS:
        return f"{path[-2]}.{path[-1]}"
    return ".".join(path[-2:])


def lean_ident(n):
    return {"self": "self", "type": "type_", "end": "end_", "at": "at_", "from": "from_"}.get(n, n)


def expr(e, ctx):
    k = e[0]
    if k == "num":
        v = e[1]
        if re.search(r"[.eE]|f32|f64", v) and not re.fullmatch(r"\d+(u32|usize|u8|i32)?", v):
            return f32_rat(v)
        return re.sub(r"(u32|usize|u8|i32|_)", "", v)
    if k == "bool":
        return e[1]
    if k == "unit":
        return "()"
    if k == "paren":
        return "(" + expr(e[1], ctx) + ")"
    if k == "tuple":
        return "(" + ", ".join(expr(x, ctx) for x in e[1]) + ")"
    if k == "path":
        return path_expr(e[1], ctx)
    if k == "field":
        return f"{atom(e[1], ctx)}.{e[2]}"
    if k == "not":
        return f"(!{atom(e[1], ctx)})"
    if k == "neg":
        return f"(-{atom(e[1], ctx)})"
    if k == "as":
        if e[2] in ("f32", "f64"):
            return f"(({atom(e[1], ctx)} : Nat) : Rat)"
        raise Untranslatable(f"cast `as {e[2]}` is outside the supported subset")
    if k == "bin":
        op, a, b = e[1], expr_p(e[2], ctx), expr_p(e[3], ctx)
        if op in ("||", "&&", "+", "-", "*", "/"):
            return f"({a} {op} {b})"
        if op == "|":
            return f"({a} ||| {b})"
        if op == "==":
            return f"({a} == {b})"
        if op == "!=":
            return f"({a} != {b})"
        if op == "<=":
            return f"(rle {a} {b})"
        if op == ">=":
            return f"(rle {b} {a})"
        if op == "<":
            return f"(rlt {a} {b})"
        if op == ">":
            return f"(rlt {b} {a})"
        raise Untranslatable(f"operator `{op}` is outside the supported subset")
    if k == "mcall":
        recv, name, args = e[1], e[2], e[3]
        if name in MUTATING:
            raise Untranslatable(f"`&mut self` method `{name}` used in expression position")
        if is_self_call(e, ctx):
            raise Untranslatable("self-recursive call outside tail position")
        if name == "into":
            return f"(RInto.into {atom(recv, ctx)})"
        if name in ("clone", "to_owned"):
            return expr(recv, ctx)
        name = {"abs": "fabs", "max": "fmax", "min": "fmin", "signum": "fsignum"}.get(name, name)
        name = CALL_RENAME.get(name, name)
        a = " ".join(atom(x, ctx) for x in args)
        return f"({atom(recv, ctx)}.{name}" + (f" {a})" if a else ")")
    if k == "call":
        if e[1] == ["Some"]:
            return f"(some {atom(e[2][0], ctx)})"
        fn = path_expr(e[1], ctx)
        if e[1][-1][0].isupper() and len(e[1]) >= 2 and e[1][-2] in ENUMS or (e[1][0] == "Self" and e[1][-1][0].isupper()):
            pass  # enum constructor application
        a = " ".join(atom(x, ctx) for x in e[2])
        return f"({fn} {a})" if a else f"({fn})"
    if k == "struct" and len(e[1]) >= 2 and e[1][-2] in ENUMS:
        return "(" + path_expr(e[1], ctx) + " " + " ".join(atom(v, ctx) for _, v in e[2]) + ")"
    if k == "struct":
        fs = ", ".join(f"{f} := {expr(v, ctx)}" for f, v in e[2])
        ty = ctx.self_ty if e[1] == ["Self"] else e[1][-1]
        return "({ " + fs + " } : " + ty + ")"
    if k == "if":
        if e[3] is None:
            raise Untranslatable("`if` without `else` in expression position")
        return f"(if {expr(e[1], ctx)} then {pure_block(e[2], ctx)} else {pure_block(e[3], ctx)})"
    if k == "iflet":
        if e[4] is None:
            raise Untranslatable("`if let` without `else` in expression position")
        return f"(match {expr(e[2], ctx)} with | {pat(e[1], ctx)} => {pure_block(e[3], ctx)} | _ => {pure_block(e[4], ctx)})"
    if k == "match":
        arms = " ".join(f"| {pat(p_, ctx)} => {pure_block(b, ctx)}" for p_, b in e[2])
        return f"(match {expr(e[1], ctx)} with {arms})"
    if k == "block":
        return pure_block(e, ctx)
    raise Untranslatable(f"expression kind {k} is outside the supported subset")


def expr_p(e, ctx):
    return expr(e, ctx)


def atom(e, ctx):
    s = expr(e, ctx)
    if re.fullmatch(r"[A-Za-z_][A-Za-z0-9_.']*", s) or (s.startswith("(") and s.endswith(")")):
        return s
    return "(" + s + ")"


def pat(p_, ctx):
    k = p_[0]
    if k == "pwild":
        return "_"
    if k == "pbind":
        return lean_ident(p_[1])
    if k == "plit":
        return p_[1]
    if k == "ptuple":
        return "(" + ", ".join(pat(x, ctx) for x in p_[1]) + ")"
    if k == "pctor":
        path = p_[1]
        if path == ["Some"]:
            return "(some " + pat(p_[2][0], ctx) + ")"
        if path == ["None"]:
            return "none"
        if path[0] == "Self":
            path = [ctx.self_ty] + path[1:]
        key = tuple(path[-2:])
        if key in PATHS:
            head = PATHS[key]
        elif len(path) >= 2 and path[-2] == "ActionEvents":
            head = "EvKind." + path[-1].lower()
        else:
            head = ".".join(path[-2:])
        if p_[2]:
            return "(" + head + " " + " ".join(pat(x, ctx) for x in p_[2]) + ")"
        return head
    raise Untranslatable("pattern outside the supported subset")


def pure_block(e, ctx):
    """a block / expression in expression position: only immutable lets and a tail"""
    if e[0] != "block":
        return expr(e, ctx)
    out = ""
    for s in e[1]:
        if s[0] == "let" and s[1][0] == "pbind":
            out += f"let {lean_ident(s[1][1])} := {expr(s[2], ctx)}; "
        elif s[0] == "let" and s[1][0] == "ptuple":
            out += f"let {pat(s[1], ctx)} := {expr(s[2], ctx)}; "
        else:
            raise Untranslatable("statement with an effect inside an expression-position block")
    if e[2] is None:
        raise Untranslatable("expression-position block without a tail expression")
    return "(" + out + expr(e[2], ctx) + ")"


def lvalue(e, ctx):
    """-> (root variable, [field path])"""
    path = []
    while e[0] == "field":
        path.insert(0, e[2])
        e = e[1]
    if e[0] == "path" and len(e[1]) == 1:
        return lean_ident(e[1][0]), path
    raise Untranslatable("assignment target outside the supported subset")


def set_path(root, path, value):
    """Lean expression for `root` with root.path := value"""
    if not path:
        return value
    inner = set_path(f"{root}.{path[0]}", path[1:], value)
    return "{ " + root + " with " + path[0] + " := " + inner + " }"


def result(ctx, value):
    if getattr(ctx, "loop_result", None) is not None:
        return ctx.loop_result
    if ctx.self_mode == "mut":
        r = "self" if ctx.ret_unit else f"(self, {value})"
    else:
        r = "()" if ctx.ret_unit else value
    return f"some {r}" if ctx.rec is not None else r


def seq(stmts, tail, k, ctx, ind):
    """emit statements then the tail; `k` = list of (stmts, tail) continuations still to run (innermost first).
    Returns Lean text of the function result."""
    pad = "  " * ind
    if not stmts:
        if tail is not None and tail[0] in ("if", "match", "iflet", "block") and \
                (k or tail_has_effects(tail) or (ctx.rec is not None and any_node(tail, lambda x: is_self_call(x, ctx)))):
            return stmt_expr(tail, [], None, k, ctx, ind, as_tail=True)
        if k:
            # the value of this block is discarded (statement position): continue with the continuation
            if tail is not None and not is_unit_like(tail):
                pass
            (s2, t2), rest = k[0], k[1:]
            return seq(s2, t2, rest, ctx, ind)
        if tail is None:
            if not ctx.ret_unit:
                raise Untranslatable("function body ends without a value")
            return result(ctx, "()")
        if is_self_call(tail, ctx):
            return self_call(tail, ctx)
        return result(ctx, expr(tail, ctx))
    s, rest = stmts[0], stmts[1:]
    if s[0] == "let" and s[2][0] == "mcall" and s[2][2] in OBJ_MUTATING and s[2][1][0] == "path" and len(s[2][1][1]) == 1 \
            and s[1][0] == "pbind":
        obj = lean_ident(s[2][1][1][0])
        a = " ".join(atom(x, ctx) for x in s[2][3])
        m = CALL_RENAME.get(s[2][2], s[2][2])
        return f"let ({obj}, {lean_ident(s[1][1])}) := ({obj}.{m} {a})\n{pad}" + seq(rest, tail, k, ctx, ind)
    if s[0] == "let":
        p_, e, mut = s[1], s[2], s[3]
        if p_[0] == "pbind" and (mut or p_[2] if len(p_) > 2 else mut):
            ctx.muts.add(p_[1])
        return f"let {pat(p_, ctx)} := {expr(e, ctx)}\n{pad}" + seq(rest, tail, k, ctx, ind)
    if s[0] == "return":
        if s[1] is None:
            return result(ctx, "()")
        if is_self_call(s[1], ctx):
            return self_call(s[1], ctx)
        return result(ctx, expr(s[1], ctx))
    if s[0] == "assign":
        root, path = lvalue(s[1], ctx)
        if root != "self" and root not in ctx.muts:
            raise Untranslatable(f"assignment to non-`mut` variable `{root}`")
        if root == "self" and ctx.self_mode not in ("mut", "val"):
            raise Untranslatable("assignment through `&self`")
        cur = ".".join([root] + path)
        rhs = expr(s[3], ctx)
        op = s[2]
        if op != "=":
            o = op[:-1]
            if o == "|":
                rhs = f"({cur} || {rhs})"
            elif o == "&":
                rhs = f"({cur} && {rhs})"
            else:
                rhs = f"({cur} {o} {rhs})"
        return f"let {root} := {set_path(root, path, rhs)}\n{pad}" + seq(rest, tail, k, ctx, ind)
    if s[0] == "expr":
        e = s[1]
        if e[0] == "mcall" and e[2] in MUTATING:
            root, path = lvalue(e[1], ctx)
            cur = ".".join([root] + path)
            a = " ".join(atom(x, ctx) for x in e[3])
            new = f"({cur}.{e[2]}" + (f" {a})" if a else ")")
            return f"let {root} := {set_path(root, path, new)}\n{pad}" + seq(rest, tail, k, ctx, ind)
        if e[0] in ("if", "match", "iflet", "block"):
            return stmt_expr(e, rest, tail, k, ctx, ind)
        raise Untranslatable("expression statement without a translatable effect")
    if s[0] == "for":
        raise Untranslatable("loops are outside the supported subset")
    raise Untranslatable(f"statement kind {s[0]}")


def is_unit_like(e):
    return e[0] == "unit"


def tail_has_effects(e):
    def blk(b):
        if b is None:
            return False
        if b[0] != "block":
            return tail_has_effects(b)
        return any(s[0] in ("assign", "return") or (s[0] == "expr") or (s[0] == "let" and s[3]) for s in b[1]) or \
            (b[2] is not None and tail_has_effects(b[2]))
    if e[0] == "if":
        return blk(e[2]) or blk(e[3])
    if e[0] == "iflet":
        return blk(e[3]) or blk(e[4])
    if e[0] == "match":
        return any(blk(b) for _, b in e[1 + 1])
    if e[0] == "block":
        return blk(e)
    return False


def as_block(b):
    if b is None:
        return ("block", [], None)
    if b[0] == "block":
        return b
    return ("block", [], b)


def stmt_expr(e, rest, tail, k, ctx, ind, as_tail=False):
    """an `if` / `match` / block in statement (or effectful tail) position: the continuation is pushed into every branch"""
    pad = "  " * (ind + 1)
    k2 = k if as_tail else [(rest, tail)] + k
    muts0 = set(ctx.muts)

    def branch(b):
        ctx.muts = set(muts0)
        b = as_block(b)
        return seq(b[1], b[2], k2, ctx, ind + 1)
    if e[0] == "block":
        return branch(e)
    if e[0] == "if":
        return (f"if {expr(e[1], ctx)} then\n{pad}{branch(e[2])}\n{'  ' * ind}else\n{pad}{branch(e[3])}")
    if e[0] == "iflet":
        return (f"match {expr(e[2], ctx)} with\n{pad}| {pat(e[1], ctx)} =>\n{pad}  {branch(e[3])}\n"
                f"{pad}| _ =>\n{pad}  {branch(e[4])}")
    if e[0] == "match":
        out = f"match {expr(e[1], ctx)} with"
        for p_, b in e[2]:
            ctx.muts = set(muts0)
            binds = pat_muts(p_)
            ctx.muts |= binds
            bb = as_block(b)
            out += f"\n{pad}| {pat(p_, ctx)} =>\n{pad}  " + seq(bb[1], bb[2], k2, ctx, ind + 2)
        return out
    raise Untranslatable("statement expression")


def pat_muts(p_):
    if p_[0] == "pbind" and len(p_) > 2 and p_[2]:
        return {p_[1]}
    if p_[0] in ("ptuple",):
        return set().union(*[pat_muts(x) for x in p_[1]]) if p_[1] else set()
    if p_[0] == "pctor":
        return set().union(*[pat_muts(x) for x in p_[2]]) if p_[2] else set()
    return set()


def any_node(ast, pred):
    found = [False]

    def walk(x):
        if isinstance(x, tuple):
            if x and isinstance(x[0], str) and pred(x):
                found[0] = True
            for y in x:
                walk(y)
        elif isinstance(x, list):
            for y in x:
                walk(y)
    walk(ast)
    return found[0]


def enum_def(src, name, derive="DecidableEq, Repr"):
    """a field-less `pub enum`"""
    m = re.search(r"pub enum " + name + r"\s*\{", src)
    if not m:
        raise Untranslatable(f"enum {name} not found")
    b = src.index("{", m.end() - 1)
    body = re.sub(r"//[^\n]*|#\[[^\]]*\]", "", src[b + 1:match_brace(src, b)])
    vs = [p.strip() for p in split_top(body) if p.strip()]
    if not all(re.fullmatch(r"\w+", v) for v in vs):
        raise Untranslatable(f"enum {name} has variants with fields")
    ENUMS.add(name)
    TYPES[name] = name
    return f"inductive {name} where\n  | " + " | ".join(vs) + f"\n  deriving {derive}\n", vs


def called_names(ast, self_ty=None):
    """names of the helpers an AST calls: methods on `self`, associated functions of the own type, free functions"""
    out = set()

    def walk(x):
        if isinstance(x, tuple):
            if x and x[0] == "mcall" and x[1] in (("path", ["self"]), ("path", ["Self"])):
                out.add(x[2])
            if x and x[0] == "call" and (len(x[1]) == 1 or x[1][0] in ("Self", self_ty)) and x[1][-1][0].islower():
                out.add(x[1][-1])
            for y in x:
                walk(y)
        elif isinstance(x, list):
            for y in x:
                walk(y)
    walk(ast)
    return out


def fn_ast(src, impl_pat, fn_name):
    sig, body = find_fn(src, impl_pat, fn_name)
    return P(lex(body)).block()


def translate_fn(src, impl_pat, self_ty, fn_name, lean_name=None, drop_params=(), body_filter=None, getter_of=None):
    sig, body = find_fn(src, impl_pat, fn_name)
    self_mode, params, ret = parse_sig(sig)
    ast = P(lex(body)).block()
    if getter_of is not None:
        # a getter named like the field it returns: Lean's projection *is* the getter, provided the body still is `self.<field>`
        if ast[1] or ast[2] != ("field", ("path", ["self"]), getter_of) or params or self_mode not in ("ref", "val"):
            raise Untranslatable(f"{self_ty}::{fn_name} is no longer the plain getter of field `{getter_of}`")
        return f"-- `{self_ty}::{fn_name}` is the getter of field `{getter_of}` (checked): Lean's projection stands for it\n", (self_mode, False)
    if body_filter:
        ast = body_filter(ast)
    ret_unit = ret is None
    ctx = Ctx(self_ty, self_mode, ret_unit, [])
    binders = []
    kept = set()
    if self_mode:
        binders.append(f"(self : {self_ty})")
    for i, (n, t) in enumerate(params):
        if n in drop_params or (n.startswith("_") and " ".join(t.split()) in ("&ActionsData", "&Time<Virtual>")):
            continue
        kept.add(i)
        binders.append(f"({lean_ident(n)} : {lean_type(t, self_ty)})")
    recursive = self_mode is not None and any_node(ast, lambda x: x[0] == "mcall" and x[1] == ("path", ["self"]) and x[2] == fn_name)
    if recursive:
        # self-recursion (the built-in modifiers turn `Bool` into `Axis1D` and call themselves): the Lean function takes fuel and
        # returns `Option`; the bridge theorem shows that fuel 2 suffices for every input
        ctx.rec = (fn_name, f"{self_ty}.{lean_name or fn_name}F", kept)
    if ret_unit:
        rty = self_ty if self_mode == "mut" else "Unit"
    else:
        rt = lean_type(ret, self_ty)
        rty = f"{self_ty} × {rt}" if self_mode == "mut" else rt
    text = seq(ast[1], ast[2], [], ctx, 1)
    name = lean_name or fn_name
    full = f"{self_ty}.{name}" if self_ty else name
    if recursive:
        tys = [re.match(r"\((\S+) : (.*)\)$", b).groups() for b in binders]
        sig_t = " → ".join(t for _, t in tys)
        names = ", ".join(n for n, _ in tys)
        wild = ", ".join("_" for _ in tys)
        return (f"def {full}F : Nat → {sig_t} → Option ({rty})\n  | 0, {wild} => none\n  | fuel + 1, {names} =>\n  {text}\n",
                (self_mode, ret_unit))
    return f"def {full} {' '.join(binders)} : {rty} :=\n  {text}\n", (self_mode, ret_unit)


def translate_free_fn(src, fn_name):
    return translate_fn(src, None, "", fn_name)


def struct_def(src, name, derive="DecidableEq, Repr"):
    fields = parse_struct(src, name)
    out = f"structure {name} where\n"
    for n, t in fields:
        out += f"  {n} : {lean_type(t, name)}\n"
    if derive:
        out += f"  deriving {derive}\n"
    TYPES[name] = name
    return out, fields
