#!/usr/bin/env python3
"""Regenerates lean/BEI/Gen/Code/<Unit>.lean from /repo/src with tools/rs2lean.py and reports, per unit, whether the
source text was translated.  A unit that is not translatable (text outside the supported subset) gets a stub module and
status `untranslated: <reason>`; its bridge theorems are then not obligations of the run and the unit is tied to the model
by the correspondence alone (as before).  Usage: codegen.py [--json]   (always rewrites the Gen/Code files)"""
import json, os, re, sys
sys.path.insert(0, os.path.dirname(os.path.abspath(__file__)))
import rs2lean as R
from rs2lean import Untranslatable

ROOT = os.path.dirname(os.path.dirname(os.path.abspath(__file__)))
OUT = os.path.join(ROOT, "lean", "BEI", "Gen", "Code")
COND = "src/input_context/input_condition/"
MODF = "src/input_context/input_modifier/"


def read(rel):
    try:
        return R.strip_tests(open(os.path.join(R.REPO, rel)).read())
    except OSError as e:
        raise Untranslatable(f"cannot read {rel}: {e}")


def check_enum(src, name, variants):
    m = re.search(r"pub enum " + name + r"\s*\{", src)
    if not m:
        raise Untranslatable(f"enum {name} not found")
    b = src.index("{", m.end() - 1)
    body = re.sub(r"//[^\n]*|#\[[^\]]*\]", "", src[b + 1:R.match_brace(src, b)])
    got = [re.match(r"\s*(\w+)", p).group(1) for p in R.split_top(body) if p.strip()]
    if got != variants:
        raise Untranslatable(f"enum {name}: variants {got} differ from the prelude's {variants}")


def translate_impl(src, impl_pats, self_ty, fns, getters=(), free_ok=True):
    """translate `fns` of type `self_ty` (searched in the impl blocks `impl_pats`, in order) together with every helper they call
    that is defined in the same file (another method of the type, or a free function): an extracted helper is part of the
    translated text, not a reason to give up.  Helpers come first (Lean wants definitions before uses)."""
    done, order, texts = set(), [], {}

    def locate(name):
        for ip in impl_pats:
            try:
                R.find_fn(src, ip, name)
                return ip
            except Untranslatable:
                pass
        if free_ok and re.search(r"^(?:pub(?:\([a-z]+\))?\s+)?fn\s+" + re.escape(name) + r"\b", src, flags=re.M):
            return None
        raise KeyError(name)

    def visit(name, required):
        if name in done:
            return
        try:
            ip = locate(name)
        except KeyError:
            if required:
                raise Untranslatable(f"fn {name} not found")
            return
        done.add(name)
        ast = R.fn_ast(src, ip, name)
        for callee in sorted(R.called_names(ast, self_ty)):
            if callee != name:
                visit(callee, False)
        if ip is None:
            d, info = R.translate_free_fn(src, name)
        else:
            d, info = R.translate_fn(src, ip, self_ty, name, getter_of=(name if name in getters else None))
        texts[name] = d
        order.append((name, info))
        if info == ("mut", True) and name not in fns:
            R.MUTATING.add(name)    # a helper `fn h(&mut self, ..)`: `self.h(..);` is a statement that rebinds `self`

    for f in fns:
        visit(f, True)
    return "\n".join(texts[n] for n, _ in order) + "\n", dict(order)


# ---------------------------------------------------------------------------------------------- units
def unit_value():
    src = read("src/action_value.rs")
    check_enum(src, "ActionValue", ["Bool", "Axis1D", "Axis2D", "Axis3D"])
    check_enum(src, "ActionValueDim", ["Bool", "Axis1D", "Axis2D", "Axis3D"])
    out, _ = translate_impl(src, [r"impl ActionValue\s*\{"], "ActionValue",
                            ["dim", "zero", "as_bool", "as_axis1d", "as_axis2d", "as_axis3d", "convert", "is_actuated"])
    return out


def unit_events():
    src = read("src/input_context/events.rs")
    d, _ = translate_impl(src, [r"impl ActionEvents\s*\{"], "ActionEvents", ["new"])
    return d


def unit_timer():
    src = read(COND + "condition_timer.rs")
    sd, _ = R.struct_def(src, "ConditionTimer", "DecidableEq, Repr, Inhabited")
    R.MUTATING.update({"update", "reset"})
    d, info = translate_impl(src, [r"impl ConditionTimer\s*\{"], "ConditionTimer", ["update", "reset", "duration"],
                             getters=("duration",))
    for fn in ("update", "reset"):
        if info[fn] != ("mut", True):
            raise Untranslatable(f"ConditionTimer::{fn} is no longer `&mut self -> ()`")
    return sd + "\n" + d


def unit_conditions():
    out = ""
    for file, ty in [("press", "Press"), ("just_press", "JustPress"), ("release", "Release"), ("hold", "Hold"),
                     ("hold_and_release", "HoldAndRelease"), ("tap", "Tap"), ("pulse", "Pulse")]:
        src = read(COND + file + ".rs")
        sd, _ = R.struct_def(src, ty)
        d, _ = translate_impl(src, [r"impl InputCondition for " + ty + r"\s*\{", r"impl " + ty + r"\s*\{"], ty, ["evaluate"])
        out += sd + "\n" + d + "\n"
    return out


def unit_tracker():
    src = read("src/input_context/context_instance/trigger_tracker.rs")
    ck = read("src/input_context/input_condition.rs")
    check_enum(ck, "ConditionKind", ["Explicit", "Implicit", "Blocker"])
    sd, fields = R.struct_def(src, "TriggerTracker")
    impl = r"impl TriggerTracker\s*\{"
    d, _ = translate_impl(src, [impl], "TriggerTracker", ["new", "state", "value", "events_blocked", "overwrite"],
                          getters=("value", "events_blocked"))
    out = sd + "\n" + d

    # the flag update of `apply_conditions`: the `match condition.kind()` inside its `for` loop, as a function of
    # (self, state, kind).  The loop itself (every condition evaluated, in order, no early out) is C12's and is
    # tied to the model by the invocation log of the correspondence.
    def subst_kind(x):
        """`condition.kind()` -> the parameter `kind`"""
        if isinstance(x, tuple):
            if x == ("mcall", ("path", ["condition"]), "kind", []):
                return ("path", ["kind"])
            return tuple(subst_kind(y) for y in x)
        if isinstance(x, list):
            return [subst_kind(y) for y in x]
        return x

    def note_filter(ast):
        fors = [s for s in ast[1] if s[0] == "for"]
        if len(fors) != 1 or ast[2] is not None or any(s[0] not in ("for",) for s in ast[1]):
            raise Untranslatable("apply_conditions: expected exactly one `for` loop and nothing else")
        pat, it, body = fors[0][1], fors[0][2], fors[0][3]
        if pat != ("pbind", "condition", False):
            raise Untranslatable("apply_conditions: loop variable is not `condition`")
        stmts = list(body[1]) + ([("expr", body[2])] if body[2] is not None else [])
        if not stmts or stmts[0][0] != "let" or stmts[0][1][:2] != ("pbind", "state") or \
                stmts[0][2][0] != "mcall" or stmts[0][2][2] != "evaluate":
            raise Untranslatable("apply_conditions: loop body does not start with `let state = condition.evaluate(..)`")
        rest = subst_kind(stmts[1:])
        if not rest:
            raise Untranslatable("apply_conditions: nothing follows the evaluation")
        # what follows the evaluation — usually `match condition.kind() {..}`, possibly a call of a helper — is the flag update, a
        # function of (self, state, kind); it may mention the loop variable only through `condition.kind()`
        if R.any_node(rest, lambda x: x == ("path", ["condition"])):
            raise Untranslatable("apply_conditions: the flag update uses the condition beyond `condition.kind()`")
        return ("block", rest, None)

    sig, body = R.find_fn(src, impl, "apply_conditions")
    raw_ast = R.P(R.lex(body)).block()
    helpers = sorted(n for n in R.called_names(raw_ast, "TriggerTracker") if n not in ("new", "state", "value", "events_blocked", "overwrite"))
    if helpers:
        dh, hinfo = translate_impl(src, [impl], "TriggerTracker", helpers)
        out += dh
        for h in helpers:
            if hinfo.get(h) == ("mut", True):
                R.MUTATING.add(h)
    ast = note_filter(raw_ast)
    ctx = R.Ctx("TriggerTracker", "mut", True, [])
    text = R.seq(ast[1], ast[2], [], ctx, 1)
    out += ("def TriggerTracker.note (self : TriggerTracker) (state : AState) (kind : ConditionKind) : TriggerTracker :=\n  "
            + text + "\n\n")

    # `combine`: the accumulated vector (a `for` loop over `iter_mut().zip(..)` for MaxAbs) is taken as a parameter; what is
    # translated is everything after it: the conversion to the own dimension and the seven flag merges.
    def combine_filter(ast):
        st = ast[1]
        if not st or st[0][0] != "let" or st[0][1][:2] != ("pbind", "accumulated"):
            raise Untranslatable("combine: does not start with `let accumulated = ..`")
        return ("block", st[1:], ast[2])
    sig, body = R.find_fn(src, impl, "combine")
    ast = combine_filter(R.P(R.lex(body)).block())
    ctx = R.Ctx("TriggerTracker", "mut", True, [])
    text = R.seq(ast[1], ast[2], [], ctx, 1)
    out += ("def TriggerTracker.combine_with (self : TriggerTracker) (other : TriggerTracker) (accumulated : Vec3) : TriggerTracker :=\n  "
            + text + "\n")
    return out


def obj_loop(src, impl, fn, elem, elem_ty, coll):
    """`fn(&mut self, actions, time, coll: &mut [Box<dyn Trait>])` whose body is exactly one `for elem in coll { .. }` over trait
    objects: translated to a left fold that threads `self` and rebuilds the list of (updated) objects, in order, each exactly once"""
    sig, body = R.find_fn(src, impl, fn)
    mode, params, ret = R.parse_sig(sig)
    if mode != "mut" or ret is not None or [p[0] for p in params] != ["actions", "time", coll]:
        raise Untranslatable(f"{fn}: signature is no longer (&mut self, actions, time, {coll})")
    ast = R.P(R.lex(body)).block()
    stmts = [s for s in ast[1]]
    if len(stmts) != 1 or stmts[0][0] != "for" or ast[2] is not None:
        raise Untranslatable(f"{fn}: the body is not a single `for` loop")
    _, pat, it, lb = stmts[0]
    if pat != ("pbind", elem, False) or it not in (("path", [coll]), ("mcall", ("path", [coll]), "iter_mut", [])):
        raise Untranslatable(f"{fn}: the loop is not `for {elem} in {coll}`")
    if R.any_node(lb, lambda x: x[0] in ("return",) or (x[0] == "path" and x[1] in (["continue"], ["break"]))):
        raise Untranslatable(f"{fn}: early exit inside the loop")
    ctx = R.Ctx("TriggerTracker", "mut", True, [])
    ctx.loop_result = f"(self, acc.2 ++ [{elem}])"
    text = R.seq(lb[1], lb[2], [], ctx, 3)
    text = R.seq(lb[1], lb[2], [], ctx, 2)
    return (f"/-- one iteration of the loop of `{fn}` -/\n"
            f"def TriggerTracker.{fn}_step (actions : ActionsView) (time : Tick) (acc : TriggerTracker × List {elem_ty}) ({elem} : {elem_ty}) : "
            f"TriggerTracker × List {elem_ty} :=\n  let self := acc.1\n  " + text + "\n\n"
            f"def TriggerTracker.{fn} (self : TriggerTracker) (actions : ActionsView) (time : Tick) ({coll} : List {elem_ty}) : "
            f"TriggerTracker × List {elem_ty} :=\n  {coll}.foldl (TriggerTracker.{fn}_step actions time) (self, [])\n")


def unit_loops():
    """`apply_modifiers` / `apply_conditions` as loops over trait objects (the model's `Mod` / `Cond` machines stand for
    `Box<dyn InputModifier>` / `Box<dyn InputCondition>`): every object is invoked exactly once, in order, with no early out, on
    the value as it stands, and the flag update of each condition result is the translated `match condition.kind()`."""
    src = read("src/input_context/context_instance/trigger_tracker.rs")
    impl = r"impl TriggerTracker\s*\{"
    R.CALL_RENAME.update({"evaluate": "evaluate_obj", "kind": "kind_obj", "apply": "apply_obj"})
    R.OBJ_MUTATING.update({"evaluate", "apply"})
    try:
        out = obj_loop(src, impl, "apply_modifiers", "modifier", "Mod", "modifiers") + "\n"
        out += obj_loop(src, impl, "apply_conditions", "condition", "Cond", "conditions")
    finally:
        for k_ in ("evaluate", "kind", "apply"):
            R.CALL_RENAME.pop(k_, None)
        R.OBJ_MUTATING.difference_update({"evaluate", "apply"})
    return out


def unit_merge():
    """the merge step of `ActionBind::update`: the `match current_state.cmp(&tracker_state) { Less / Equal / Greater }` inside its
    `for binding` loop, as a function of the loop's variables (the loop itself, the reader and the trait-object calls are tied by the
    correspondence).  `tracker.combine(..)` refers to the translated flag / conversion part of `combine` applied to the modelled
    accumulated vector (`TriggerTracker.combine` in BEI/Model/RsMerge.lean)."""
    src = read("src/input_context/context_instance.rs")
    sig, body = R.find_fn(src, r"impl ActionBind\s*\{", "update")
    ast = R.P(R.lex(body)).block()
    fors = [s for s in ast[1] if s[0] == "for"]
    if len(fors) != 1 or fors[0][1] != ("pbind", "binding", False):
        raise Untranslatable("ActionBind::update: expected exactly one `for binding in ..` loop")
    lb = fors[0][3]
    stmts = list(lb[1]) + ([("expr", lb[2])] if lb[2] is not None else [])
    ms = [s for s in stmts if s[0] == "expr" and s[1][0] == "match" and s[1][1][0] == "mcall" and s[1][1][2] == "cmp"]
    if len(ms) != 1 or stmts[-1] is not ms[0]:
        raise Untranslatable("ActionBind::update: the loop body does not end with `match current_state.cmp(&tracker_state) {..}`")
    m = ms[0][1]
    if m[1] != ("mcall", ("path", ["current_state"]), "cmp", [("path", ["tracker_state"])]):
        raise Untranslatable("ActionBind::update: the match is not on `current_state.cmp(&tracker_state)`")
    # what must precede the match for the fragment to mean what the bridge says: the `None` skip
    R.MUTATING.update({"combine", "overwrite", "push", "clear"})
    ctx = R.Ctx("ActionBindM", "mut", False, ["tracker", "tracker_state"])
    text = R.seq([("expr", m)], ("tuple", [("path", ["tracker"]), ("path", ["tracker_state"])]), [], ctx, 1)
    R.MUTATING.difference_update({"combine", "overwrite", "push", "clear"})
    return ("def ActionBindM.merge_step (self : ActionBindM) (tracker : TriggerTracker) (tracker_state : AState) "
            "(current_tracker : TriggerTracker) (current_state : AState) (binding : BindingRef) : "
            "ActionBindM × (TriggerTracker × AState) :=\n  " + text + "\n")


def unit_actiondata():
    src = read("src/input_context/context_instance.rs")
    sd, fields = R.struct_def(src, "ActionData", None)
    d, _ = translate_impl(src, [r"impl ActionData\s*\{"], "ActionData", ["update"], free_ok=False)
    return sd + "\n" + d


def unit_modifiers():
    out = ""
    for file, ty in [("negate", "Negate"), ("dead_zone", "DeadZone"), ("delta_lerp", "DeltaLerp")]:
        src = read(MODF + file + ".rs")
        if ty == "DeadZone":
            ed, _ = R.enum_def(src, "DeadZoneKind")
            out += ed + "\n"
        sd, _ = R.struct_def(src, ty)
        d, _ = translate_impl(src, [r"impl InputModifier for " + ty + r"\s*\{", r"impl " + ty + r"\s*\{"], ty, ["apply"])
        out += sd + "\n" + d + "\n"
    src = read(MODF + "swizzle_axis.rs")
    ed, _ = R.enum_def(src, "SwizzleAxis")
    d, _ = translate_impl(src, [r"impl InputModifier for SwizzleAxis\s*\{", r"impl SwizzleAxis\s*\{"], "SwizzleAxis", ["apply"])
    out += ed + "\n" + d + "\n"
    src = read(MODF + "scale.rs")
    sd, _ = R.struct_def(src, "Scale")
    d, _ = translate_impl(src, [r"impl InputModifier for Scale\s*\{", r"impl Scale\s*\{"], "Scale", ["apply"])
    out += sd + "\n" + d + "\n"
    src = read(MODF + "delta_scale.rs")
    d, _ = translate_impl(src, [r"impl InputModifier for DeltaScale\s*\{", r"impl DeltaScale\s*\{"], "DeltaScale", ["apply"])
    out += "structure DeltaScale where\n  deriving DecidableEq, Repr\n\n" + d + "\n"
    return out


def unit_refs():
    out = ""
    for file, ty, trait, fns in [("input_condition/chord.rs", "Chord", "InputCondition", ["evaluate", "kind"]),
                                 ("input_condition/block_by.rs", "BlockBy", "InputCondition", ["evaluate", "kind"]),
                                 ("input_modifier/accumulate_by.rs", "AccumulateBy", "InputModifier", ["apply"])]:
        src = read("src/input_context/" + file)
        sd, _ = R.struct_def(src, ty)
        d, _ = translate_impl(src, [r"impl<A: InputAction> " + trait + r" for " + ty + r"<A>\s*\{", r"impl<A: InputAction> " + ty + r"<A>\s*\{"],
                              ty, fns)
        out += sd + "\n" + d + "\n"
    return out


UNITS = [
    # name, generator, units it depends on, properties whose theorems its bridge re-checks
    ("Value", unit_value, [], ["C20", "C03", "C04"]),
    ("Events", unit_events, [], ["C01", "C02"]),
    ("Timer", unit_timer, [], ["C11"]),
    ("Conditions", unit_conditions, ["Value", "Timer"], ["C11"]),
    ("Tracker", unit_tracker, ["Value"], ["C03", "C04"]),
    ("ActionData", unit_actiondata, ["Value", "Events"], ["C10", "C01"]),
    ("Merge", unit_merge, ["Value", "Tracker"], ["C04", "C05"]),
    ("Loops", unit_loops, ["Value", "Tracker"], ["C03", "C12"]),
    ("Modifiers", unit_modifiers, ["Value"], ["C18"]),
    ("Refs", unit_refs, ["Value"], ["C13", "C18"]),
]

HEADER = """/- GENERATED by /verif/tools/codegen.py (translator: tools/rs2lean.py) from /repo/src on every run. Do not edit. -/
{imports}
namespace BEI.Rs
{body}
end BEI.Rs
"""


def main():
    os.makedirs(OUT, exist_ok=True)
    status = {}
    for name, gen, deps, props in UNITS:
        imports = "import BEI.Model.Rs\n" + "".join(f"import BEI.Gen.Code.{d}\n" for d in deps)
        if name == "Merge":
            imports += "import BEI.Model.RsMerge\n"
        if name == "Loops":
            imports += "import BEI.Model.RsLoops\n"
        bad = [d for d in deps if status[d]["status"] != "translated"]
        try:
            if bad:
                raise Untranslatable("depends on untranslated unit " + ", ".join(bad))
            body = gen()
            body = re.sub(r"^def ", f"@[rs_{name.lower()}] def ", body, flags=re.M)
            st = {"status": "translated"}
        except Untranslatable as e:
            body = f"-- untranslated: {e}\n"
            imports = "import BEI.Model.Rs\n"
            st = {"status": "untranslated", "reason": str(e)}
        except Exception as e:  # a crash of the translator is an untranslatable text, not a verdict
            body = f"-- untranslated: translator error {type(e).__name__}: {e}\n"
            imports = "import BEI.Model.Rs\n"
            st = {"status": "untranslated", "reason": f"translator error {type(e).__name__}: {e}"}
        st["properties"] = props
        st["deps"] = deps
        status[name] = st
        text = HEADER.format(imports=imports, body=body)
        path = os.path.join(OUT, name + ".lean")
        old = open(path).read() if os.path.exists(path) else None
        if old != text:
            open(path, "w").write(text)
    json.dump(status, open(os.path.join(OUT, "status.json"), "w"), indent=1)
    if "--json" in sys.argv:
        print(json.dumps(status))
    else:
        for n, st in status.items():
            print(n, st["status"], st.get("reason", ""))
    return status


if __name__ == "__main__":
    main()
