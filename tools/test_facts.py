#!/usr/bin/env python3
"""Self-test of the property-relative comparator (tools/facts.py) on synthetic perturbations of a real model trace:
`python3 tools/test_facts.py` prints one line per case and exits 1 if a verdict is not the expected one."""
import os, subprocess, sys
HERE = os.path.dirname(os.path.abspath(__file__))
sys.path.insert(0, HERE)
import facts

SC = """scenario t
ctx 0 0 any
act 5
acond 1 sscript 0 0 2 2 1 0
acond 2 sscript 3 2 2 0 2 2
in key 0 0
imod 3 sadd 0 0 0 0
act 6
in key 1 0
imod 4 sadd 0 0 0 0
icond 5 sscript 0 2 2 0 0 0
spawn 0
insert 0 0 0
frame
key 0 1
frame
key 1 1
frame
frame
key 0 0
frame
remove 0 0
frame
endscenario""".split("\n")


def model_trace():
    p = "/tmp/test_facts_batch.txt"
    open(p, "w").write("\n".join(SC) + "\n")
    out = subprocess.run([os.path.join(HERE, "..", "lean", ".lake", "build", "bin", "bei_driver"), p], capture_output=True, text=True).stdout
    os.remove(p)
    return [l for l in out.splitlines() if l not in ("scenario t", "endscenario")]


def first(tr, pred):
    return next(i for i, l in enumerate(tr) if pred(l))


def main():
    tm = model_trace()
    cases = []

    def case(name, edit, expect):
        ti = list(tm)
        edit(ti)
        cases.append((name, ti, expect))

    # a delivery disappears: C01 / C02 / C14 output; invisible to C03, C10 (durations of the remaining lines agree), C12
    def drop_dlv(ti):
        del ti[first(ti, lambda l: l.startswith("dlv ") and " fired " in l)]
    case("drop a `fired` delivery", drop_dlv, {"C01": "out", "C02": "out", "C14": "out", "C03": "same", "C12": "same", "C05": "same"})

    # a polled state changes: upstream of C01 / C02 / C10, output of C03 / C07 / C09 / C14
    def flip_state(ti):
        i = first(ti, lambda l: l.startswith("poll ") and l.split()[4] == "fired")
        t = ti[i].split(" "); t[4] = "ongoing"; ti[i] = " ".join(t)
    case("polled state fired -> ongoing", flip_state, {"C01": "up", "C10": "up", "C03": "out", "C07": "out", "C12": "same", "C15": "same"})

    # polled durations change: output of C10 only
    def bump_duration(ti):
        i = first(ti, lambda l: l.startswith("poll ") and l.split()[7] != "0")
        t = ti[i].split(" "); t[7] = "7"; ti[i] = " ".join(t)
    case("polled elapsed changes", bump_duration, {"C10": "out", "C07": "out", "C01": "out", "C03": "same", "C05": "same", "C12": "same"})

    # the value a binding reads changes: output of the reader properties, upstream of C03 / C04
    def raw_read(ti):
        i = first(ti, lambda l: l.startswith("inv 3 b1"))
        ti[i] = ti[i].replace("inv 3 b1", "inv 3 b0", 1)
    case("raw reading of a binding changes", raw_read, {"C05": "out", "C08": "out", "C15": "out", "C16": "out", "C03": "up", "C04": "up", "C12": "same", "C06": "same"})

    # a machine is not invoked: output of C12 / C13 / C08 (input level), upstream of C03
    def skip_inv(ti):
        del ti[first(ti, lambda l: l.startswith("inv 5 "))]
    case("an input-level condition is not invoked", skip_inv, {"C12": "out", "C08": "out", "C13": "out", "C03": "up", "C06": "same", "C15": "same"})

    # the registry order changes: C06 only
    def groups(ti):
        i = first(ti, lambda l: l.startswith("groups 0:0"))
        ti[i] = "groups 1:0;0:0"
    case("registry order changes", groups, {"C06": "out", "C07": "out", "C01": "same", "C05": "same", "C12": "same"})

    bad = 0
    for name, ti, expect in cases:
        for prop, want in sorted(expect.items()):
            got, d = facts.compare(prop, SC, ti, tm)
            flag = "ok " if got == want else "BAD"
            if got != want:
                bad += 1
            print(f"{flag} {name:45s} {prop}: {got} (expected {want})")
    return 1 if bad else 0


if __name__ == "__main__":
    sys.exit(main())
