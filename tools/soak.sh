#!/bin/sh
# usage: tools/soak.sh <first-seed> <last-seed> [props...]  — runs the quick checks over a seed range (no rebuild), prints failures
export VERIF_EVIDENCE_DIR=/verif/work/evidence-scratch   # keep the committed evidence (unchanged tree, seed 1) intact
first=$1; last=$2; shift 2
props="${@:-C01 C02 C03 C04 C05 C06 C07 C08 C09 C10 C11 C12 C13 C14 C15 C16 C17 C18 C19 C20}"
cd /verif
for p in $props; do
  ( for s in $(seq $first $last); do
      out=$(./check $p --skip-build --seed $s 2>&1 | tail -1)
      case "$out" in *holds*) ;; *) echo "FAIL $p seed=$s: $out"; cp -r work/replays/$p work/soakfail-$p-$s 2>/dev/null;; esac
    done; echo "done $p" ) &
  # at most 4 properties at a time
  sleep 0
done
wait
