"""Scenario generators (PROTOCOL.md).  Every random choice derives from one `random.Random(seed)`.

Exactness discipline (DESIGN.md §2 "Numbers"): all numeric parameters are small dyadic rationals, frame deltas
are k/64 s with the odd part of k at most 7, relative speeds are powers of two, so every f32 operation the crate
performs is exact and traces can be compared byte for byte against the rational model.
"""
from fractions import Fraction as Fr
import os, random

def q(x):
    x = Fr(x)
    return str(x.numerator) if x.denominator == 1 else f"{x.numerator}/{x.denominator}"

DT_GRID = [Fr(k, 64) for k in (0, 1, 1, 1, 2, 2, 3, 4, 5, 6, 7, 8, 10, 12, 14, 16, 20, 32)]
SPEEDS = [Fr(0), Fr(1, 4), Fr(1, 2), Fr(1), Fr(1), Fr(1), Fr(2), Fr(4)]
ACTUATIONS = [Fr(1, 4), Fr(1, 2), Fr(1, 2), Fr(1, 2), Fr(1), Fr(2)]
TIMES = [Fr(1, 64), Fr(1, 32), Fr(3, 64), Fr(1, 16), Fr(1, 8), Fr(1, 4)]
FACTORS = [Fr(-2), Fr(-1), Fr(-1, 2), Fr(0), Fr(1, 2), Fr(1), Fr(2), Fr(3)]
DZ = [(Fr(0), Fr(1)), (Fr(1, 4), Fr(3, 4)), (Fr(1, 2), Fr(1)), (Fr(1, 4), Fr(5, 4)), (Fr(1, 8), Fr(5, 8))]
AXIS_VALS = [Fr(k, 8) for k in range(-8, 9)]
MOUSE_VALS = [Fr(k, 4) for k in range(-8, 9)]

CTX_SHARED = {0: False, 1: True, 2: False, 3: True, 4: False, 5: True}
CTX_PRIO = {0: 9, 1: 5, 2: 2, 3: 0, 4: -3, 5: -7}

def act_dim(a): return a % 4
def act_consume(a): return (a // 4) % 2 == 0
def act_accum(a): return "cumulative" if (a // 8) % 2 == 0 else "maxabs"


class Profile:
    """knobs of the app-scenario generator"""
    def __init__(self, **kw):
        self.n_ctx = (1, 3)            # number of context types used
        self.n_variants = (1, 2)
        self.n_actions = (1, 4)
        self.n_inputs = (0, 3)
        self.n_imods = (0, 2)
        self.n_iconds = (0, 2)
        self.n_amods = (0, 1)
        self.n_aconds = (0, 2)
        self.n_entities = (1, 3)
        self.n_frames = (8, 24)
        self.keys = [0, 1, 2, 3]
        self.modmask_p = 0.25          # probability that a key/mouse binding requires modifier keys
        self.input_kinds = ["key"] * 6 + ["mbtn"] * 2 + ["motion", "wheel", "padbtn", "padbtn", "padaxis", "padaxis"]
        self.cond_kinds = ["press", "justpress", "release", "hold", "holdrel", "tap", "pulse", "chord", "blockby",
                           "sscript", "sscript", "sact"]
        self.mod_kinds = ["negate", "scale", "swizzle", "dzaxial", "dscale", "accby", "sconv", "sadd"]
        self.lifecycle_p = 0.08        # per-frame probability of a lifecycle op between frames
        self.react_p = 0.0             # probability that a scenario has observer reactions
        self.reactev_p = 1.0           # … keyed by an event rather than by the delivery index
        self.post_p = 0.0              # per-frame probability of an op via commands (Update system)
        self.time_p = 0.15             # per-frame probability of a dt/speed/pause change
        self.ui_p = 0.0                # per-frame probability of a UI interaction change
        self.pads = (0, 2)             # number of gamepads
        self.pad_ctx_p = 0.3           # probability that a context is tied to one gamepad
        self.padbtn_pool = [0, 1, 4]   # gamepad buttons plain bindings draw from
        self.padaxis_pool = [0, 1]     # gamepad axes plain bindings draw from
        self.toggle_p = 0.35           # per-frame, per-input probability of a change
        self.held_at_insert_p = 0.0    # probability of pressing inputs before the insertion (C08)
        self.noise_keys = []           # unbound keys toggled randomly
        self.rebind_p = 0.15           # probability of binding an action twice (extends in place)
        self.inject_events_p = 0.3
        self.actions = list(range(32))
        self.ctx_pool = list(range(6))
        self.first_frame_hold = 0.0
        self.route_p = 0.0             # probability that an act block uses a non-default construction route
        self.each_p = 0.0              # probability of emod / econd lines in a block
        self.preset_p = 0.0            # probability that an item is a preset
        self.rich_field_p = 0.3        # probability that a preset field is not a plain key (see PROTOCOL §3.1)
        self.inject_first_p = 0.0
        self.mask_choices = [1, 2, 4, 8, 3, 6, 2, 2, 1]
        self.mbtns = [0, 1]
        self.script_kinds = [0, 0, 1, 2, 3]   # condition kinds of the scripted conditions (0 explicit 1 implicit 2 blocker 3 events-only)
        self.distinct_actions = True   # context types of one scenario bind disjoint sets of actions (when the pool allows)
        self.log_raw_p = 0.0           # probability that an input gets a logging identity modifier first
        for k, v in kw.items():
            if not hasattr(self, k):
                raise KeyError(k)
            setattr(self, k, v)


class AppGen:
    def __init__(self, rng: random.Random, prof: Profile):
        self.r = rng
        self.p = prof
        self.next_id = 1

    def ri(self, lo_hi):
        return self.r.randint(lo_hi[0], lo_hi[1])

    # ---- specs
    def input_spec(self, pads_used):
        r = self.r
        kind = r.choice(self.p.input_kinds)
        if kind in ("padbtn", "padaxis") and not pads_used:
            kind = "key"
        mask = 0
        if kind in ("key", "mbtn", "motion", "wheel") and r.random() < self.p.modmask_p:
            mask = r.choice(self.p.mask_choices)
        if kind == "key":
            return f"key {r.choice(self.p.keys)} {mask}"
        if kind == "mbtn":
            return f"mbtn {r.choice(self.p.mbtns)} {mask}"
        if kind == "motion":
            return f"motion {mask}"
        if kind == "wheel":
            return f"wheel {mask}"
        if kind == "padbtn":
            return f"padbtn {r.choice(self.p.padbtn_pool)}"
        return f"padaxis {r.choice(self.p.padaxis_pool)}"

    def cond_spec(self, ctx_actions):
        r = self.r
        k = r.choice(self.p.cond_kinds)
        a = q(r.choice(ACTUATIONS))
        rel = r.choice([0, 0, 1])
        if k in ("press", "justpress", "release"):
            return f"{k} {a}"
        if k == "hold":
            return f"hold {q(r.choice(TIMES))} {r.choice([0, 1])} {a} {rel}"
        if k == "holdrel":
            return f"holdrel {q(r.choice(TIMES))} {a} {rel}"
        if k == "tap":
            return f"tap {q(r.choice(TIMES))} {a} {rel}"
        if k == "pulse":
            return f"pulse {q(r.choice(TIMES))} {r.choice([0, 0, 1, 2, 3])} {r.choice([0, 1])} {a} {rel}"
        if k == "chord":
            return f"chord {self.ref_action(ctx_actions)}"
        if k == "blockby":
            return f"blockby {self.ref_action(ctx_actions)} {r.choice([0, 1])}"
        if k == "sscript":
            kind = r.choice(self.p.script_kinds)
            n = r.randint(1, 6)
            if kind >= 2:
                rs = [r.choice([0, 2, 2, 2]) for _ in range(n)]
            else:
                rs = [r.choice([0, 1, 2]) for _ in range(n)]
            return f"sscript {kind} " + " ".join(map(str, rs))
        if k == "sact":
            kind = r.choice(self.p.script_kinds)
            return f"sact {kind} {r.choice([1, 2, 2])} {r.choice([0, 0, 1])}"
        raise KeyError(k)

    def ref_action(self, ctx_actions):
        r = self.r
        if ctx_actions and r.random() < 0.85:
            return r.choice(ctx_actions)
        return r.choice(self.p.actions)   # possibly absent from the context

    def mod_spec(self, ctx_actions):
        r = self.r
        k = r.choice(self.p.mod_kinds)
        if k == "negate":
            return f"negate {r.choice([0, 1])} {r.choice([0, 1])} {r.choice([0, 1])}"
        if k == "scale":
            return "scale " + " ".join(q(r.choice(FACTORS)) for _ in range(3))
        if k == "swizzle":
            return f"swizzle {r.randint(0, 4)}"
        if k == "dzaxial":
            lo, hi = r.choice(DZ)
            return f"dzaxial {q(lo)} {q(hi)}"
        if k == "dscale":
            # exactness: every DeltaScale multiplies by a delta as small as 2^-8; three of them on one action reach 2^-24,
            # which no longer adds exactly to values of magnitude 1 in f32 -> at most two per action block
            self.dscale_count = getattr(self, "dscale_count", 0) + 1
            if self.dscale_count > 2:
                return "negate 0 1 0"
            return "dscale"
        if k == "accby":
            return f"accby {self.ref_action(ctx_actions)}"
        if k == "sconv":
            return f"sconv {r.randint(0, 3)}"
        if k == "sadd":
            vals = [r.choice([Fr(0), Fr(0), Fr(1, 2), Fr(1), Fr(-1)]) for _ in range(3)]
            return f"sadd {r.randint(0, 3)} " + " ".join(map(q, vals))
        if k == "dlerp":
            return f"dlerp {q(r.choice([Fr(1), Fr(2), Fr(4), Fr(8)]))}"
        raise KeyError(k)

    def fresh_id(self):
        i = self.next_id
        self.next_id += 1
        return i

    # ---- configuration
    def config(self, pads_used):
        r, p = self.r, self.p
        lines = []
        ctxs = r.sample(p.ctx_pool, min(self.ri(p.n_ctx), len(p.ctx_pool)))
        self.ctx_variants = {}
        self.bound_inputs = []
        self.action_owner = {}
        for c in sorted(ctxs):
            nv = self.ri(p.n_variants)
            self.ctx_variants[c] = list(range(nv))
            for v in range(nv):
                if pads_used and r.random() < p.pad_ctx_p:
                    lines.append(f"ctx {c} {v} pad {r.choice(pads_used)}")
                else:
                    lines.append(f"ctx {c} {v} any")
                pool = p.actions
                if p.distinct_actions:
                    # different context types bind different actions, so that the deliveries of one (entity, action) pair
                    # always come from one context (their order across contexts is the registry's business, C06)
                    free = [a for a in p.actions if self.action_owner.get(a, c) == c]
                    if len(free) >= 2:
                        pool = free
                acts = r.sample(pool, min(self.ri(p.n_actions), len(pool)))
                for a in acts:
                    self.action_owner.setdefault(a, c)
                order = list(acts)
                # re-binding: some action appears twice
                if order and r.random() < p.rebind_p:
                    order.insert(r.randint(1, len(order)), r.choice(order))
                for a in order:
                    lines.append(f"act {a}")
                    self.dscale_count = 0
                    route = 0
                    if r.random() < p.route_p:
                        route = r.choice([1, 2, 3, 4, 5])
                        lines.append(f"route {route}")
                    for _ in range(self.ri(p.n_amods)):
                        lines.append(f"amod {self.fresh_id()} {self.mod_spec(acts)}")
                    for _ in range(self.ri(p.n_aconds)):
                        lines.append(f"acond {self.fresh_id()} {self.cond_spec(acts)}")
                    if r.random() < p.each_p:
                        for _ in range(r.randint(0, 2)):
                            lines.append(f"emod {self.fresh_id()} {self.mod_spec(acts)}")
                        for _ in range(r.randint(0, 1)):
                            lines.append(f"econd {self.fresh_id()} {self.cond_spec(acts)}")
                    n_items = self.ri(p.n_inputs)
                    if route in (1, 2):
                        n_items = min(n_items, 8)
                    for _ in range(n_items):
                        if route not in (4, 5) and r.random() < p.preset_p:
                            kind = r.choice(["cardinal", "cardinal", "bidir", "stick", "wasd", "dpad"]) if pads_used else \
                                r.choice(["cardinal", "bidir", "wasd"])
                            def km():
                                rr = r.random()
                                if rr < p.rich_field_p:
                                    # rich preset fields: nested stick preset, raw gamepad axis / button, key with its own swizzle
                                    ch = r.choice(["y", "y", "s", "x", "b"]) if pads_used else "y"
                                    if ch == "s":
                                        side = r.choice([0, 1])
                                        self.bound_inputs.append(f"padaxis {2 * side}")
                                        self.bound_inputs.append(f"padaxis {2 * side + 1}")
                                        return f"s{side}"
                                    if ch == "x":
                                        x = r.randrange(4)
                                        self.bound_inputs.append(f"padaxis {x}")
                                        return f"x{x}"
                                    if ch == "b":
                                        b = r.randrange(8)
                                        self.bound_inputs.append(f"padbtn {b}")
                                        return f"b{b}"
                                k = r.choice(p.keys)
                                m = r.choice([0, 0] + p.mask_choices[:2]) if r.random() < p.modmask_p else 0
                                self.bound_inputs.append(f"key {k} {m}")
                                return (f"y{k}:{m}" if rr < p.rich_field_p else f"{k}:{m}")
                            if kind == "wasd":        # the named constructors of the crate
                                for k in (16, 3, 17, 0):
                                    self.bound_inputs.append(f"key {k} 0")
                                lines.append("preset wasd")
                            elif kind == "dpad":
                                for b in (4, 5, 6, 7):
                                    self.bound_inputs.append(f"padbtn {b}")
                                lines.append("preset dpad")
                            elif kind == "cardinal":
                                lines.append("preset cardinal " + " ".join(km() for _ in range(4)))
                            elif kind == "bidir":
                                lines.append("preset bidir " + " ".join(km() for _ in range(2)))
                            else:
                                side = r.choice([0, 1])
                                self.bound_inputs.append(f"padaxis {2 * side}")
                                self.bound_inputs.append(f"padaxis {2 * side + 1}")
                                lines.append(f"preset stick {side}")
                            continue
                        spec = self.input_spec(pads_used)
                        self.bound_inputs.append(spec)
                        lines.append(f"in {spec}")
                        if route in (4, 5):
                            continue
                        if r.random() < p.log_raw_p:
                            # an identity modifier that logs what the binding reads (the `raw` fact of tools/facts.py)
                            rawdim = {"key": 0, "mbtn": 0, "padbtn": 0, "padaxis": 1, "motion": 2, "wheel": 2}[spec.split()[0]]
                            lines.append(f"imod {self.fresh_id()} sadd {rawdim} 0 0 0")
                        for _ in range(self.ri(p.n_imods)):
                            lines.append(f"imod {self.fresh_id()} {self.mod_spec(acts)}")
                        for _ in range(self.ri(p.n_iconds)):
                            lines.append(f"icond {self.fresh_id()} {self.cond_spec(acts)}")
        return lines

    # ---- input script
    def input_changes(self, state, pads_live):
        """random changes of the raw input; returns op lines"""
        r, p = self.r, self.p
        out = []
        used_keys = set()
        used_mb = set()
        masks = 0
        want_motion = want_wheel = False
        pad_btns, pad_axes = set(), set()
        for spec in self.bound_inputs:
            t = spec.split()
            if t[0] == "key":
                used_keys.add(int(t[1])); masks |= int(t[2])
            elif t[0] == "mbtn":
                used_mb.add(int(t[1])); masks |= int(t[2])
            elif t[0] == "motion":
                want_motion = True; masks |= int(t[1])
            elif t[0] == "wheel":
                want_wheel = True; masks |= int(t[1])
            elif t[0] == "padbtn":
                pad_btns.add(int(t[1]))
            elif t[0] == "padaxis":
                pad_axes.add(int(t[1]))
        mod_keys = []
        for bit, (l, rr) in enumerate([(8, 9), (10, 11), (12, 13), (14, 15)]):
            if masks & (1 << bit):
                mod_keys += [l, rr] if r.random() < 0.5 else [l]
        for k in sorted(used_keys | set(mod_keys) | set(p.noise_keys)):
            if r.random() < p.toggle_p:
                cur = state["keys"].get(k, 0)
                state["keys"][k] = 1 - cur
                out.append(f"key {k} {1 - cur}")
        for b in sorted(used_mb):
            if r.random() < p.toggle_p:
                cur = state["mb"].get(b, 0)
                state["mb"][b] = 1 - cur
                out.append(f"mb {b} {1 - cur}")
        if want_motion and r.random() < 0.4:
            out.append(f"motion {q(r.choice(MOUSE_VALS))} {q(r.choice(MOUSE_VALS))}")
        if want_wheel and r.random() < 0.4:
            out.append(f"wheel {q(r.choice(MOUSE_VALS))} {q(r.choice(MOUSE_VALS))}")
        for g in pads_live:
            for b in sorted(pad_btns):
                if r.random() < p.toggle_p * 0.7:
                    cur = state["padbtn"].get((g, b), 0)
                    state["padbtn"][(g, b)] = 1 - cur
                    out.append(f"padbtn {g} {b} {1 - cur}")
            for x in sorted(pad_axes):
                if r.random() < p.toggle_p * 0.7:
                    val = r.choice(AXIS_VALS + [Fr(0)] * 6)
                    axes = state.setdefault("padaxis", {})
                    if val != 0:
                        # unclaimed corner (C15): two gamepads non-zero on one axis of an unrestricted context ->
                        # keep at most one gamepad non-zero per axis
                        for (g2, x2), v2 in list(axes.items()):
                            if x2 == x and g2 != g and v2 != 0:
                                axes[(g2, x2)] = Fr(0)
                                out.append(f"padaxis {g2} {x2} 0")
                    axes[(g, x)] = val
                    out.append(f"padaxis {g} {x} {q(val)}")
        return out

    def lifecycle_op(self, world, ents):
        """a random lifecycle op that makes sense in the current world; updates `world` (entity -> {c: v})"""
        r = self.r
        choices = []
        for e in ents:
            if e in world:
                for c in self.ctx_variants:
                    if c in world[e]:
                        choices.append(("remove", e, c))
                        choices.append(("reinsert", e, c))
                    else:
                        choices.append(("insert", e, c))
                choices.append(("despawn", e))
        choices.append(("rebuild",))
        ch = r.choice(choices)
        if ch[0] == "remove":
            del world[ch[1]][ch[2]]
            return f"remove {ch[1]} {ch[2]}"
        if ch[0] in ("insert", "reinsert"):
            v = r.choice(self.ctx_variants[ch[2]])
            world[ch[1]][ch[2]] = v
            return f"insert {ch[1]} {ch[2]} {v}"
        if ch[0] == "despawn":
            del world[ch[1]]
            return f"despawn {ch[1]}"
        return "rebuild"

    def scenario(self, name):
        r, p = self.r, self.p
        self.next_id = 1
        n_pads = self.ri(p.pads)
        pads_used = list(range(n_pads))
        lines = [f"scenario {name}"]
        lines += self.config(pads_used)
        ops = []
        if r.random() < p.inject_first_p:
            ops.append("inject first")
        elif r.random() < p.inject_events_p:
            ops.append("inject events")
        for g in pads_used:
            ops.append(f"pad+ {g}")
        ents = list(range(self.ri(p.n_entities)))
        world = {}
        state = {"keys": {}, "mb": {}, "padbtn": {}}
        for e in ents:
            ops.append(f"spawn {e}")
            world[e] = {}
        if r.random() < p.held_at_insert_p:
            ops += self.input_changes(state, pads_used)
        for e in ents:
            for c in sorted(self.ctx_variants):
                if r.random() < 0.75:
                    v = r.choice(self.ctx_variants[c])
                    ops.append(f"insert {e} {c} {v}")
                    world[e][c] = v
        n_frames = self.ri(p.n_frames)
        reacts = []
        if r.random() < p.react_p:
            for _ in range(r.randint(1, 4)):
                reacts.append((r.randint(1, n_frames - 1), r.randint(0, 5)))
        pads_live = list(pads_used)
        for f in range(n_frames):
            ops += self.input_changes(state, pads_live)
            if r.random() < p.time_p:
                what = r.random()
                if what < 0.5:
                    ops.append(f"dt {q(r.choice(DT_GRID))}")
                elif what < 0.8:
                    ops.append(f"speed {q(r.choice(SPEEDS))}")
                else:
                    ops.append(f"pause {r.choice([0, 1])}")
            if r.random() < p.ui_p:
                ops.append(f"ui {r.choice([0, 1])} {r.choice(['none', 'hovered', 'pressed', 'gone', 'none'])}")
            if r.random() < p.lifecycle_p:
                ops.append(self.lifecycle_op(world, ents))
            if pads_live and r.random() < 0.02:
                g = r.choice(pads_live)
                pads_live.remove(g)
                ops.append(f"pad- {g}")
            for (rf, rk) in reacts:
                if rf == f:
                    # only ops that cannot make Bevy itself panic: remove / rebuild / despawn of a live entity
                    live = [e for e in ents if e in world]
                    cand = [("rebuild",)]
                    for e in live:
                        for c in world[e]:
                            cand.append(("remove", e, c))
                    ch = r.choice(cand)
                    # mostly keyed by an event (entity, action, kind) of a holder — independent of the order in which the
                    # events of different entities / actions are delivered —, sometimes by the delivery index
                    head = f"react {f} {rk}"
                    if live and r.random() < p.reactev_p:
                        e = r.choice(live)
                        acts = [a for a, c in self.action_owner.items() if c in world[e]] or list(self.action_owner) or [0]
                        kind = r.choice(["started", "started", "fired", "fired", "fired", "ongoing", "ongoing", "completed", "canceled"])
                        head = f"reactev {f} {e} {r.choice(acts)} {kind}"
                    if ch[0] == "remove":
                        del world[ch[1]][ch[2]]
                        ops.append(f"{head} remove {ch[1]} {ch[2]}")
                    else:
                        ops.append(f"{head} rebuild")
            if r.random() < p.post_p:
                live = [e for e in ents if e in world]
                cand = [("rebuild",)]
                for e in live:
                    for c in world[e]:
                        cand.append(("remove", e, c))
                    for c in self.ctx_variants:
                        if c not in world[e]:
                            cand.append(("insert", e, c))
                ch = r.choice(cand)
                if ch[0] == "remove":
                    del world[ch[1]][ch[2]]
                    ops.append(f"post remove {ch[1]} {ch[2]}")
                elif ch[0] == "insert":
                    v = r.choice(self.ctx_variants[ch[2]])
                    world[ch[1]][ch[2]] = v
                    ops.append(f"post insert {ch[1]} {ch[2]} {v}")
                else:
                    ops.append("post rebuild")
            ops.append("frame")
        lines += ops
        lines.append("endscenario")
        return lines


DRIVER = os.path.join(os.path.dirname(os.path.dirname(os.path.abspath(__file__))), "lean", ".lake", "build", "bin", "bei_driver")


def aim_reactions(scs, rng):
    """Event-keyed reactions are generated blind (`reactev f e a kind op` with a guessed event) and mostly never fire.  Aim them:
    run the model once on the batch without them, and re-key each one to an event that the model delivers in that frame (when
    there is one).  Only a heuristic for choosing scripts — a reaction that fires changes what follows — and skipped when the
    driver is not there."""
    if not os.path.exists(DRIVER) or not any(l.startswith("reactev ") for sc in scs for l in sc):
        return scs
    import subprocess, tempfile
    dry = [[l for l in sc if not l.startswith(("reactev ", "react "))] for sc in scs]
    with tempfile.NamedTemporaryFile("w", suffix=".txt", delete=False) as h:
        h.write("\n".join("\n".join(sc) for sc in dry) + "\n")
        path = h.name
    try:
        out = subprocess.run([DRIVER, path], capture_output=True, text=True, timeout=600).stdout
    except Exception:
        return scs
    finally:
        os.unlink(path)
    events, name, frame = {}, None, None           # (scenario, frame) -> [(e, a, kind)]
    for l in out.splitlines():
        t = l.split(" ")
        if t[0] == "scenario":
            name, frame = t[1], None
        elif t[0] == "frame":
            frame = int(t[1])
        elif t[0] == "endframe":
            frame = None
        elif t[0] == "dlv" and frame is not None:
            events.setdefault((name, frame), []).append((t[1], t[2], t[3]))
    res = []
    for sc in scs:
        name = sc[0].split(" ")[1]
        new = []
        for l in sc:
            t = l.split(" ")
            if t[0] == "reactev":
                ev = events.get((name, int(t[1])))
                if ev and rng.random() < 0.85:
                    e, a, kind = rng.choice(ev)
                    l = " ".join(["reactev", t[1], e, a, kind] + t[5:])
            new.append(l)
        res.append(new)
    return res


def app_batch(seed, n, prof, prefix):
    rng = random.Random(seed)
    g = AppGen(rng, prof)
    out = []
    for i in range(n):
        out.append(g.scenario(f"{prefix}{i}"))
    return aim_reactions(out, random.Random(seed + 1))
