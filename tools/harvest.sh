#!/bin/bash
# usage: tools/harvest.sh <seeded-id>...  — applies a seeded change, runs the quick check of its property and stores the first replay
# with a failing input in corpus/<prop>/ (minimised past failures run first on every later run); reverts.
export VERIF_EVIDENCE_DIR=/verif/work/evidence-scratch
cd /verif
for id in "$@"; do
  p=$(python3 -c "import json;print(json.load(open('/verif/seeded/$id/meta.json')).get('property','$id')[:3])")
  git -C /repo apply "/verif/seeded/$id/patch.diff" || { echo "$id: patch does not apply"; continue; }
  (cd harness && CARGO_NET_OFFLINE=true cargo build --offline --release 2>&1 | tail -1) > /dev/null
  r=$(./check $p --skip-build 2>&1 | grep "^VIOLATION" | grep -v no-failing-input-found | head -1)
  f=$(echo "$r" | sed -n 's/.*replay=\([^ ]*\).*/\1/p')
  if [ -n "$f" ] && [ -f "$f" ]; then
    mkdir -p corpus/$p; cp "$f" "corpus/$p/r7-$id-$(basename $f)"; echo "$id $p stored $(basename $f)"
  else echo "$id $p nothing stored: $r"; fi
  git -C /repo checkout -- .
done
(cd harness && CARGO_NET_OFFLINE=true cargo build --offline --release 2>&1 | tail -1) > /dev/null
python3 /verif/tools/codegen.py >/dev/null
git -C /repo status --short | head -3
