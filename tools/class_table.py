#!/usr/bin/env python3
"""prints the upstream / output classification of tools/facts.py as a markdown table (pasted into DESIGN.md §4.1)"""
import sys, os
sys.path.insert(0, os.path.dirname(os.path.abspath(__file__)))
import facts
KINDS = ["op", "fr", "react", "ft", "sched", "invorder", "ix:i", "ix:e", "ix:a", "raw", "ivi", "ivo:i:sscript", "ivo:a:sscript", "ivo:i:press", "ivo:a:chord",
         "ivo:i:negate", "ivo:a:accby", "evb", "dk", "dpc", "dpd", "ck", "cp", "cd", "probe", "pp", "ps", "pv", "pvd", "pd", "pe", "sup", "has", "hasw",
         "gorder", "gsets", "evalorder", "rcp", "panic", "r"]
print("| property | mode | upstream facts | output facts |")
print("|---|---|---|---|")
for p in sorted(facts.CLASS):
    cls = facts.CLASS[p]["cls"]
    up = [k for k in KINDS if cls(k) == "up"]
    out = [k for k in KINDS if cls(k) == "out"]
    print(f"| {p} | {facts.CLASS[p]['mode']} | {' '.join(up)} | {' '.join(out)} |")
