#!/bin/bash
# usage: tools/bridge_vs.sh <diff>...  — applies each diff to a scratch copy of /repo/src, runs the translator on it and builds
# every bridge module; prints per diff the units that are untranslated / whose bridge no longer proves.  Restores Gen/Code at the end.
cd /verif
S=$(mktemp -d /tmp/bridgevs.XXXX)
for f in "$@"; do
  rm -rf $S/repo; mkdir -p $S/repo; cp -r /repo/src $S/repo/src
  (cd $S/repo && patch -s -p1 < "$(realpath "$OLDPWD/$f" 2>/dev/null || echo "$f")") || { echo "$f: does not apply"; continue; }
  st=$(BEI_REPO=$S/repo python3 tools/codegen.py | grep -v " translated" | tr '\n' ';')
  res=""
  for u in Value Events Timer Conditions Tracker ActionData Modifiers Refs Merge Loops; do
    if grep -q '"status": "translated"' <(python3 -c "import json;print(json.dumps(json.load(open('lean/BEI/Gen/Code/status.json'))['$u']))"); then
      if (cd lean && lake build BEI.Gen.Code.$u >/dev/null 2>&1); then out=$(cd lean && lake build BEI.Bridge.$u 2>&1) || { if echo "$out" | grep -qE "Unknown constant .BEI\.Rs\.|Unknown identifier .(BEI\.Rs\.)?[A-Z][A-Za-z0-9_]*\.[a-z_A-Z0-9]+|environment does not contain .BEI\.Rs\."; then res="$res iface:$u"; else res="$res BROKEN:$u"; fi; }; else res="$res noelab:$u"; fi
    fi
  done
  echo "$(basename $f): untranslated=[$st] bridges:[${res:- all ok}]"
done
rm -rf $S
python3 tools/codegen.py >/dev/null
