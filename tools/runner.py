"""Build steps and the differential runner (harness = real crate, driver = Lean model)."""
import os, re, subprocess, sys, time, json, shutil
from concurrent.futures import ThreadPoolExecutor

VERIF = os.path.dirname(os.path.dirname(os.path.abspath(__file__)))
LEAN = os.path.join(VERIF, "lean")
HARNESS_DIR = os.path.join(VERIF, "harness")
HARNESS_BIN = os.path.join(HARNESS_DIR, "target", "release", "bei_harness")
DRIVER_BIN = os.path.join(LEAN, ".lake", "build", "bin", "bei_driver")
JOBS = int(os.environ.get("VERIF_JOBS", "16"))

ALLOWED_AXIOMS = {"propext", "Classical.choice", "Quot.sound"}
FORBIDDEN = re.compile(r"\b(sorry|admit|native_decide|bv_decide|implemented_by|unsafe)\b|^axiom\s|maxHeartbeats 0")


class BrokenCheck(Exception):
    """the machinery itself cannot run (exit 2): not a verdict"""


import contextlib, fcntl


@contextlib.contextmanager
def lean_lock():
    """serialises everything that writes or reads the Lean build directory and the generated files across check processes
    that run at the same time (two `lake build`s in one package directory trip over each other's files)"""
    os.makedirs(os.path.join(VERIF, "work"), exist_ok=True)
    with open(os.path.join(VERIF, "work", ".lean.lock"), "w") as h:
        fcntl.flock(h, fcntl.LOCK_EX)
        try:
            yield
        finally:
            fcntl.flock(h, fcntl.LOCK_UN)


def sh(cmd, cwd=None, env=None, timeout=None):
    e = dict(os.environ)
    e["CARGO_NET_OFFLINE"] = "true"
    if env:
        e.update(env)
    p = subprocess.run(cmd, cwd=cwd, env=e, stdout=subprocess.PIPE, stderr=subprocess.STDOUT, text=True, timeout=timeout)
    return p.returncode, p.stdout


def build_harness():
    """rebuild the harness against /repo's current working tree"""
    lock = os.path.join(HARNESS_DIR, "Cargo.lock")
    if not os.path.exists(lock):
        shutil.copy("/repo/Cargo.lock", lock)
    rc, out = sh(["cargo", "build", "--offline", "--release"], cwd=HARNESS_DIR, timeout=3600)
    if rc != 0:
        raise BrokenCheck("harness does not build against /repo:\n" + out[-3000:])
    return out


def run_extractor():
    """-> (ok, message, status) where status[fragment] = (properties, 'source' | 'executed …' | 'FAILED: …')"""
    with lean_lock():
        rc, out = sh([sys.executable, os.path.join(VERIF, "tools", "extract.py")])
    status = {}
    for l in out.splitlines():
        m = re.match(r"FRAGMENT (\w+) \[([^\]]*)\] (.*)", l)
        if m:
            status[m.group(1)] = (m.group(2).split(","), m.group(3))
    return rc == 0, out.strip(), status


def run_codegen():
    """re-translate the pure function bodies of /repo/src into lean/BEI/Gen/Code/*.lean (tools/codegen.py);
    -> {unit: {"status": "translated" | "untranslated", "reason": .., "properties": [..]}}"""
    with lean_lock():
        rc, out = sh([sys.executable, os.path.join(VERIF, "tools", "codegen.py"), "--json"])
    try:
        return json.loads(out.strip().splitlines()[-1])
    except Exception:
        raise BrokenCheck("tools/codegen.py crashed:\n" + out[-2000:])


def bridge_theorem_names(unit):
    p = os.path.join(LEAN, "BEI", "Bridge", f"{unit}.lean")
    src = strip_comments(open(p).read())
    ns = re.search(r"^namespace\s+(\S+)", src, flags=re.M).group(1)
    return [f"{ns}.{m}" for m in re.findall(r"^theorem\s+([\w.'?!]+)", src, flags=re.M)]


def audit_bridge(unit, workdir):
    """#print axioms for every bridge theorem of the unit"""
    names = bridge_theorem_names(unit)
    os.makedirs(workdir, exist_ok=True)
    f = os.path.join(workdir, f"AuditBridge{unit}.lean")
    with open(f, "w") as h:
        h.write(f"import BEI.Bridge.{unit}\n")
        for n in names:
            h.write(f"#print axioms {n}\n")
    with lean_lock():
        rc, out = sh(["lake", "env", "lean", f], cwd=LEAN, timeout=1800)
    res = {}
    for m in re.finditer(r"'([^']+)' (does not depend on any axioms|depends on axioms: \[([^\]]*)\])", out.replace("\n", " ")):
        ax = [] if m.group(3) is None else [a.strip() for a in m.group(3).split(",") if a.strip()]
        res[m.group(1)] = ax
    return {n: res.get(n) for n in names}


def strip_comments(src):
    src = re.sub(r"/-.*?-/", "", src, flags=re.S)
    return re.sub(r"--[^\n]*", "", src)


def scan_sources():
    """forbidden constructs anywhere in the Lean development (comments discarded)"""
    hits = []
    for root, _, files in os.walk(os.path.join(LEAN, "BEI")):
        for f in files:
            if f.endswith(".lean"):
                p = os.path.join(root, f)
                for i, line in enumerate(strip_comments(open(p).read()).splitlines(), 1):
                    if FORBIDDEN.search(line):
                        hits.append(f"{p}:{i}: {line.strip()}")
    return hits


def theorem_names(prop_id):
    """theorems declared in Props/<id>.lean with their full names"""
    p = os.path.join(LEAN, "BEI", "Props", f"{prop_id}.lean")
    src = strip_comments(open(p).read())
    ns = re.search(r"^namespace\s+(\S+)", src, flags=re.M).group(1)
    return [f"{ns}.{m}" for m in re.findall(r"^theorem\s+([\w.'?!]+)", src, flags=re.M)]


def lake_build(targets):
    with lean_lock():
        rc, out = sh(["lake", "build"] + targets, cwd=LEAN, timeout=3600)
        if rc != 0 and ("no such file or directory" in out or "resource busy" in out):
            # a transient file-system error (another process touched the build directory): not a verdict, build again
            time.sleep(1)
            rc, out = sh(["lake", "build"] + targets, cwd=LEAN, timeout=3600)
    return rc == 0, out


def audit_axioms(prop_id):
    """#print axioms for every theorem of the property; returns (ok, per-theorem dict, raw)"""
    names = theorem_names(prop_id)
    work = os.path.join(VERIF, "work", prop_id)
    os.makedirs(work, exist_ok=True)
    f = os.path.join(work, f"Audit{prop_id}.lean")
    with open(f, "w") as h:
        h.write(f"import BEI.Props.{prop_id}\n")
        for n in names:
            h.write(f"#print axioms {n}\n")
    with lean_lock():
        rc, out = sh(["lake", "env", "lean", f], cwd=LEAN, timeout=1800)
    res = {}
    cur = None
    # output: "'name' depends on axioms: [a, b]" or "'name' does not depend on any axioms"
    for m in re.finditer(r"'([^']+)' (does not depend on any axioms|depends on axioms: \[([^\]]*)\])", out.replace("\n", " ")):
        ax = [] if m.group(3) is None else [a.strip() for a in m.group(3).split(",") if a.strip()]
        res[m.group(1)] = ax
    ok = rc == 0 and all(n in res and set(res[n]) <= ALLOWED_AXIOMS for n in names)
    return ok, {n: res.get(n) for n in names}, out


def leanchecker(prop_id):
    rc, out = sh(["lake", "env", "leanchecker", f"BEI.Props.{prop_id}"], cwd=LEAN, timeout=3600)
    return rc == 0, out


# ---------------------------------------------------------------- differential runs

def split_trace(text):
    """trace text -> {scenario name: [lines]} (lines between `scenario` and `endscenario`)"""
    res = {}
    cur = None
    name = None
    for line in text.splitlines():
        if line.startswith("scenario "):
            name = line[9:]
            cur = []
        elif line == "endscenario":
            if name is not None:
                res[name] = cur
            name, cur = None, None
        elif cur is not None:
            cur.append(line)
        elif line.startswith("error "):
            res["__error__"] = [line]
    return res


def _run_one(binary, path):
    p = subprocess.run([binary, path], stdout=subprocess.PIPE, stderr=subprocess.PIPE, text=True)
    return p.returncode, p.stdout, p.stderr


def run_pair(scenarios, workdir, tag, jobs=JOBS, impl_only=False):
    """scenarios: list of line lists (each starting with `scenario <name>`).
    Returns (impl: name->lines, model: name->lines)."""
    os.makedirs(workdir, exist_ok=True)
    n = max(1, min(jobs, len(scenarios)))
    chunks = [scenarios[i::n] for i in range(n)]
    paths = []
    for i, ch in enumerate(chunks):
        p = os.path.join(workdir, f"{tag}.{i}.batch")
        with open(p, "w") as h:
            for sc in ch:
                h.write("\n".join(sc))
                h.write("\n")
        paths.append(p)
    impl, model = {}, {}
    with ThreadPoolExecutor(max_workers=jobs) as ex:
        fi = [ex.submit(_run_one, HARNESS_BIN, p) for p in paths]
        fm = [] if impl_only else [ex.submit(_run_one, DRIVER_BIN, p) for p in paths]
        for f, p in zip(fi, paths):
            rc, out, err = f.result()
            if rc != 0:
                raise BrokenCheck(f"harness exited {rc} on {p}: {out[-500:]} {err[-500:]}")
            impl.update(split_trace(out))
        for f, p in zip(fm, paths):
            rc, out, err = f.result()
            if rc != 0:
                raise BrokenCheck(f"driver exited {rc} on {p}: {out[-500:]} {err[-500:]}")
            model.update(split_trace(out))
    for p in paths:
        os.remove(p)
    return impl, model


def first_diff(a, b):
    for i, (x, y) in enumerate(zip(a, b)):
        if x != y:
            return i, x, y
    if len(a) != len(b):
        i = min(len(a), len(b))
        return i, (a[i] if i < len(a) else "<end>"), (b[i] if i < len(b) else "<end>")
    return None


def canonicalise(scenario, trace):
    """Orders the crate does not define (DESIGN.md §4 "unclaimed corners") are normalised before comparison:
    the closing deliveries of one `RebuildInputContexts` are produced by one observer per context type and Bevy
    runs those observers in hash order, so (a) the `dlv` block of an `op rebuild` / `op despawn` is sorted and
    (b) the `dlv` lines of a frame in which a rebuild was issued from an observer (`react`) or through commands
    (`post`) are sorted.  Everything else is compared in order."""
    # frames with an in-frame rebuild
    frames = set()
    fno = 0
    pending_post = False
    for line in scenario:
        t = line.split()
        if t[0] == "react" and t[3] == "rebuild":
            frames.add(int(t[1]))
        elif t[0] == "reactev" and t[5] == "rebuild":
            frames.add(int(t[1]))
        elif t[0] == "post" and t[1] == "rebuild":
            pending_post = True
        elif t[0] == "frame":
            if pending_post:
                frames.add(fno)
                pending_post = False
            fno += 1
    out = []
    i = 0
    n = len(trace)
    while i < n:
        line = trace[i]
        if line.startswith("op rebuild") or line.startswith("op despawn"):
            out.append(line)
            i += 1
            blk = []
            while i < n and trace[i].startswith("dlv "):
                blk.append(trace[i]); i += 1
            out += sorted(blk)
        elif line.startswith("frame "):
            f = int(line.split()[1])
            out.append(line)
            i += 1
            if f in frames:
                body = []
                while i < n and trace[i] != "endframe" and not trace[i].startswith("frame "):
                    body.append(trace[i]); i += 1
                dl = sorted(l for l in body if l.startswith("dlv "))
                k = 0
                for l in body:
                    if l.startswith("dlv "):
                        out.append(dl[k]); k += 1
                    else:
                        out.append(l)
        else:
            out.append(line)
            i += 1
    return out


def load_corpus(prop):
    """committed minimised past failures (run before anything else); scenario names are made unique"""
    scenarios = []
    d = os.path.join(VERIF, "corpus", prop)
    if os.path.isdir(d):
        for f in sorted(os.listdir(d)):
            lines = [l.rstrip("\n") for l in open(os.path.join(d, f)) if l.strip() and not l.startswith("#")]
            cur = None
            for l in lines:
                if l.startswith("scenario "):
                    cur = [f"scenario corpus-{os.path.splitext(f)[0]}-{len(scenarios)}"]
                elif l == "endscenario":
                    if cur is not None:
                        cur.append(l); scenarios.append(cur)
                    cur = None
                elif cur is not None:
                    cur.append(l)
    return scenarios
