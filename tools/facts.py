"""Property-relative comparison of an implementation trace with the model trace (DESIGN.md §4.3).

A canonical trace is exploded into *atomic facts* grouped into blocks (one block per `op` line and per frame).  For a
property P every fact kind is classified as

  out  — a fact P determines (the value of P's function),
  up   — a fact P's function takes as an input (upstream of P),
  None — a fact P does not talk about (ignored for P).

Reading both traces block by block (inside a block: upstream facts first, or — `seq` mode — in evaluation order):

  * no difference on `up ∪ out` facts            → the correspondence P needs holds on this scenario;
  * the first difference is an `out` fact        → model and implementation received the same upstream facts and the
    implementation's result differs from the model's, which satisfies P by theorem: a concrete failing input for P;
  * the first difference is an `up` fact         → the model no longer describes what P's function is fed with; P's
    correspondence is broken on this scenario, but this scenario is not (yet) a failing input *for P*.

Several facts are *relational*: they are computed inside one trace (e.g. "the payload of this delivery equals what is polled
in the same frame"), so that a change elsewhere (another property's function) does not show up in them.
"""
import re

EV_BITS = {"started": 1, "ongoing": 2, "fired": 4, "canceled": 8, "completed": 16}
CFG_WORDS = ("ctx", "act", "route", "amod", "acond", "emod", "econd", "in", "imod", "icond", "preset")
BUILTIN_CONDS = {"press", "justpress", "release", "hold", "holdrel", "tap", "pulse"}
REF_CONDS = {"chord", "blockby"}
BUILTIN_MODS = {"negate", "scale", "swizzle", "dzaxial", "dzradial", "exp", "dscale", "dlerp"}


class Cfg:
    """what the configuration lines say about each instrumented id"""

    def __init__(self, sc):
        self.level = {}     # id -> 'i' | 'a' | 'e'
        self.kind = {}      # id -> spec word (press, negate, sscript, ...)
        self.ctx = {}       # id -> context type
        self.is_cond = {}   # id -> bool
        self.first = set()  # ids that see the raw reading of their input
        self.ekind = {}     # id -> condition kind number for sscript / sact (0..3), blockby eo -> 3 / 2
        self.act = {}       # id -> action
        self.reacts = {}    # frame number -> [k, ...] of `react` lines
        self.reactevs = {}  # frame number -> [(e, a, kind), ...] of `reactev` lines
        c = None
        a = None
        cur_in = None       # [own mods, own conds] of the current `in` item
        emods, econds = [], []

        def close_input():
            nonlocal cur_in
            if cur_in is not None:
                mods = cur_in[0] + emods
                conds = cur_in[1] + econds
                if mods:
                    self.first.add(mods[0])
                else:
                    self.first.update(conds)      # every condition sees the unmodified reading
                cur_in = None
        for l in sc:
            if l.startswith("react "):
                t = l.split(" ")
                self.reacts.setdefault(int(t[1]), []).append(int(t[2]))
            elif l.startswith("reactev "):
                t = l.split(" ")
                self.reactevs.setdefault(int(t[1]), []).append((t[2], t[3], t[4]))
        for l in sc:
            t = l.split(" ")
            w = t[0]
            if w not in CFG_WORDS:
                if w == "scenario":
                    continue
                close_input()
                if w in ("spawn", "insert", "frame"):
                    break
                continue
            if w == "ctx":
                close_input(); c = int(t[1]); emods, econds = [], []
            elif w == "act":
                close_input(); emods, econds = [], []; a = int(t[1])
            elif w == "in":
                close_input(); cur_in = [[], []]
            elif w == "preset":
                close_input()
            elif w in ("amod", "acond", "imod", "icond", "emod", "econd"):
                i = int(t[1])
                self.level[i] = w[0]
                self.kind[i] = t[2]
                self.ctx[i] = c
                self.act[i] = a
                self.is_cond[i] = w.endswith("cond")
                if t[2] in ("sscript", "sact"):
                    self.ekind[i] = int(t[3])
                elif t[2] == "blockby":
                    self.ekind[i] = 3 if t[4] == "1" else 2
                if w == "imod" and cur_in is not None:
                    cur_in[0].append(i)
                elif w == "icond" and cur_in is not None:
                    cur_in[1].append(i)
                elif w == "emod":
                    emods.append(i)
                elif w == "econd":
                    econds.append(i)
        close_input()


def blocks(trace):
    """split a canonical trace into blocks: ('head', lines) ('op', lines) ('frame', lines)"""
    out = [["head", []]]
    for l in trace:
        k = l.split(" ", 1)[0]
        if k == "op":
            out.append(["op", [l]])
        elif k == "frame":
            out.append(["frame", [l]])
        else:
            out[-1][1].append(l)
    return out


def explode(cfg, trace):
    """-> list of blocks; a block is (btype, [(kind, text), ...]) in trace order"""
    res = []
    for btype, lines in blocks(trace):
        frame_no = int(lines[0].split(" ")[1]) if btype == "frame" else None
        polls = {}
        for l in lines:
            if l.startswith("poll "):
                t = l.split(" ")
                polls.setdefault((t[1], t[3]), []).append(t)
        facts = []
        delivered = set()
        for l in lines:
            if l.startswith("dlv "):
                t = l.split(" ")
                delivered.add((t[1], t[2]))
        for l in lines:
            t = l.split(" ")
            k = t[0]
            if k == "op":
                facts.append(("op", l))
            elif k == "frame":
                facts.append(("fr", t[1]))
                facts.append(("ft", " ".join(t[2:])))
            elif k == "inv":
                i = int(t[1])
                lvl = cfg.level.get(i, "?")
                facts.append(("ix:" + lvl, t[1]))
                kind = cfg.kind.get(i, "?")
                if i in cfg.first:
                    facts.append(("raw", f"{t[1]} {t[2]}"))
                else:
                    facts.append(("ivi", f"{t[1]} {t[2]}"))
                facts.append(("ivo:" + lvl + ":" + kind, f"{t[1]} {t[3]}"))
            elif k == "dlv":
                # dlv e a kind state value elapsed fired
                e, a, kind = t[1], t[2], t[3]
                cands = polls.get((e, a), [])
                explained = any(int(p[5]) & EV_BITS[kind] for p in cands)
                if btype == "frame" and explained:
                    sk = (int(e), int(a), t[4], t[5])
                    facts.append(("dk", f"{e} {a} {kind}", sk))
                    ok_sv = any(p[4] == t[4] and p[6] == t[5] for p in cands)
                    ok_d = any((t[6] == "-" or p[7] == t[6]) and (t[7] == "-" or p[8] == t[7]) for p in cands)
                    shape = ("-" if t[6] == "-" else "e") + ("-" if t[7] == "-" else "f")
                    facts.append(("dpc", f"{e} {a} {kind} payload={'ok' if ok_sv else 'differs'} shape={shape}", sk))
                    facts.append(("dpd", f"{e} {a} {kind} durations={'ok' if ok_d else 'differ'}", sk))
                else:
                    sk = (int(e), int(a), t[4], t[5])
                    facts.append(("ck", f"{e} {a} {kind}", sk))                 # closing delivery (instance gone / rebuilt)
                    facts.append(("cp", f"{e} {a} {kind} {t[4]} {t[5]}", sk))  # ... with state and value
                    facts.append(("cd", f"{e} {a} {kind} {t[6]} {t[7]}", sk))  # ... and durations
            elif k == "poll":
                key = " ".join(t[1:4])
                facts.append(("pp", key))                                    # the lookup succeeds
                facts.append(("ps", f"{key} {t[4]}"))
                facts.append(("pv", f"{key} {t[6]}"))
                facts.append(("pvd", f"{key} {t[6][0]}"))                    # dimension of the value
                facts.append(("pd", f"{key} {t[7]} {t[8]}"))
                facts.append(("pe", f"{key} {t[5]}"))
                if int(t[5]) != 0:
                    facts.append(("sup", f"{key} {'delivered' if (t[1], t[3]) in delivered else 'suppressed'}"))
            elif k == "groups":
                gs = t[1].split(";") if len(t) > 1 and t[1] else []
                facts.append(("gorder", " ".join(g.split(":")[0] for g in gs)))
                facts.append(("gsets", " ".join(sorted(g.split(":")[0] + ":" + ",".join(sorted(g.split(":")[1].split(","))) for g in gs))))
                facts.append(("glists", " ".join(gs)))
            elif k == "has":
                facts.append(("has", l))                                    # has e c <world> <registry>
                if t[3] == "1":
                    facts.append(("hasw", f"{t[1]} {t[2]}"))                 # the component is in the world
            elif k in ("probe", "panic", "r", "sched", "error"):
                facts.append((k, l))
            # endframe / scenario lines carry nothing
        if btype == "frame":
            # which delivery triggered a scripted reaction (`react <frame> <k> <op>`): the effective script
            dl = [l.split(" ") for l in lines if l.startswith("dlv ")]
            trig = [("react", f"{k} -> " + (" ".join(dl[k][1:4]) if k < len(dl) else "-")) for k in cfg.reacts.get(frame_no, [])]
            # event-keyed reactions: did the event occur in this frame (independent of the order of deliveries)
            trig += [("react", f"{e} {a} {kd} -> " + ("fired" if any(d[1] == e and d[2] == a and d[3] == kd for d in dl) else "idle"))
                     for (e, a, kd) in cfg.reactevs.get(frame_no, [])]
            # the invocation log as a whole (who was evaluated, in which order)
            order = " ".join(l.split(" ")[1] for l in lines if l.startswith("inv "))
            pos = next((k for k, f in enumerate(facts) if rank(f[0]) >= 1), len(facts))
            facts[pos:pos] = trig + [("invorder", order)]
            # failing events-only blockers per (context type, action): the hidden input "events are suppressed"
            evb = {}
            for l in lines:
                if l.startswith("inv "):
                    t = l.split(" ")
                    i = int(t[1])
                    if cfg.ekind.get(i) == 3 and t[3] == "none":
                        key = (cfg.ctx.get(i), cfg.act.get(i))
                        evb[key] = evb.get(key, 0) + 1
            pos = next((k for k, f in enumerate(facts) if rank(f[0]) >= 2), len(facts))
            facts[pos:pos] = [("evb", f"{c} {a} {n}") for (c, a), n in sorted(evb.items(), key=lambda kv: (str(kv[0]), kv[1]))]
            # evaluation order of context types as witnessed by the invocation log
            order = []
            for kind, text, *_ in facts:
                if kind.startswith("ix:"):
                    c = cfg.ctx.get(int(text))
                    if c is not None and (not order or order[-1] != c):
                        order.append(c)
            facts.append(("evalorder", " ".join(map(str, order))))
            # recipients of every delivered (action, kind)
            rc = {}
            for kind, text, *_ in facts:
                if kind in ("dk", "ck"):
                    e, a, kd = text.split(" ")
                    rc.setdefault((a, kd), []).append(e)
            for (a, kd) in sorted(rc):
                facts.append(("rcp", f"{a} {kd} -> {','.join(sorted(rc[(a, kd)], key=int))}"))
        res.append((btype, facts))
    return res


# ----------------------------------------------------------------------------------------------------------------------
# classification per property: kind -> 'up' | 'out' | None.  Keys may be prefixes ending with ':' (ivo:<level>:<spec kind>).

def _cls(table, default=None):
    def f(kind):
        if kind in table:
            return table[kind]
        if kind.startswith("ix:"):
            return table.get(kind, table.get("ix", default))
        if kind.startswith("ivo:"):
            _, lvl, spec = kind.split(":")
            for key in (f"ivo:{lvl}:{spec}", f"ivo:*:{spec}", f"ivo:{lvl}:*", "ivo"):
                if key in table:
                    return table[key]
        return default
    return f


def _ivo(kinds, tag, levels="*"):
    return {f"ivo:{levels}:{k}": tag for k in kinds}


# properties decided on the `raw` facts (what each binding reads)
RAW_PROPS = {"C05", "C06", "C08", "C15", "C16"}

SCRIPT = {"op": "up", "fr": "up", "react": "up"}

CLASS = {
    # events: function of (previous polled state, new state, suppressed or not); payload = polled; value dimension
    "C01": dict(mode="block", cls=_cls({**SCRIPT, "ps": "up", "pp": "up", "evb": "up", "pe": "out", "dk": "out", "dpc": "out", "dpd": "out",
                                        "pvd": "out", "panic": "up"})),
    # episodes and their closing: shape of the event sequence, closing deliveries, registry membership
    "C02": dict(mode="block", cls=_cls({**SCRIPT, "ps": "up", "evb": "up", "dk": "out", "ck": "out", "cp": "out", "has": "out", "pp": "out",
                                        "panic": "out"})),
    # condition law: state from the condition results and the value; event suppression from events-only blockers
    "C03": dict(mode="block", cls=_cls({**SCRIPT, "ix": "up", "raw": "up", "ivi": "up", "ivo": "up", "pv": "up", "ps": "out", "sup": "out",
                                        "panic": "up"})),
    # value: input-level results in, merged / action-level values out
    "C04": dict(mode="seq", cls=_cls({**SCRIPT, "raw": "up", "ix": "out", "ivi": "out", "ivo": "up", "pv": "out", "pvd": "out", "panic": "out"})),
    # consumption: what later actions read
    "C05": dict(mode="seq", cls=_cls({**SCRIPT, "invorder": "up", "raw": "out", "panic": "up"})),
    # priority order of the registry / of evaluation
    # … and its consequence in the statement: the higher-priority consuming actions win contested inputs, i.e. what the bindings of
    # the lower-priority contexts read (seeded change C06r4: a consuming action that stays Ongoing stops hiding its inputs)
    "C06": dict(mode="block", cls=_cls({**SCRIPT, "gorder": "out", "evalorder": "out", "raw": "out", "panic": "up"})),
    # registry mirrors the world; fresh instances
    "C07": dict(mode="block", cls=_cls({**SCRIPT, "has": "out", "gsets": "out", "pp": "out", "panic": "out", "ps": "out", "pd": "out"})),
    # initial suppression: which inputs are driven, what they read
    "C08": dict(mode="seq", cls=_cls({**SCRIPT, "ix:i": "out", "ix:e": "out", "raw": "out", "panic": "up"})),
    "C09": dict(mode="block", cls=_cls({**SCRIPT, "sched": "out", "probe": "out", "ps": "out", "dk": "out", "ck": "out", "panic": "up"})),
    # durations: function of the state history and the frame deltas
    "C10": dict(mode="block", cls=_cls({**SCRIPT, "ft": "up", "ps": "up", "pp": "up", "pd": "out", "dpd": "out", "cd": "out", "panic": "up"})),
    # built-in conditions: result from the value history and the time base
    "C11": dict(mode="seq", cls=_cls({**SCRIPT, "ft": "up", "ix": "up", "raw": "up", "ivi": "up", "r": "out", **_ivo(BUILTIN_CONDS, "out"),
                                      "ivo": "up", "panic": "up"})),
    # invocation log
    "C12": dict(mode="seq", cls=_cls({**SCRIPT, "ix": "out", "panic": "up"})),
    # binding order and cross-action references
    "C13": dict(mode="seq", cls=_cls({**SCRIPT, "ix": "out", "raw": "up", "ivi": "up", **_ivo(REF_CONDS | {"accby"}, "out"), "ivo": "up",
                                      "ps": "up", "panic": "up"})),
    # recipients
    "C14": dict(mode="block", cls=_cls({**SCRIPT, "hasw": "up", "evb": "up", "ps": "out", "pp": "out", "rcp": "out", "dpc": "out", "dpd": "out",
                                        "cp": "out", "panic": "up"})),
    # reader
    "C15": dict(mode="seq", cls=_cls({**SCRIPT, "raw": "out", "panic": "up"})),
    "C16": dict(mode="seq", cls=_cls({**SCRIPT, "raw": "out", "panic": "up"})),
    # built-in modifiers
    "C18": dict(mode="seq", cls=_cls({**SCRIPT, "ft": "up", "ix": "up", "raw": "up", "ivi": "up", "r": "out", **_ivo(BUILTIN_MODS | {"accby"}, "out"),
                                      "ivo": "up", "ps": "up", "panic": "up"})),
    # constructions and presets: everything observable is determined by the binding sequence
    "C19": dict(mode="seq", cls=_cls({**SCRIPT, "ix": "out", "raw": "out", "ivi": "out", "ivo": "out", "ps": "out", "pv": "out", "pe": "out",
                                      "dk": "out", "panic": "out"})),
    "C20": dict(mode="seq", cls=_cls({"r": "out", "error": "out", "panic": "out"})),
}
# C17 is decided by model-free pair / re-run oracles (tools/special.py); against the model everything counts as upstream
CLASS["C17"] = dict(mode="block", cls=_cls({**SCRIPT}, default="up"))


RANK = {"op": 0, "fr": 0, "ft": 0, "sched": 0, "react": 0.5, "invorder": 0.6, "ix": 1, "raw": 1, "ivi": 1, "r": 1, "error": 1, "evb": 1.5, "dk": 2, "dpc": 2, "dpd": 2, "ck": 2, "cp": 2,
        "cd": 2, "probe": 3, "pp": 4, "ps": 4, "pv": 4, "pvd": 4, "pd": 4, "pe": 4, "sup": 4, "has": 5, "hasw": 5, "gorder": 6, "gsets": 6, "glists": 6,
        "evalorder": 7, "rcp": 7, "panic": 8}


def rank(kind):
    return 1 if kind.startswith(("ivo", "ix")) else RANK.get(kind, 9)


# Orders that are another property's business are normalised away (stable sorts inside a block): the order of context
# types is C06's, the order of actions inside a context C13's, the order of machines inside an action C12's; the order of
# deliveries of different (entity, action) pairs follows from those.  The order inside one (entity, action) pair (Started
# first) and inside one machine's invocations is kept.
INV_SORT = {
    "C12": lambda cfg, i: (str(cfg.ctx.get(i)), str(cfg.act.get(i))),    # keep the order inside an action
    "C13": lambda cfg, i: (str(cfg.ctx.get(i)),),                         # keep the order inside a context
    "C06": None, "C19": None, "C11": None, "C18": None, "C04": None,       # keep the log as it is (C04: merged values come
                                                                           # after the readings they are merged from)
}


def sort_block(prop, cfg, facts, keep_log=False):
    inv_key = None if keep_log else INV_SORT.get(prop, lambda cfg, i: (i,))

    def key(f):
        kind, text = f[1], f[2]
        r = rank(kind)
        if r == 1 and kind not in ("r", "error"):
            if inv_key is None:
                return (r, ())
            return (r, inv_key(cfg, int(text.split(" ")[0])))
        if r == 2:
            if len(f) > 3 and f[3] is not None:
                return (r, f[3])          # deliveries of one (entity, action) with one payload stay together, in their order
            e, a = text.split(" ")[:2]
            return (r, (int(e), int(a), "", ""))
        return (r, ())
    return [f[:3] for f in sorted(facts, key=key)]


def view(prop, cfg, trace):
    """-> list of blocks, each a list of (tag, kind, text) restricted to the facts the property is about"""
    cls = CLASS[prop]["cls"]
    out = []
    for btype, facts in explode(cfg, trace):
        tagged = [(cls(f[0]), f[0], f[1], f[2] if len(f) > 2 else None) for f in facts]
        out.append(sort_block(prop, cfg, [f for f in tagged if f[0] is not None]))
    return out


# Strict reading (used for the wide streams, where every mechanism of the crate is in play at once): every fact that is not
# an output of the property counts as upstream, and the facts of a block are read in dataflow order — script, invocations,
# polled state and value, event flags, deliveries, durations, the rest.  A scenario is then attributed to the property only
# if the very first difference between the two traces is one of the property's own output facts.
STRICT_RANK = {"pp": 1.7, "ps": 1.7, "pv": 1.7, "pvd": 1.7, "pe": 1.8, "sup": 1.8, "pd": 2.5}
STRICT_DROP = {"invorder", "evalorder", "glists", "rcp", "dpc", "dpd", "hasw", "pp", "pvd", "sup", "evb", "gorder", "gsets"}


# output facts a property shares with the condition law / the event table are not claimed in the strict reading
STRICT_NOT_OUT = {"C07": {"ps", "pd"}, "C09": {"ps", "dk", "ck"}, "C14": {"ps", "dpc", "dpd"}, "C02": {"dk"}}


def strict_view(prop, cfg, trace):
    base = CLASS[prop]["cls"]
    not_out = STRICT_NOT_OUT.get(prop, set())

    def cls(k):
        c = base(k)
        return None if (c == "out" and k in not_out) else c
    out = []
    for btype, facts in explode(cfg, trace):
        tagged = []
        for f in facts:
            k, x = f[0], f[1]
            c = cls(k)
            if c != "out":
                if k in STRICT_DROP:
                    continue            # derived facts: their sources are in the list already
                c = "up"
            tagged.append((c, k, x, f[2] if len(f) > 2 else None))
        blk = sort_block(prop, cfg, tagged, keep_log=prop not in ("C12", "C13"))
        blk.sort(key=lambda f: STRICT_RANK.get(f[1], rank(f[1])))
        out.append(blk)
    return out


def compare(prop, sc, impl_trace, model_trace, strict=False):
    """-> (verdict, detail) with verdict in {'same', 'out', 'up'}: see the module comment"""
    if impl_trace == model_trace:
        return "same", None
    cfg = Cfg(sc)
    mode = "seq" if strict else CLASS[prop]["mode"]
    if strict:
        vi, vm = strict_view(prop, cfg, impl_trace), strict_view(prop, cfg, model_trace)
    else:
        vi, vm = view(prop, cfg, impl_trace), view(prop, cfg, model_trace)
    for bi in range(max(len(vi), len(vm))):
        if bi >= len(vi) or bi >= len(vm):
            # one trace ended early (panic): the panic fact of the previous block decides; otherwise upstream
            return "up", dict(block=bi, note="traces have different numbers of blocks")
        fi, fm = vi[bi], vm[bi]
        if fi == fm:
            continue
        if mode == "block":
            ui, um = [f for f in fi if f[0] == "up"], [f for f in fm if f[0] == "up"]
            if ui != um:
                j = next((k for k in range(min(len(ui), len(um))) if ui[k] != um[k]), min(len(ui), len(um)))
                return "up", dict(block=bi, implementation=ui[j] if j < len(ui) else None, model=um[j] if j < len(um) else None)
            oi, om = [f for f in fi if f[0] == "out"], [f for f in fm if f[0] == "out"]
            j = next((k for k in range(min(len(oi), len(om))) if oi[k] != om[k]), min(len(oi), len(om)))
            return "out", dict(block=bi, implementation=oi[j] if j < len(oi) else None, model=om[j] if j < len(om) else None)
        j = next((k for k in range(min(len(fi), len(fm))) if fi[k] != fm[k]), min(len(fi), len(fm)))
        a = fi[j] if j < len(fi) else None
        b = fm[j] if j < len(fm) else None
        if a is None or b is None:
            tag = (a or b)[0]
        elif a[0] == b[0]:
            tag = a[0]
        else:
            ra, rb = rank(a[1]), rank(b[1])
            tag = a[0] if ra < rb else (b[0] if rb < ra else "up")
        return tag, dict(block=bi, implementation=a, model=b)
    return "same", None
