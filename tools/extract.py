#!/usr/bin/env python3
"""Extractor: re-reads /repo/src and regenerates lean/BEI/Gen/Tables.lean.

Regex-level translator for the *tables and constants* of the crate (the transition table of
`ActionEvents::new`, the flag order/bit values of `ActionEvents`, the variant order of `ActionState`,
the `ModKeys` left/right key table, numeric defaults).  Function bodies are tied to the model by the
correspondence check instead (DESIGN.md §1.3).  Any fragment that cannot be parsed raises ExtractError
naming the fragment; the caller reports that as a broken obligation.
"""
import re, struct, sys, os
from fractions import Fraction

class ExtractError(Exception):
    pass

REPO = os.environ.get("BEI_REPO", "/repo")

# protocol key pool (PROTOCOL.md §2)
KEYS = ["KeyA","KeyB","KeyC","KeyD","KeyE","KeyF","Space","Enter","AltLeft","AltRight","ControlLeft",
        "ControlRight","ShiftLeft","ShiftRight","SuperLeft","SuperRight","KeyW","KeyS"]
PAD_BUTTONS = ["South","East","North","West","DPadUp","DPadDown","DPadLeft","DPadRight"]
PAD_AXES = ["LeftStickX","LeftStickY","RightStickX","RightStickY"]

def read(rel):
    p = os.path.join(REPO, rel)
    try:
        return open(p).read()
    except OSError as e:
        raise ExtractError(f"cannot read {rel}: {e}")

def f32(lit):
    """exact rational denoted by an f32 literal"""
    x = struct.unpack('f', struct.pack('f', float(lit)))[0]
    return Fraction(x)

def rat(fr):
    fr = Fraction(fr)
    if fr.denominator == 1:
        return f"({fr.numerator} : Rat)"
    return f"(({fr.numerator} : Rat) / {fr.denominator})"

STATE = {"None": ".none", "Ongoing": ".ongoing", "Fired": ".fired"}
EV = {"STARTED": ".started", "ONGOING": ".ongoing", "FIRED": ".fired", "CANCELED": ".canceled", "COMPLETED": ".completed"}
MODBIT = {"ALT": ".alt", "CONTROL": ".control", "SHIFT": ".shift", "SUPER": ".super"}

def block_after(src, start_pat, what):
    m = re.search(start_pat, src)
    if not m:
        raise ExtractError(f"{what}: start pattern not found")
    i = src.index("{", m.end() - 1) if src[m.end()-1] != "{" else m.end() - 1
    depth = 0
    for j in range(i, len(src)):
        if src[j] == "{":
            depth += 1
        elif src[j] == "}":
            depth -= 1
            if depth == 0:
                return src[i+1:j]
    raise ExtractError(f"{what}: unbalanced braces")

def strip_comments(s):
    return re.sub(r"//[^\n]*", "", s)

# fragment -> the properties whose theorems or model depend on it (a fragment that can be obtained neither from the source
# text nor by execution is a broken obligation of exactly these properties)
FRAGMENTS = {
    "stateOrder": ["C03", "C04"],
    "flags": ["C01", "C02"],
    "table": ["C01", "C02"],
    "triggerOrder": ["C01"],
    "modkeys": ["C05", "C15"],
    "defaultActuation": ["C11"],
    "deadZoneDefaults": ["C18"],
    "dlerpSpeed": ["C18"],
    "dlerpEps": ["C18"],
    "sortedInsert": ["C06"],
}


def frag_stateOrder(src):
    ci = src["ci"]
    m = re.search(r"#\[derive\(([^)]*)\)\]\s*pub enum ActionState", ci)
    if not m or "Ord" not in [t.strip() for t in m.group(1).split(",")]:
        raise ExtractError("ActionState: derive(Ord) not found")
    body = strip_comments(block_after(ci, r"pub enum ActionState\s*\{", "ActionState"))
    body = re.sub(r"#\[[^\]]*\]", "", body)
    variants = [v.strip() for v in body.split(",") if v.strip()]
    if sorted(variants) != sorted(STATE):
        raise ExtractError(f"ActionState: unexpected variants {variants}")
    return {"stateOrder": variants}


def frag_flags(src):
    body = strip_comments(block_after(src["ev"], r"pub struct ActionEvents\s*:\s*u8\s*\{", "ActionEvents flags"))
    flags = re.findall(r"const\s+(\w+)\s*=\s*(0b[01_]+|0x[0-9a-fA-F_]+|\d+)\s*;", body)
    if sorted(n for n, _ in flags) != sorted(EV):
        raise ExtractError(f"ActionEvents: unexpected flags {flags}")
    return {"flags": [(n, int(v.replace("_", ""), 0)) for n, v in flags]}


def frag_table(src):
    ev = src["ev"]
    body = strip_comments(block_after(ev, r"pub fn new\(previous: ActionState, current: ActionState\) -> ActionEvents\s*\{", "ActionEvents::new"))
    mm = re.search(r"match\s*\(previous,\s*current\)\s*\{", body)
    if not mm:
        raise ExtractError("ActionEvents::new: `match (previous, current)` not found")
    arms_src = block_after(body, r"match\s*\(previous,\s*current\)\s*\{", "ActionEvents::new match")
    ARM = r"\(\s*ActionState::(\w+)\s*,\s*ActionState::(\w+)\s*\)\s*=>\s*(?:\{([^}]*)\}\s*,?|([^,{]*),)"
    arms = re.findall(ARM, arms_src)
    table = []
    for p, c, rhs1, rhs2 in arms:
        rhs = (rhs1 or rhs2).strip()
        if rhs == "ActionEvents::empty()":
            fl = []
        else:
            parts = [x.strip() for x in rhs.split("|")]
            fl = []
            for x in parts:
                m2 = re.fullmatch(r"ActionEvents::(\w+)", x)
                if not m2 or m2.group(1) not in EV:
                    raise ExtractError(f"ActionEvents::new: cannot parse arm rhs `{rhs}`")
                fl.append(m2.group(1))
        if p not in STATE or c not in STATE:
            raise ExtractError(f"ActionEvents::new: unknown state in arm ({p},{c})")
        table.append((p, c, fl))
    if len(table) != 9 or len({(p, c) for p, c, _ in table}) != 9:
        raise ExtractError(f"ActionEvents::new: expected 9 distinct arms, got {len(table)}")
    residue = re.sub(ARM, "", arms_src).strip()
    if residue:
        raise ExtractError(f"ActionEvents::new: unparsed residue `{residue[:60]}`")
    return {"table": table}


def frag_triggerOrder(src):
    ci = src["ci"]
    if "self.events.iter_names()" not in ci:
        raise ExtractError("trigger_events_typed: iteration over `self.events.iter_names()` not found")
    te = block_after(ci, r"fn trigger_events_typed<A: InputAction>\(&self, commands: &mut Commands, entities: &\[Entity\]\)\s*\{", "trigger_events_typed")
    pairs = re.findall(r"ActionEvents::(\w+)\s*=>\s*\{\s*trigger_for_each\(\s*commands,\s*entities,\s*(\w+)::<A>", te)
    want = {"STARTED": "Started", "ONGOING": "Ongoing", "FIRED": "Fired", "CANCELED": "Canceled", "COMPLETED": "Completed"}
    if dict(pairs) != want:
        raise ExtractError(f"trigger_events_typed: flag -> event mapping is {pairs}")
    return {}


def frag_modkeys(src):
    inp = src["inp"]
    body = strip_comments(block_after(inp, r"pub struct ModKeys\s*:\s*u8\s*\{", "ModKeys flags"))
    mflags = re.findall(r"const\s+(\w+)\s*=\s*(0b[01_]+|\d+)\s*;", body)
    if sorted(n for n, _ in mflags) != sorted(MODBIT):
        raise ExtractError(f"ModKeys: unexpected flags {mflags}")
    ik = block_after(inp, r"pub fn iter_keys\(self\)[^{]*\{", "ModKeys::iter_keys")
    arms = re.findall(r"ModKeys::(\w+)\s*=>\s*\[\s*KeyCode::(\w+)\s*,\s*KeyCode::(\w+)\s*\]", ik)
    if sorted(a for a, _, _ in arms) != sorted(MODBIT):
        raise ExtractError(f"ModKeys::iter_keys: arms {arms}")
    armd = {a: (l, r) for a, l, r in arms}
    mk = []
    for n, v in mflags:
        l, r = armd[n]
        if l not in KEYS or r not in KEYS:
            raise ExtractError(f"ModKeys::iter_keys: key {l}/{r} not in the protocol pool")
        mk.append((n, int(v.replace("_", ""), 0), KEYS.index(l), KEYS.index(r)))
    return {"modkeys": mk}


def frag_defaultActuation(src):
    m = re.search(r"pub const DEFAULT_ACTUATION: f32 = ([0-9.eE+-]+);", read("src/input_context/input_condition.rs"))
    if not m:
        raise ExtractError("DEFAULT_ACTUATION not found")
    return {"defaultActuation": f32(m.group(1))}


def frag_deadZoneDefaults(src):
    dz = read("src/input_context/input_modifier/dead_zone.rs")
    m = re.search(r"lower_threshold:\s*([0-9.eE+-]+),\s*upper_threshold:\s*([0-9.eE+-]+),", dz)
    if not m:
        raise ExtractError("DeadZone::new defaults not found")
    return {"dzLower": f32(m.group(1)), "dzUpper": f32(m.group(2))}


def frag_dlerpSpeed(src):
    m = re.search(r"Self::new\(([0-9.eE+-]+)\)", read("src/input_context/input_modifier/delta_lerp.rs"))
    if not m:
        raise ExtractError("DeltaLerp default speed not found")
    return {"dlerpSpeed": f32(m.group(1))}


def frag_dlerpEps(src):
    text = read("src/input_context/input_modifier/delta_lerp.rs")
    m = re.search(r"distance_squared\(target_value\)\s*<\s*([0-9.eE+-]+)", text)
    if m:
        return {"dlerpEps": f32(m.group(1))}
    # the comparison was rearranged (a hoisted local, a named constant): the snap distance is the one float literal of the
    # non-test code of this file that is compared with `<` / `<=` and is neither 0 nor 1
    body = strip_comments(text.split("#[cfg(test)]")[0])
    body = body[body.find("fn apply"):] if "fn apply" in body else body
    lits = {l for l in re.findall(r"(?<![\w.])(\d+\.\d+(?:[eE][+-]?\d+)?|\d+[eE][+-]?\d+)(?:_?f32)?", body)
            if float(l) not in (0.0, 1.0)}
    if len(lits) == 1 and re.search(r"<=?", body):
        return {"dlerpEps": f32(lits.pop())}
    raise ExtractError("DeltaLerp snap epsilon not found")


def frag_sortedInsert(src):
    ic2 = read("src/input_context.rs")
    if not re.search(r"let priority = Reverse\(C::PRIORITY\);", ic2) or \
       not re.search(r"binary_search_by_key\(&priority,\s*\|group\|\s*Reverse\(group\.priority\(\)\)\)", ic2):
        raise ExtractError("ContextInstances::add: sorted insert by Reverse(priority) not found")
    return {}


def executed_tables():
    """the same tables obtained by executing the crate's public API (`bei_harness --tables`); {} if unavailable"""
    import subprocess
    exe = os.environ.get("BEI_HARNESS", "/verif/harness/target/release/bei_harness")
    try:
        txt = subprocess.run([exe, "--tables"], capture_output=True, text=True, timeout=60).stdout
    except Exception:
        return {}
    o = {"flags": None, "table": [], "modkeys": []}
    try:
        for l in txt.splitlines():
            t = l.split(" ")
            if t[0] == "stateOrder":
                o["stateOrder"] = t[1:]
            elif t[0] == "flags":
                o["flags"] = [(x.split("=")[0], int(x.split("=")[1])) for x in t[1:]]
            elif t[0] == "table":
                o["table"].append((t[1], t[2], [x for x in t[3:] if x]))
            elif t[0] == "modkey":
                o["modkeys"].append((t[1], int(t[2]), KEYS.index(t[3]), KEYS.index(t[4])))
            elif t[0] in ("defaultActuation", "dzLower", "dzUpper", "dlerpSpeed"):
                o[t[0]] = Fraction(t[1])
    except Exception:
        return {}
    if len(o["table"]) != 9 or not o["flags"] or len(o["modkeys"]) != 4:
        return {}
    return o


FRAG_KEYS = {"stateOrder": ["stateOrder"], "flags": ["flags"], "table": ["table"], "triggerOrder": [], "modkeys": ["modkeys"],
             "defaultActuation": ["defaultActuation"], "deadZoneDefaults": ["dzLower", "dzUpper"], "dlerpSpeed": ["dlerpSpeed"],
             "dlerpEps": ["dlerpEps"], "sortedInsert": []}


def extract():
    """-> (values, status) with status[fragment] = 'source' | 'executed' | 'FAILED: …'"""
    src = {}
    status = {}
    for key, rel in (("ci", "src/input_context/context_instance.rs"), ("ev", "src/input_context/events.rs"), ("inp", "src/input.rs")):
        try:
            src[key] = read(rel)
        except ExtractError:
            src[key] = ""
    out = {}
    fallback = None
    for frag in FRAGMENTS:
        try:
            out.update(globals()["frag_" + frag](src))
            status[frag] = "source"
        except ExtractError as e:
            if fallback is None:
                fallback = executed_tables()
            keys = FRAG_KEYS[frag]
            if keys and all(k in fallback and fallback[k] for k in keys):
                for k in keys:
                    out[k] = fallback[k]
                status[frag] = f"executed (source text not recognised: {e})"
            elif not keys:
                # a structural pattern without a value (delivery order, sorted insertion): what it stands for is observed
                # by the correspondence itself (`dk` order inside an action, `gorder`), so this is informational
                status[frag] = f"unrecognised, informational (covered by the correspondence): {e}"
            else:
                status[frag] = f"FAILED: {e}"
    return out, status


def previous_values(dest):
    """values of the last generated file (kept for fragments that can no longer be obtained, so that the model still builds)"""
    side = dest + ".json"
    if os.path.exists(side):
        import json
        raw = json.load(open(side))
        o = {}
        for k, v in raw.items():
            if k in ("defaultActuation", "dzLower", "dzUpper", "dlerpSpeed", "dlerpEps"):
                o[k] = Fraction(v)
            elif k == "flags":
                o[k] = [tuple(x) for x in v]
            elif k == "table":
                o[k] = [(p, c, list(fl)) for p, c, fl in v]
            elif k == "modkeys":
                o[k] = [tuple(x) for x in v]
            else:
                o[k] = v
        return o
    return {}


def render(o):
    L = []
    L.append("/- GENERATED by /verif/tools/extract.py from /repo/src on every run. Do not edit. -/")
    L.append("import BEI.Model.Base")
    L.append("namespace BEI.Gen")
    L.append("")
    L.append("/-- variant order of `enum ActionState` (its `derive(Ord)` significance order, least first) -/")
    L.append("def stateOrder : List AState := [" + ", ".join(STATE[v] for v in o["stateOrder"]) + "]")
    L.append("")
    L.append("/-- flags of `ActionEvents` in declaration order (= `iter_names` order) with their bit values -/")
    L.append("def flags : List (EvKind × Nat) := [" + ", ".join(f"({EV[n]}, {v})" for n, v in o["flags"]) + "]")
    L.append("")
    L.append("/-- the match arms of `ActionEvents::new(previous, current)` -/")
    L.append("def eventsNew : List (AState × AState × List EvKind) := [")
    L.append(",\n".join(f"  ({STATE[p]}, {STATE[c]}, [" + ", ".join(EV[f] for f in fl) + "])" for p, c, fl in o["table"]))
    L.append("]")
    L.append("")
    L.append("/-- `ModKeys` flags: (bit, value, left key, right key) with keys as protocol pool indices -/")
    L.append("def modKeys : List (ModBit × Nat × Nat × Nat) := [" + ", ".join(f"({MODBIT[n]}, {v}, {l}, {r})" for n, v, l, r in o["modkeys"]) + "]")
    L.append("")
    L.append(f"def defaultActuation : Rat := {rat(o['defaultActuation'])}")
    L.append(f"def dzDefaultLower : Rat := {rat(o['dzLower'])}")
    L.append(f"def dzDefaultUpper : Rat := {rat(o['dzUpper'])}")
    L.append(f"def dlerpDefaultSpeed : Rat := {rat(o['dlerpSpeed'])}")
    L.append(f"def dlerpSnapEps : Rat := {rat(o['dlerpEps'])}")
    L.append("")
    L.append("end BEI.Gen")
    return "\n".join(L) + "\n"

def main():
    import json
    dest = sys.argv[1] if len(sys.argv) > 1 else "/verif/lean/BEI/Gen/Tables.lean"
    o, status = extract()
    prev = previous_values(dest)
    needed = ["stateOrder", "flags", "table", "modkeys", "defaultActuation", "dzLower", "dzUpper", "dlerpSpeed", "dlerpEps"]
    for k in needed:
        if k not in o:
            if k in prev:
                o[k] = prev[k]          # stale value: the fragment is reported FAILED, the file merely stays buildable
            else:
                print(f"EXTRACT-ERROR fragment {k} unavailable and no previous value")
                sys.exit(4)
    txt = render(o)
    old = open(dest).read() if os.path.exists(dest) else None
    if old != txt:
        open(dest, "w").write(txt)
    if not any(v.startswith("FAILED") for v in status.values()):
        side = {k: (str(v) if isinstance(v, Fraction) else v) for k, v in o.items()}
        new_side = json.dumps(side, indent=1, sort_keys=True)
        if not os.path.exists(dest + ".json") or open(dest + ".json").read() != new_side:
            open(dest + ".json", "w").write(new_side)
    for frag, st in status.items():
        print(f"FRAGMENT {frag} [{','.join(FRAGMENTS[frag])}] {st}")
    print("extract ok" if all(v == "source" for v in status.values()) else "extract partial")

if __name__ == "__main__":
    main()
