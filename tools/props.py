"""Per-property configuration: scenario streams (generators) and the projection of the trace that the
property determines.  See DESIGN.md §5.

A stream is a function (rng_seed, tier) -> list of scenarios (each a list of lines).
The projection keeps the lines (and fields) the property talks about; model and implementation are compared on
the projection only (differences outside it are counted and reported in the evidence, not as a violation of
this property).
"""
import itertools, random
from fractions import Fraction as Fr
import gen
from gen import Profile, q

# ------------------------------------------------------------------ projections

def proj_lines(kinds, poll_fields=None, dlv_fields=None):
    """keep only lines whose first token is in `kinds`; optionally keep only some fields of poll / dlv lines"""
    def f(trace):
        out = []
        for l in trace:
            t = l.split(" ")
            k = t[0]
            if k not in kinds:
                continue
            if k == "poll" and poll_fields is not None:
                out.append(" ".join(t[i] for i in poll_fields))
            elif k == "dlv" and dlv_fields is not None:
                out.append(" ".join(t[i] for i in dlv_fields))
            else:
                out.append(l)
        return out
    return f

# poll: 0 poll 1 e 2 c 3 a 4 state 5 events 6 value 7 elapsed 8 fired
# dlv : 0 dlv 1 e 2 a 3 kind 4 state 5 value 6 elapsed 7 fired
ALL = {"op", "frame", "inv", "dlv", "poll", "has", "groups", "endframe", "panic", "r", "error", "probe", "sched"}
P_ALL = proj_lines(ALL)
P_NO_INV = proj_lines(ALL - {"inv"})
P_EVENTS = proj_lines({"op", "frame", "dlv", "poll", "endframe", "panic"})
P_LIFECYCLE = proj_lines({"op", "frame", "dlv", "poll", "has", "endframe", "panic"}, poll_fields=[0, 1, 2, 3, 4])
P_STATEVAL = proj_lines({"op", "frame", "inv", "poll", "endframe", "panic"}, poll_fields=[0, 1, 2, 3, 4, 6])
P_REGISTRY = proj_lines({"op", "frame", "poll", "has", "groups", "endframe", "panic"}, poll_fields=[0, 1, 2, 3, 4, 6])
P_DURATIONS = proj_lines({"op", "frame", "dlv", "poll", "endframe", "panic"}, poll_fields=[0, 1, 2, 3, 4, 7, 8],
                         dlv_fields=[0, 1, 2, 3, 4, 6, 7])
P_INVOC = proj_lines({"frame", "inv", "endframe", "panic"})
P_RECIPIENTS = proj_lines({"op", "frame", "dlv", "poll", "endframe", "panic"})
P_UNIT = proj_lines({"r", "panic", "error"})

# ------------------------------------------------------------------ app streams

RAWDIM = {"key": 0, "mbtn": 0, "padbtn": 0, "padaxis": 1, "motion": 2, "wheel": 2}


def with_loggers(scenarios, first_id=9000):
    """gives every `in` item of hand-written scenarios a logging identity modifier in front (the `raw` fact of tools/facts.py)"""
    out = []
    for sc in scenarios:
        i = first_id
        new = []
        for l in sc:
            new.append(l)
            t = l.split()
            if t[0] == "in":
                new.append(f"imod {i} sadd {RAWDIM[t[1]]} 0 0 0")
                i += 1
        out.append(new)
    return out


# Streams of the "core flow" properties use only the harness' scripted conditions and custom modifiers, so that what they
# exercise does not depend on the built-in conditions / modifiers (which have their own properties C11 / C13 / C18).
SCRIPTED = ["sscript"] * 4 + ["sact"] * 2
CUSTOM_MODS = ["sadd", "sconv"]
# ... and, where consumption is not the subject, only actions that do not consume their inputs, so that the order in which
# contexts and actions are evaluated (C06, C13) and what is consumed (C05) cannot reach them
NONCONSUMING = [a for a in range(32) if (a // 4) % 2 == 1]
# ... and, where the device is not the subject, plain keys and mouse buttons without modifier requirements (what exactly a
# binding reads from which device is C15 / C16 / C05 / C08)
PLAIN = dict(input_kinds=["key"] * 4 + ["mbtn"], modmask_p=0.0, pads=(0, 0))


def stream_app(prof, n_quick, n_thorough, prefix):
    def f(seed, tier):
        n = n_quick if tier == "quick" else n_thorough
        return gen.app_batch(seed, n, prof, prefix)
    return f


def scripted_states_scenarios(prefix, length):
    """all state sequences of the given length for every output type, driven by one scripted condition"""
    out = []
    i = 0
    for dim in range(4):
        for seq in itertools.product([0, 1, 2], repeat=length):
            lines = [f"scenario {prefix}{i}", "ctx 0 0 any", f"act {dim}", "acond 1 sscript 0 " + " ".join(map(str, seq)),
                     "amod 2 sadd %d 1 1/2 -1" % dim, "spawn 0", "insert 0 0 0"]
            lines += ["frame"] * (length + 1)
            lines.append("endscenario")
            out.append(lines)
            i += 1
    return out


def c01_streams(seed, tier):
    prof = Profile(**PLAIN, actions=NONCONSUMING, cond_kinds=SCRIPTED, mod_kinds=CUSTOM_MODS, n_aconds=(0, 2), n_iconds=(0, 2), lifecycle_p=0.03)
    n = 400 if tier == "quick" else 20000
    sc = gen.app_batch(seed, n, prof, "c01r")
    sc += scripted_states_scenarios("c01x", 3 if tier == "quick" else 4)
    return sc


def c02_streams(seed, tier):
    prof = Profile(**PLAIN, actions=NONCONSUMING, cond_kinds=SCRIPTED, mod_kinds=CUSTOM_MODS, lifecycle_p=0.25, react_p=0.5, post_p=0.1, n_entities=(1, 3),
                   n_ctx=(1, 3), n_frames=(6, 20))
    n = 400 if tier == "quick" else 15000
    sc = gen.app_batch(seed, n, prof, "c02r")
    sc += lifecycle_exhaustive("c02x", 3 if tier == "quick" else 4)
    return sc


def lifecycle_exhaustive(prefix, length, ents=(0, 1), ctxs=(0, 1)):
    """all op sequences of the given length over 2 entities x {exclusive 0, shared 1}, one held key keeping an
    episode open (a `hold` makes it pass through Ongoing, then Fired)"""
    base_ops = []
    for e in ents:
        for c in ctxs:
            base_ops += [f"insert {e} {c} 0", f"remove {e} {c}"]
        base_ops.append(f"despawn {e}")
    base_ops.append("rebuild")
    out = []
    i = 0
    for seq in itertools.product(base_ops, repeat=length):
        lines = [f"scenario {prefix}{i}",
                 "ctx 0 0 any", "act 0", "in key 0 0", "icond 1 hold 1/32 0 1/2 0",
                 "ctx 1 0 any", "act 5", "in key 0 0", "act 6", "in key 1 0", "icond 2 release 1/2",
                 "spawn 0", "spawn 1", "insert 0 0 0", "insert 1 1 0", "frame", "key 0 1", "key 1 1", "frame", "frame"]
        for o in seq:
            lines += [o, "frame"]
        lines += ["key 0 0", "frame", "frame", "endscenario"]
        out.append(lines)
        i += 1
    return out


def c03_exhaustive(prefix, maxlen):
    """all sequences over (kind, result) letters up to maxlen, at input level, action level and both"""
    letters = [(k, r) for k in range(4) for r in range(3)]
    out = []
    i = 0
    for n in range(0, maxlen + 1):
        for seq in itertools.product(letters, repeat=n):
            for level in ("i", "a", "b"):
                lines = [f"scenario {prefix}{i}", "ctx 0 0 any", "act 1"]
                i += 1
                cid = 1
                acond, icond = [], []
                for j, (k, r) in enumerate(seq):
                    tgt = icond if level == "i" or (level == "b" and j % 2 == 0) else acond
                    tgt.append(f"{cid} sscript {k} {r} {(r + 1) % 3}")
                    cid += 1
                for c in acond:
                    lines.append("acond " + c)
                lines.append("in key 0 0")
                for c in icond:
                    lines.append("icond " + c)
                lines += ["spawn 0", "insert 0 0 0", "frame", "key 0 1", "frame", "frame", "key 0 0", "frame", "endscenario"]
                out.append(lines)
    return out


def c03_streams(seed, tier):
    prof = Profile(**PLAIN, actions=NONCONSUMING, cond_kinds=SCRIPTED, n_iconds=(0, 4), n_aconds=(0, 4),
                   n_inputs=(1, 3), n_actions=(1, 2), n_ctx=(1, 1), n_entities=(1, 1), lifecycle_p=0.0,
                   mod_kinds=CUSTOM_MODS)
    n = 300 if tier == "quick" else 10000
    return c03_exhaustive("c03x", 2 if tier == "quick" else 3) + gen.app_batch(seed, n, prof, "c03r")


def c04_streams(seed, tier):
    prof = Profile(actions=NONCONSUMING, n_inputs=(0, 5), n_imods=(0, 3), n_amods=(0, 3), n_iconds=(0, 1), n_aconds=(0, 1),
                   cond_kinds=SCRIPTED, mod_kinds=["sconv", "sadd", "sadd"], log_raw_p=1.0,
                   n_ctx=(1, 2), lifecycle_p=0.02, toggle_p=0.45)
    return gen.app_batch(seed, 500 if tier == "quick" else 25000, prof, "c04r")


def c05_streams(seed, tier):
    prof = Profile(n_ctx=(2, 4), n_actions=(1, 3), n_inputs=(1, 3), keys=[0, 1], modmask_p=0.45,
                   input_kinds=["key"] * 5 + ["mbtn"] * 2 + ["motion", "wheel", "padbtn", "padaxis"],
                   cond_kinds=SCRIPTED, n_imods=(0, 1), n_amods=(0, 0), log_raw_p=1.0,
                   mod_kinds=CUSTOM_MODS, toggle_p=0.5, lifecycle_p=0.02,
                   actions=[0, 1, 2, 3, 4, 5, 6, 7, 16, 17, 20, 21], pad_ctx_p=0.0)
    return gen.app_batch(seed, 500 if tier == "quick" else 20000, prof, "c05r")


def c06_permutations(prefix, k):
    """all insertion orders of k context types contesting one key with consuming actions, then removals/re-insertions"""
    out = []
    i = 0
    types = list(range(6))
    for subset in itertools.combinations(types, k):
        for perm in itertools.permutations(subset):
            lines = [f"scenario {prefix}{i}"]
            i += 1
            for c in range(6):
                lines += [f"ctx {c} 0 any", f"act {c}", "in key 0 0"]      # actions 0..5: 0-3 consume, 4,5 do not
            lines += ["spawn 0", "spawn 1"]
            for j, c in enumerate(perm):
                lines.append(f"insert {j % 2} {c} 0")
            lines += ["frame", "key 0 1", "frame", "frame"]
            # remove the current winner, re-insert it, rebuild
            lines += [f"remove 0 {perm[0]}", "frame", f"insert 1 {perm[0]} 0", "frame", "key 0 0", "frame", "key 0 1", "frame",
                      "rebuild", "frame", "key 0 0", "frame", "key 0 1", "frame", "endscenario"]
            out.append(lines)
    return out


def c06_streams(seed, tier):
    prof = Profile(n_ctx=(3, 6), n_actions=(1, 2), n_inputs=(1, 2), keys=[0, 1], lifecycle_p=0.3, n_entities=(2, 3),
                   cond_kinds=SCRIPTED, n_iconds=(0, 1), n_aconds=(0, 0), n_imods=(0, 0), n_amods=(0, 0), log_raw_p=1.0,
                   input_kinds=["key"], actions=[0, 1, 2, 3, 16, 17], modmask_p=0.0, pads=(0, 0))
    sc = c06_permutations("c06x", 3 if tier == "quick" else 4)
    if tier != "quick":
        sc += c06_permutations("c06y", 6)
    sc = with_loggers(sc)
    return sc + gen.app_batch(seed, 300 if tier == "quick" else 8000, prof, "c06r")


def c07_streams(seed, tier):
    prof = \
        Profile(script_kinds=[0], **PLAIN, actions=NONCONSUMING, n_ctx=(2, 4), n_entities=(2, 3), lifecycle_p=0.6, post_p=0.1, react_p=0.2, n_frames=(6, 16),
                n_actions=(1, 2), n_inputs=(1, 2), keys=[0, 1], cond_kinds=SCRIPTED, mod_kinds=CUSTOM_MODS, n_variants=(1, 3))
    sc = gen.app_batch(seed, 400 if tier == "quick" else 12000, prof, "c07r")
    sc += lifecycle_exhaustive("c07x", 3 if tier == "quick" else 4)
    return sc


def c08_streams(seed, tier):
    prof = Profile(actions=NONCONSUMING, held_at_insert_p=0.9, lifecycle_p=0.25, n_ctx=(2, 3), keys=[0, 1, 2], modmask_p=0.4, toggle_p=0.3,
                   cond_kinds=SCRIPTED, mod_kinds=CUSTOM_MODS, n_iconds=(0, 2), n_aconds=(0, 1), log_raw_p=1.0,
                   ui_p=0.1, input_kinds=["key"] * 5 + ["mbtn"] * 2 + ["padbtn", "padaxis"])
    return gen.app_batch(seed, 400 if tier == "quick" else 15000, prof, "c08r") + with_loggers(c08_directed())


def c08_directed():
    """contexts created while keys are held, above and below a context that consumes the same key (D6 corpus shape)"""
    out = []
    i = 0
    for newc, cond in itertools.product([0, 4], ["press 1/2", "justpress 1/2", "hold 1/32 0 1/2 0"]):
        for hold_frames in (1, 3):
            lines = [f"scenario c08d{i}"]
            i += 1
            lines += ["ctx 2 0 any", "act 0", "in key 0 0", f"icond 1 {cond}",
                      f"ctx {newc} 0 any", "act 1", "in key 0 0", "act 2", "in key 1 2",
                      "spawn 0", "insert 0 2 0", "frame", "key 0 1", "key 10 1", "key 1 1", "frame",
                      f"insert 0 {newc} 0"] + ["frame"] * hold_frames + ["key 0 0", "frame", "key 0 1", "frame", "key 1 0", "frame",
                      "key 1 1", "frame", "rebuild", "frame", "frame", "key 0 0", "key 1 0", "frame", "key 0 1", "key 1 1", "frame",
                      "endscenario"]
            out.append(lines)
    return out


def c10_streams(seed, tier):
    prof = Profile(**PLAIN, actions=NONCONSUMING, cond_kinds=SCRIPTED, mod_kinds=CUSTOM_MODS, time_p=0.5, n_ctx=(1, 2), lifecycle_p=0.03,
                   n_aconds=(0, 2), n_iconds=(0, 1))
    return gen.app_batch(seed, 400 if tier == "quick" else 15000, prof, "c10r") + scripted_states_scenarios("c10x", 3)


def c12_streams(seed, tier):
    prof = Profile(actions=NONCONSUMING, modmask_p=0.4, pads=(0, 0), n_imods=(0, 3), n_iconds=(0, 3), n_amods=(0, 3), n_aconds=(0, 3), n_inputs=(0, 4), held_at_insert_p=0.0,
                   cond_kinds=SCRIPTED, mod_kinds=CUSTOM_MODS, lifecycle_p=0.0)
    return gen.app_batch(seed, 400 if tier == "quick" else 15000, prof, "c12r")


def c13_orders(prefix):
    """contexts with 3 actions in all binding orders, with chord / block-by / accumulate-by references forwards,
    backwards, to self and to an absent action"""
    out = []
    i = 0
    acts = [1, 5, 9]
    for perm in itertools.permutations(acts):
        for ref_kind in ("chord", "blockby0", "blockby1", "accby"):
            for tgt in acts + [13]:
                lines = [f"scenario {prefix}{i}", "ctx 0 0 any"]
                i += 1
                for j, a in enumerate(perm):
                    lines.append(f"act {a}")
                    if a == 1:
                        if ref_kind == "chord":
                            lines.append(f"acond 1 chord {tgt}")
                        elif ref_kind == "blockby0":
                            lines.append(f"acond 1 blockby {tgt} 0")
                        elif ref_kind == "blockby1":
                            lines.append(f"acond 1 blockby {tgt} 1")
                        else:
                            lines.append(f"amod 1 accby {tgt}")
                    lines.append(f"in key {j} 0")
                    if a == 5:
                        lines.append("icond 2 hold 1/32 0 1/2 0")
                # re-bind the first action: must extend in place
                lines += [f"act {perm[0]}", "in key 3 0"]
                lines += ["spawn 0", "insert 0 0 0", "frame"]
                for ks in ([0], [0, 1], [0, 1, 2], [1, 2], [2, 3], [3], []):
                    for k in range(4):
                        lines.append(f"key {k} {1 if k in ks else 0}")
                    lines += ["frame", "frame"]
                lines.append("endscenario")
                out.append(lines)
    return out


def c13_streams(seed, tier):
    prof = Profile(**PLAIN, n_actions=(2, 5), cond_kinds=["chord", "chord", "blockby", "blockby"] + SCRIPTED[:3],
                   mod_kinds=["accby", "accby"] + CUSTOM_MODS, n_ctx=(1, 2), rebind_p=0.5, n_amods=(0, 2), n_aconds=(0, 2),
                   actions=NONCONSUMING[:12], lifecycle_p=0.02)
    return c13_orders("c13x") + gen.app_batch(seed, 300 if tier == "quick" else 15000, prof, "c13r")


def c14_streams(seed, tier):
    prof = Profile(script_kinds=[0], actions=NONCONSUMING, n_entities=(2, 4), ctx_pool=[0, 1, 2, 3, 5], n_ctx=(2, 3), lifecycle_p=0.35, react_p=0.3, n_variants=(1, 3),
                   pads=(0, 2), pad_ctx_p=0.5, cond_kinds=SCRIPTED, mod_kinds=CUSTOM_MODS)
    return gen.app_batch(seed, 400 if tier == "quick" else 12000, prof, "c14r")


def c15_masks(prefix):
    """one key and one mouse button bound with every modifier mask; every subset of the eight modifier keys"""
    out = []
    i = 0
    for mask in range(16):
        lines = [f"scenario {prefix}{i}", "ctx 0 0 any", "act 4", f"in key 0 {mask}", "act 20", f"in mbtn 0 {mask}",
                 "act 6", f"in motion {mask}", "act 22", f"in wheel {mask}", "spawn 0", "insert 0 0 0", "frame",
                 "key 0 1", "mb 0 1"]
        i += 1
        prev = 0
        for sub in range(256):
            # Gray code walk over subsets of keys 8..15
            g = sub ^ (sub >> 1)
            ch = g ^ prev
            for b in range(8):
                if ch & (1 << b):
                    lines.append(f"key {8 + b} {1 if g & (1 << b) else 0}")
            prev = g
            if sub % 3 == 0:
                lines.append("motion 1 -1/2")
                lines.append("wheel 0 2")
            if sub % 7 == 0:
                lines.append(f"key 1 {(sub // 7) % 2}")        # unrelated key
            lines.append("frame")
        lines.append("endscenario")
        out.append(lines)
    return out


def c15_streams(seed, tier):
    prof = Profile(modmask_p=0.6, pads=(1, 3), pad_ctx_p=0.5, noise_keys=[4, 5, 6], n_ctx=(1, 3),
                   input_kinds=["key"] * 3 + ["mbtn"] * 2 + ["motion", "wheel", "padbtn", "padbtn", "padaxis", "padaxis"],
                   cond_kinds=SCRIPTED, n_iconds=(0, 1), n_aconds=(0, 0), n_imods=(0, 1), n_amods=(0, 0), log_raw_p=1.0,
                   mod_kinds=CUSTOM_MODS, actions=[4, 5, 6, 7, 20, 21, 22, 23, 28, 29], lifecycle_p=0.0)
    sc = gen.app_batch(seed, 300 if tier == "quick" else 15000, prof, "c15r")
    sc += with_loggers(c15_masks("c15x") if tier != "quick" else c15_masks("c15x")[:16:3])
    return sc


def c16_streams(seed, tier):
    prof = Profile(ui_p=0.35, modmask_p=0.3, pads=(0, 2), n_ctx=(1, 3),
                   input_kinds=["key"] * 2 + ["mbtn"] * 3 + ["motion"] * 2 + ["wheel"] * 2 + ["padbtn", "padaxis"],
                   cond_kinds=SCRIPTED, mod_kinds=CUSTOM_MODS, n_iconds=(0, 1), n_aconds=(0, 1), lifecycle_p=0.0, log_raw_p=1.0,
                   actions=[4, 5, 6, 7, 20, 21, 22, 23, 28, 29])
    return gen.app_batch(seed, 300 if tier == "quick" else 10000, prof, "c16r")


# ------------------------------------------------------------------ unit streams

GRID = [Fr(-2), Fr(-1), Fr(-1, 2), Fr(0), Fr(1, 2), Fr(1), Fr(2)]


def values_grid(grid=GRID):
    vs = ["b0", "b1"]
    vs += [f"1:{q(x)}" for x in grid]
    vs += [f"2:{q(x)},{q(y)}" for x in grid for y in grid]
    vs += [f"3:{q(x)},{q(y)},{q(z)}" for x in grid for y in grid for z in grid]
    return vs


def rand_value(r, dim=None):
    d = r.randint(0, 3) if dim is None else dim
    def c():
        return q(Fr(r.randint(-64, 64), r.choice([1, 2, 4, 8, 16, 32])))
    if d == 0:
        return f"b{r.randint(0, 1)}"
    return f"{d}:" + ",".join(c() for _ in range(d))


def c20_streams(seed, tier):
    r = random.Random(seed)
    vs = values_grid()
    scs = []
    lines = []
    def flush():
        nonlocal lines
        if lines:
            scs.append([f"scenario c20u{len(scs)}"] + lines + ["endscenario"])
            lines = []
    for v in vs:
        for d in range(4):
            lines.append(f"u convert {v} {d}")
        lines += [f"u asbool {v}", f"u as1 {v}", f"u as2 {v}", f"u as3 {v}"]
        for t in GRID + [Fr(3, 2), Fr(5, 2), Fr(3)]:
            lines.append(f"u actuated {v} {q(t)}")
        if len(lines) > 400:
            flush()
    for d in range(4):
        lines.append(f"u zero {d}")
    # extreme magnitudes (f32 squares of these under- or overflow): conversions and truthiness must not go through a squared
    # length (seeded change T31).  `actuated` is left out: it *is* a comparison of squares, where f32 legitimately differs from
    # exact arithmetic at these magnitudes.
    tiny, huge = Fr(1, 2 ** 100), Fr(2 ** 100)
    ext = [f"1:{q(x)}" for x in (tiny, -tiny, huge)]
    ext += [f"2:{q(x)},{q(y)}" for x in (0, tiny, -tiny, huge) for y in (0, tiny, -huge) if (x, y) != (0, 0)]
    ext += [f"3:{q(x)},{q(y)},{q(z)}" for x in (0, tiny) for y in (0, -tiny) for z in (0, tiny, huge) if (x, y, z) != (0, 0, 0)]
    for v in ext:
        for d in range(4):
            lines.append(f"u convert {v} {d}")
        lines += [f"u asbool {v}", f"u as1 {v}", f"u as2 {v}", f"u as3 {v}"]
    n = 2000 if tier == "quick" else 100000
    for _ in range(n):
        v = rand_value(r)
        lines.append(f"u convert {v} {r.randint(0, 3)}")
        lines.append(f"u asbool {v}")
        lines.append(f"u actuated {v} {q(Fr(r.randint(-64, 64), r.choice([1, 2, 4, 8])))}")
        if len(lines) > 400:
            flush()
    flush()
    return scs


COND_PARAMS = {
    "press": lambda a: [f"press {a}"],
    "justpress": lambda a: [f"justpress {a}"],
    "release": lambda a: [f"release {a}"],
    "hold": lambda a: [f"hold {q(T)} {os} {a} {rel}" for T in (Fr(1, 32), Fr(1, 16), Fr(1, 8)) for os in (0, 1) for rel in (0, 1)],
    "holdrel": lambda a: [f"holdrel {q(T)} {a} {rel}" for T in (Fr(1, 32), Fr(1, 16), Fr(1, 8)) for rel in (0, 1)],
    "tap": lambda a: [f"tap {q(T)} {a} {rel}" for T in (Fr(1, 32), Fr(1, 16), Fr(1, 8)) for rel in (0, 1)],
    "pulse": lambda a: [f"pulse {q(I)} {lim} {os} {a} {rel}" for I in (Fr(1, 32), Fr(1, 16)) for lim in (0, 1, 2) for os in (0, 1)
                        for rel in (0, 1)],
}


def c11_unit(seed, tier):
    """direct `evaluate` calls: exhaustive actuation sequences x delta grid x thresholds around the boundary"""
    r = random.Random(seed)
    maxlen = 5 if tier == "quick" else 7
    deltas = [Fr(0), Fr(1, 64), Fr(1, 32), Fr(1, 16), Fr(1, 4)]
    speeds = [Fr(0), Fr(1, 4), Fr(1, 2), Fr(1), Fr(2), Fr(4)]
    # value levels around actuation 1/2: below, on, above
    levels = {0: "1:0", 1: "1:1/2", 2: "1:1"}
    scs = []
    i = 0
    specs = []
    for k, f in COND_PARAMS.items():
        specs += f("1/2")
    for spec in specs:
        lines = []
        seqs = list(itertools.product([0, 1], repeat=maxlen))
        if tier == "quick":
            seqs = seqs[::3] + [s for s in seqs if sum(s) in (0, maxlen)]
        for seq in seqs:
            d = r.choice(deltas[1:])
            sp = r.choice(speeds)
            lines.append(f"ucond {spec}")
            for j, act in enumerate(seq):
                dj = r.choice(deltas) if r.random() < 0.3 else d
                spj = r.choice(speeds) if r.random() < 0.15 else sp
                lines.append(f"utick {q(dj * spj)} {q(spj)}")
                lv = (2 if r.random() < 0.5 else 1) if act else (0 if r.random() < 0.7 else None)
                v = levels[lv] if lv is not None else "1:1/4"
                lines.append(f"ueval {v}")
            if len(lines) > 600:
                scs.append([f"scenario c11u{i}"] + lines + ["endscenario"]); i += 1; lines = []
        if lines:
            scs.append([f"scenario c11u{i}"] + lines + ["endscenario"]); i += 1
    # multi-dimensional values against thresholds on the grid
    lines = []
    for v in values_grid([Fr(-1), Fr(0), Fr(1, 2), Fr(1)]):
        for a in ("1/2", "1", "-1/2", "0", "3/2"):
            lines += [f"ucond press {a}", "ueval " + v]
        if len(lines) > 600:
            scs.append([f"scenario c11u{i}"] + lines + ["endscenario"]); i += 1; lines = []
    if lines:
        scs.append([f"scenario c11u{i}"] + lines + ["endscenario"]); i += 1
    return scs


def c11_streams(seed, tier):
    prof = Profile(cond_kinds=["press", "justpress", "release", "hold", "holdrel", "tap", "pulse"], time_p=0.4, n_ctx=(1, 1),
                   n_actions=(1, 2), n_inputs=(1, 2), n_iconds=(1, 2), n_aconds=(0, 1), n_imods=(0, 0), n_amods=(0, 0),
                   lifecycle_p=0.0, n_entities=(1, 1), toggle_p=0.4,
                   input_kinds=["key"] * 4 + ["padaxis", "padaxis", "motion"], pads=(1, 1), pad_ctx_p=0.0)
    return c11_unit(seed, tier) + gen.app_batch(seed, 300 if tier == "quick" else 10000, prof, "c11r")


MOD_SPECS_EXACT = (
    [f"negate {x} {y} {z}" for x in (0, 1) for y in (0, 1) for z in (0, 1)]
    + [f"scale {q(a)} {q(b)} {q(c)}" for (a, b, c) in [(Fr(2), Fr(-1), Fr(1, 2)), (Fr(0), Fr(3), Fr(1)), (Fr(-1, 2), Fr(1, 4), Fr(-2))]]
    + [f"swizzle {s}" for s in range(5)]
    + [f"dzaxial {q(lo)} {q(hi)}" for lo, hi in gen.DZ]
    + ["dscale", "sconv 0", "sconv 1", "sconv 2", "sconv 3", "sadd 2 1 0 -1"]
    # uniform factors / exponents go through `Scale::splat` / `ExponentialCurve::splat` in the harness; natural exponents are
    # exact in f32 on the value grid (at most six fractional bits after cubing)
    + ["scale 2 2 2", "scale -1/2 -1/2 -1/2", "exp 2 2 2", "exp 1 2 3", "exp 3 1 2", "exp 1 1 1"]
)


def c18_streams(seed, tier):
    r = random.Random(seed)
    scs = []
    i = 0
    grid = [Fr(-2), Fr(-1), Fr(-1, 2), Fr(-1, 4), Fr(0), Fr(1, 4), Fr(1, 2), Fr(3, 4), Fr(1), Fr(2)]
    vals = values_grid(grid if tier != "quick" else [Fr(-2), Fr(-1, 2), Fr(0), Fr(1, 4), Fr(1)])
    for spec in MOD_SPECS_EXACT:
        lines = [f"umod {spec}"]
        for d in (Fr(0), Fr(1, 64), Fr(1, 8), Fr(1, 4)) if spec == "dscale" else (Fr(1, 64),):
            lines.append(f"utick {q(d)} 1")
            for v in vals:
                lines.append(f"uapply {v}")
        for _ in range(50 if tier == "quick" else 2000):
            lines.append(f"uapply {rand_value(r)}")
        scs.append([f"scenario c18u{i}"] + lines + ["endscenario"]); i += 1
    # DeltaLerp: short exact chains (alpha with few bits), incl. the overshoot corner delta*speed > 1 and snapping
    # (speed, delta) pairs with alpha = speed * delta in {0, 1/8, 1/4, 1/2, 1, 2, 4}: few mantissa bits per step, so
    # the f32 chain stays exact (alpha = 1/64 needs 6 more bits per step and rounds at the fifth step)
    for speed, d in ((Fr(8), Fr(0)), (Fr(8), Fr(1, 64)), (Fr(16), Fr(1, 64)), (Fr(8), Fr(1, 16)), (Fr(8), Fr(1, 8)),
                     (Fr(8), Fr(1, 4)), (Fr(16), Fr(1, 4)), (Fr(1), Fr(1, 8)), (Fr(2), Fr(1, 4))):
        if True:
            for tgt in ("b1", "1:1", "1:-2", "2:1,-1", "3:1,2,-1", "1:1/128"):
                lines = [f"umod dlerp {q(speed)}", f"utick {q(d)} 1"]
                lines += [f"uapply {tgt}"] * 3 + ["uapply 1:0"] * 2
                scs.append([f"scenario c18u{i}"] + lines + ["endscenario"]); i += 1
    # radial dead zone: `normalize_or_zero(v) * dead_zone(length(v))` is exact in f32 (and the model's square root is exact) on
    # axis-aligned vectors whose magnitude is a power of two, on 1-D / Bool values and on zero
    mags = [Fr(1, 8), Fr(1, 4), Fr(1, 2), Fr(1), Fr(2), Fr(4)]
    radial_vals = ["b0", "b1", "2:0,0", "3:0,0,0"] + [f"1:{q(s * m)}" for m in mags + [Fr(3, 8), Fr(3, 4)] for s in (1, -1)]
    for m in mags:
        for s in (1, -1):
            radial_vals += [f"2:{q(s * m)},0", f"2:0,{q(s * m)}", f"3:{q(s * m)},0,0", f"3:0,{q(s * m)},0", f"3:0,0,{q(s * m)}"]
    for lo, hi in gen.DZ:
        lines = [f"umod dzradial {q(lo)} {q(hi)}", "utick 1/64 1"] + [f"uapply {v}" for v in radial_vals]
        scs.append([f"scenario c18u{i}"] + lines + ["endscenario"]); i += 1
    # ExponentialCurve with exponents that are not natural numbers (below and above 1): on the fixed points of every positive
    # exponent (components 0, 1, -1) the result is exact in f32 and in the model
    fixed = ["b0", "b1", "1:0", "1:1", "1:-1"] + [f"2:{x},{y}" for x in (0, 1, -1) for y in (0, 1, -1)] + \
            [f"3:{x},{y},{z}" for x in (0, 1, -1) for y in (0, 1, -1) for z in (0, 1, -1)]
    for ex in ("1/2 1/2 1/2", "3/2 1/4 5/2", "1/4 2 1/2", "2 1/2 3", "1/8 1/8 1/8"):
        lines = [f"umod exp {ex}", "utick 1/64 1"] + [f"uapply {v}" for v in fixed]
        scs.append([f"scenario c18u{i}"] + lines + ["endscenario"]); i += 1
    # DeltaLerp histories that approach a target until the snap branch triggers (distance < 1/100 without being equal), then
    # move on: exact with alpha in {1/2, 1} (one more mantissa bit per halving step; at most 12 of them per chain)
    fine = [Fr(k, 128) for k in range(-4, 5)] + [Fr(1), Fr(-1), Fr(2), Fr(1, 2)]
    for t1 in ("1:1", "2:1,-1", "3:1/2,1,-1", "b1"):
        for t2 in ("1:2", "1:3/2", "2:2,0", "1:0", "1:1"):
            lines = ["umod dlerp 8", "utick 1/16 1"] + [f"uapply {t1}"] * 9 + [f"uapply {t2}"] * 3
            scs.append([f"scenario c18u{i}"] + lines + ["endscenario"]); i += 1
    for k in range(40 if tier == "quick" else 1500):
        lines = ["umod dlerp 8"]
        halvings = 0
        base = r.choice([Fr(0), Fr(1), Fr(-1, 2), Fr(1, 4)])
        for _ in range(r.randint(3, 9)):
            half = r.random() < 0.6 and halvings < 12
            lines.append("utick 1/16 1" if half else "utick 1/8 1")
            halvings += half
            tgt = base + r.choice(fine) if r.random() < 0.8 else r.choice(fine)
            if r.random() < 0.3:
                base = tgt
            lines.append(f"uapply 1:{q(tgt)}")
        scs.append([f"scenario c18u{i}"] + lines + ["endscenario"]); i += 1
    # AccumulateBy with the referenced action in every state / absent
    for st in (None, 0, 1, 2):
        lines = ["umod accby 1"]
        if st is not None:
            lines.append(f"uact 1 {st}")
        for v in ("b1", "1:1/2", "2:1,-1", "3:1,1,1", "b0", "1:2"):
            lines += [f"uapply {v}"] * 2
        if st is not None:
            lines += ["uact 1 2", "uapply 1:1", "uapply 1:1", "uact 1 0", "uapply 1:1"]
        scs.append([f"scenario c18u{i}"] + lines + ["endscenario"]); i += 1
    # the same modifiers inside a real context
    prof = Profile(mod_kinds=["negate", "scale", "swizzle", "dzaxial", "dscale", "accby"], n_imods=(1, 3), n_amods=(0, 2),
                   cond_kinds=SCRIPTED, n_iconds=(0, 1), n_aconds=(0, 0), n_ctx=(1, 1), lifecycle_p=0.0, time_p=0.3,
                   input_kinds=["key"] * 2 + ["motion", "wheel", "padaxis", "padaxis"], pads=(1, 1), pad_ctx_p=0.0)
    return scs + gen.app_batch(seed, 200 if tier == "quick" else 8000, prof, "c18r")


def c19_compass(prefix):
    """all four Cardinal fields, both Bidirectional fields and both sticks bound to arbitrary distinct inputs, through every
    construction route; each input pressed alone and in pairs"""
    out = []
    i = 0
    for route in (0, 1, 2, 3):
        for keys in ((0, 1, 2, 3), (3, 2, 1, 0), (16, 3, 17, 0), (5, 4, 1, 2)):
            for a in (2, 3, 10, 1):
                lines = [f"scenario {prefix}{i}", "ctx 0 0 any", f"act {a}"]
                i += 1
                if route:
                    lines.append(f"route {route}")
                lines.append("preset cardinal " + " ".join(f"{k}:0" for k in keys))
                lines += ["act 6", "preset bidir 6:0 7:0", "act 14", "preset stick 0", "preset stick 1",
                          "pad+ 0", "spawn 0", "insert 0 0 0", "frame"]
                for k in keys:
                    lines += [f"key {k} 1", "frame", f"key {k} 0", "frame"]
                lines += [f"key {keys[0]} 1", f"key {keys[1]} 1", "frame", f"key {keys[2]} 1", "frame", f"key {keys[3]} 1", "frame"]
                for k in keys:
                    lines.append(f"key {k} 0")
                lines += ["key 6 1", "frame", "key 7 1", "frame", "key 6 0", "frame", "key 7 0", "frame",
                          "padaxis 0 0 1/2", "frame", "padaxis 0 1 -1/4", "frame", "padaxis 0 2 1", "padaxis 0 3 3/4", "frame",
                          "padaxis 0 0 0", "padaxis 0 1 0", "frame", "endscenario"]
                out.append(lines)
    # the named constructors `Cardinal::wasd_keys()` / `Cardinal::dpad_buttons()`
    for route in (0, 1, 2, 3):
        lines = [f"scenario {prefix}{i}", "ctx 0 0 any", "act 2"] + ([f"route {route}"] if route else []) + ["preset wasd", "act 6"] + \
                ([f"route {route}"] if route else []) + ["preset dpad", "pad+ 0", "spawn 0", "insert 0 0 0", "frame"]
        i += 1
        for k in (16, 3, 17, 0):
            lines += [f"key {k} 1", "frame", f"key {k} 0", "frame"]
        lines += ["key 16 1", "key 3 1", "frame", "key 17 1", "key 0 1", "frame", "key 16 0", "key 3 0", "frame", "key 17 0", "key 0 0", "frame"]
        for b in (4, 7, 5, 6):
            lines += [f"padbtn 0 {b} 1", "frame", f"padbtn 0 {b} 0", "frame"]
        lines += ["padbtn 0 4 1", "padbtn 0 6 1", "frame", "padbtn 0 4 0", "padbtn 0 6 0", "frame", "endscenario"]
        out.append(lines)
    # rich fields: keys carrying their own swizzle, raw gamepad axes / buttons and nested stick presets as preset fields
    script = ["pad+ 0", "spawn 0", "insert 0 0 0", "frame"]
    for k in (0, 1, 2, 3, 6, 7):
        script += [f"key {k} 1", "frame", f"key {k} 0", "frame"]
    for x, v in ((0, "1/2"), (1, "-1/4"), (2, "1"), (3, "3/4"), (0, "-1"), (1, "1")):
        script += [f"padaxis 0 {x} {v}", "frame"]
    script += ["padbtn 0 0 1", "frame", "padbtn 0 1 1", "frame", "padbtn 0 0 0", "padbtn 0 1 0", "frame"]
    for x in range(4):
        script.append(f"padaxis 0 {x} 0")
    script += ["frame", "endscenario"]
    for route in (0, 1, 2, 3):
        for card in ("y0:0 y1:0 y2:0 y3:0", "s0 s1 s1 s0", "x0 x1 x2 x3", "b0 y1:0 x3 s0", "x1 s1 b1 y0:0"):
            for bid in ("y6:0 y7:0", "s0 s1", "x1 x3", "b0 s1", "6:0 y7:0"):
                for a in (2, 3):
                    lines = [f"scenario {prefix}{i}", "ctx 0 0 any", f"act {a}"]
                    i += 1
                    if route:
                        lines.append(f"route {route}")
                    lines.append("preset cardinal " + card)
                    lines += [f"act {a + 4}"] + ([f"route {route}"] if route else []) + ["preset bidir " + bid]
                    out.append(lines + script)
    return out


def c19_route_pairs(seed, n):
    """the same binding sequence through every applicable route: all variants must behave identically (and like the model,
    which ignores the route)"""
    r = random.Random(seed)
    out = []
    for i in range(n):
        prof = Profile(actions=NONCONSUMING, n_ctx=(1, 1), n_actions=(1, 2), n_inputs=(2, 5), n_imods=(0, 1), n_iconds=(0, 1), each_p=0.6,
                       cond_kinds=SCRIPTED, mod_kinds=CUSTOM_MODS, preset_p=0.25, lifecycle_p=0.03, rebind_p=0.3, keys=[0, 1, 2, 3, 16, 17], pads=(0, 1))
        base = gen.app_batch(r.randint(0, 10 ** 9), 1, prof, "x")[0]
        for route in (0, 1, 2, 3):
            sc = []
            for l in base:
                if l.startswith("scenario "):
                    sc.append(f"scenario c19p{i}r{route}")
                else:
                    sc.append(l)
                    if l.startswith("act ") and route:
                        sc.append(f"route {route}")
            out.append(sc)
        # plain-input blocks: routes 4 / 5 as well
        prof2 = Profile(actions=NONCONSUMING, n_ctx=(1, 1), n_actions=(1, 2), n_inputs=(2, 5), n_imods=(0, 0), n_iconds=(0, 0), each_p=0.7,
                        cond_kinds=SCRIPTED, mod_kinds=CUSTOM_MODS, preset_p=0.0, lifecycle_p=0.02, keys=[0, 1, 2, 3], pads=(0, 1))
        base = gen.app_batch(r.randint(0, 10 ** 9), 1, prof2, "x")[0]
        for route in (0, 1, 4, 5):
            sc = []
            for l in base:
                if l.startswith("scenario "):
                    sc.append(f"scenario c19q{i}r{route}")
                else:
                    sc.append(l)
                    if l.startswith("act ") and route:
                        sc.append(f"route {route}")
            out.append(sc)
    return out


def expand_each(sc):
    """the same configuration with every `emod` / `econd` line written out per input (each binding gets them after its own
    modifiers / conditions); None if a block combines them with presets or list routes"""
    out, block = [], []

    def flush():
        nonlocal block
        if not block:
            return True
        em = [l for l in block if l.startswith("emod ")]
        ec = [l for l in block if l.startswith("econd ")]
        if (em or ec) and any(l.startswith("preset ") or l in ("route 4", "route 5") for l in block):
            return False
        items, cur = [], None
        for l in block:
            if l.startswith(("emod ", "econd ")):
                continue
            if l.startswith("in "):
                if cur:
                    items.append(cur)
                cur = [l]
            elif cur is not None and l.startswith(("imod ", "icond ")):
                cur.append(l)
            else:
                if cur:
                    items.append(cur)
                    cur = None
                items.append([l])
        if cur:
            items.append(cur)
        for it in items:
            if it[0].startswith("in "):
                mods = [l for l in it if l.startswith("imod ")] + ["imod " + l[5:] for l in em]
                conds = [l for l in it if l.startswith("icond ")] + ["icond " + l[6:] for l in ec]
                out.extend([it[0]] + mods + conds)
            else:
                out.extend(it)
        block = []
        return True
    for l in sc:
        w = l.split()[0]
        if w in ("route", "amod", "acond", "emod", "econd", "in", "imod", "icond", "preset"):
            block.append(l)
        else:
            if not flush():
                return None
            out.append(l)
    if not flush():
        return None
    return out


def c19_each_pairs(seed, n):
    """`with_modifiers_each` / `with_conditions_each` against the same (input, modifiers, conditions) sequence written per input"""
    prof = Profile(route_p=0.0, each_p=0.8, preset_p=0.0, n_inputs=(1, 4), n_ctx=(1, 2), lifecycle_p=0.03, cond_kinds=SCRIPTED,
                   mod_kinds=CUSTOM_MODS, actions=NONCONSUMING)
    out = []
    for i, sc in enumerate(gen.app_batch(seed + 31, n, prof, "x")):
        e = expand_each(sc)
        if e is None or e == sc:
            continue
        out.append([f"scenario c19e{i}r0"] + e[1:])
        out.append([f"scenario c19e{i}r9"] + sc[1:])
    return out


def c19_streams(seed, tier):
    prof = Profile(actions=NONCONSUMING, route_p=0.6, each_p=0.4, preset_p=0.3, n_inputs=(1, 5), rebind_p=0.4, n_ctx=(1, 2), lifecycle_p=0.03,
                   cond_kinds=SCRIPTED, mod_kinds=CUSTOM_MODS, keys=[0, 1, 2, 3, 16, 17])
    n = 150 if tier == "quick" else 6000
    # random configurations with mixed routes, each paired with the same configuration through the default route
    twins = []
    for i, sc in enumerate(gen.app_batch(seed, n, prof, "x")):
        twins.append([f"scenario c19t{i}r0"] + [l for l in sc[1:] if not l.startswith("route ")])
        twins.append([f"scenario c19t{i}r9"] + sc[1:])
    return c19_compass("c19c") + c19_route_pairs(seed, 40 if tier == "quick" else 1500) + twins + \
        c19_each_pairs(seed, 60 if tier == "quick" else 2000)


def c09_directed(prefix):
    """the same press reaches the action in the same frame whether it is injected as a window event before the frame, by direct
    resource mutation between frames, or from a system in First; a steady frame delivers no Started / Canceled / Completed"""
    out = []
    i = 0
    for mode in ("direct", "events", "first"):
        for cond in ("", "icond 1 hold 1/32 0 1/2 0", "icond 1 pulse 1/32 0 1 1/2 0", "icond 1 tap 1/16 1/2 0"):
            lines = [f"scenario {prefix}{i}", "ctx 0 0 any", "act 0", "in key 0 0"]
            i += 1
            if cond:
                lines.append(cond)
            lines += ["act 21", "in mbtn 0 0", "act 6", "in motion 0", f"inject {mode}", "spawn 0", "insert 0 0 0", "frame",
                      "key 0 1", "frame", "frame", "frame", "mb 0 1", "motion 1 1/2", "frame", "frame", "key 0 0", "frame", "mb 0 0",
                      "frame", "frame", "post remove 0 0", "key 0 1", "frame", "frame", "endscenario"]
            out.append(lines)
    return out


def c09_streams(seed, tier):
    prof = Profile(script_kinds=[0], actions=NONCONSUMING, inject_first_p=0.4, inject_events_p=0.8, post_p=0.1, react_p=0.2, n_ctx=(1, 2),
                   cond_kinds=SCRIPTED, mod_kinds=CUSTOM_MODS, time_p=0.2, ui_p=0.2,
                   input_kinds=["key"] * 4 + ["mbtn"] * 3 + ["motion", "wheel"], pads=(0, 0))
    return c09_directed("c09d") + gen.app_batch(seed, 300 if tier == "quick" else 10000, prof, "c09r")


def wide_stream(prop):
    """A second, *wide* stream for the app-based properties: every kind of input, condition, modifier, construction route and
    lifecycle history at once.  The narrow streams above keep other properties' functions out of a property's way; this one is
    the hedge against what narrowing hides (C12r3: a change keyed on modifier keys, invisible with plain keys).  Because
    everything is in play here, only differences in the property's *output* facts under equal upstream facts are reported
    from this stream; upstream differences are counted, not reported (tools/facts.py, check)."""
    def f(seed, tier):
        # (C12 / C13 are decided on the invocation log; which bindings are still suppressed after creation is C08's business)
        prof = Profile(lifecycle_p=0.08, react_p=0.25, post_p=0.05, ui_p=0.05,
                       held_at_insert_p=0.0 if prop in ("C12", "C13") else 0.25, each_p=0.2, route_p=0.2,
                       preset_p=0.1, time_p=0.15, pads=(0, 0) if prop in ("C12", "C13") else (0, 2), log_raw_p=1.0 if prop in ("C05", "C06", "C08", "C15", "C16") else 0.3,
                       n_ctx=(1, 3), n_entities=(1, 3))
        return gen.app_batch(seed + 7919, 150 if tier == "quick" else 5000, prof, prop.lower() + "w")
    return f


# (the reader properties C05, C06, C08, C15, C16 have no wide stream: with consuming actions in play what a binding reads
# depends on the states of earlier actions, which the trace shows only at the end of the frame, so a first difference in a
# reading cannot be attributed; their own streams already cover every input kind)
WIDE = {p: wide_stream(p) for p in ("C01", "C02", "C03", "C04", "C07", "C09", "C10", "C12", "C13", "C14")}

PROPS = {
    "C01": dict(streams=c01_streams, proj=P_EVENTS),
    "C02": dict(streams=c02_streams, proj=P_LIFECYCLE),
    "C03": dict(streams=c03_streams, proj=P_ALL),
    "C04": dict(streams=c04_streams, proj=P_STATEVAL),
    "C05": dict(streams=c05_streams, proj=P_STATEVAL),
    "C06": dict(streams=c06_streams, proj=P_REGISTRY),
    "C07": dict(streams=c07_streams, proj=P_REGISTRY),
    "C08": dict(streams=c08_streams, proj=P_ALL),
    "C09": dict(streams=c09_streams, proj=proj_lines({"sched", "frame", "dlv", "probe", "poll", "endframe", "panic"})),
    "C10": dict(streams=c10_streams, proj=P_DURATIONS),
    "C11": dict(streams=c11_streams, proj=proj_lines({"r", "frame", "poll", "inv", "endframe", "panic"}, poll_fields=[0, 1, 2, 3, 4])),
    "C12": dict(streams=c12_streams, proj=P_INVOC),
    "C13": dict(streams=c13_streams, proj=P_STATEVAL),
    "C14": dict(streams=c14_streams, proj=P_RECIPIENTS),
    "C15": dict(streams=c15_streams, proj=proj_lines({"frame", "poll", "endframe", "panic"}, poll_fields=[0, 1, 2, 3, 4, 6])),
    "C16": dict(streams=c16_streams, proj=proj_lines({"frame", "poll", "endframe", "panic"}, poll_fields=[0, 1, 2, 3, 4, 6])),
    "C18": dict(streams=c18_streams, proj=proj_lines({"r", "frame", "poll", "inv", "endframe", "panic"}, poll_fields=[0, 1, 2, 3, 4, 6])),
    "C19": dict(streams=c19_streams, proj=P_ALL),
    "C20": dict(streams=c20_streams, proj=P_UNIT),
}
