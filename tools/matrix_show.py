#!/usr/bin/env python3
"""usage: tools/matrix_show.py <matrix.txt> — renders the (seeded change × property check) table.
   X = VIOLATION with a failing input, n = VIOLATION … no-failing-input-found, . = holds, B = broken check"""
import collections, sys
m = collections.defaultdict(dict)
for l in open(sys.argv[1]):
    t = l.split()
    if len(t) >= 3:
        m[t[0]][t[1]] = t[2]
props = [f"C{i:02d}" for i in range(1, 21)]
print("change   " + " ".join(p[1:] for p in props))
for k in sorted(m):
    row = []
    for p in props:
        v = m[k].get(p, '?')
        row.append('.' if v == 'holds' else ('n' if 'no-input' in v else ('X' if 'VIOL' in v else ('B' if v == 'broken' else '?'))))
    print(f"{k:8s} " + "  ".join(row))
