#!/bin/bash
# usage: tools/matrix.sh <outfile> [<seeded-id>...]
# For every seeded change (default: all under /verif/seeded): apply it to /repo, rebuild the harness once, run the quick
# check of EVERY property (no further rebuild), revert.  Writes one line per (change, property): "<change> <prop> <verdict>"
# where verdict is holds | VIOLATION(<kind>) | broken.  Restores /repo and the harness at the end.
export VERIF_EVIDENCE_DIR=/verif/work/evidence-scratch   # keep the committed evidence (unchanged tree, seed 1) intact
out="$1"; shift
cd /verif
ids="${@:-$(cd seeded && ls -d */ | tr -d /)}"
props="C01 C02 C03 C04 C05 C06 C07 C08 C09 C10 C11 C12 C13 C14 C15 C16 C17 C18 C19 C20"
: > "$out"
for id in $ids; do
  git -C /repo apply "/verif/seeded/$id/patch.diff" || { echo "$id - patch-does-not-apply" >> "$out"; continue; }
  (cd harness && CARGO_NET_OFFLINE=true cargo build --offline --release 2>&1 | tail -1)
  for p in $props; do
    ( r=$(./check $p --skip-build 2>&1 | tail -1)
      case "$r" in
        *holds*) v=holds;;
        *no-failing-input-found*) v="VIOLATION(no-input)";;
        *VIOLATION*) v="VIOLATION($(basename "${r##*replay=}"))";;
        *) v="broken";;
      esac
      echo "$id $p $v" >> "$out" ) &
  done
  wait
  git -C /repo checkout -- .
done
(cd harness && CARGO_NET_OFFLINE=true cargo build --offline --release 2>&1 | tail -1)
python3 /verif/tools/codegen.py >/dev/null
git -C /repo status --short | head
sort -o "$out" "$out"
