#!/bin/bash
# usage: tools/diagonal.sh [<seeded-id>...] — applies every seeded change, runs only the quick check of the property it was written
# against (seeded/<id>/meta.json "property"), reverts; prints one line per change (X = failing input, n = no-failing-input-found,
# MISSED = the check holds).
export VERIF_EVIDENCE_DIR=/verif/work/evidence-scratch   # keep the committed evidence (unchanged tree, seed 1) intact
cd /verif
ids="${@:-$(cd seeded && ls -d */ | tr -d /)}"
for id in $ids; do
  p=$(python3 -c "import json;print(json.load(open('/verif/seeded/$id/meta.json')).get('property','$id')[:3])")
  git -C /repo apply "/verif/seeded/$id/patch.diff" || { echo "$id $p patch-does-not-apply"; continue; }
  (cd harness && CARGO_NET_OFFLINE=true cargo build --offline --release 2>&1 | tail -1) > /dev/null
  r=$(./check $p --skip-build 2>&1 | tail -1)
  case "$r" in
    *holds*) v=MISSED;;
    *no-failing-input-found*) v=n;;
    *VIOLATION*) v=X;;
    *) v="broken: ${r:0:80}";;
  esac
  echo "$id $p $v"
  git -C /repo checkout -- .
done
(cd harness && CARGO_NET_OFFLINE=true cargo build --offline --release 2>&1 | tail -1) > /dev/null
python3 /verif/tools/codegen.py >/dev/null
git -C /repo status --short | head -3
