#!/bin/bash
# usage: tools/benign_par.sh "<props>" [diff...] — like benign.sh, but the checks of one rewrite run in parallel (6 at a time)
export VERIF_EVIDENCE_DIR=/verif/work/evidence-scratch
cd /verif
props="$1"; shift
files="${@:-benign/*.diff}"
for f in $files; do
  git -C /repo apply "/verif/$f" || { echo "$f does not apply"; continue; }
  (cd harness && CARGO_NET_OFFLINE=true cargo build --offline --release 2>&1 | tail -1) > /dev/null
  python3 tools/codegen.py > /dev/null
  (cd lean && lake build BEI.Gen.Code.Value BEI.Gen.Code.Events BEI.Gen.Code.Timer BEI.Gen.Code.Conditions BEI.Gen.Code.Tracker BEI.Gen.Code.ActionData BEI.Gen.Code.Merge BEI.Gen.Code.Modifiers BEI.Gen.Code.Refs >/dev/null 2>&1)
  echo $props | tr ' ' '\n' | xargs -P 6 -I{} sh -c 'r=$(./check {} --skip-build 2>&1 | tail -1); case "$r" in *holds*) ;; *) echo "ALARM '"$f"' {}: $r";; esac'
  echo "done $f"
  git -C /repo checkout -- .
done
(cd harness && CARGO_NET_OFFLINE=true cargo build --offline --release 2>&1 | tail -1) > /dev/null
python3 tools/codegen.py > /dev/null
git -C /repo status --short | head -3
