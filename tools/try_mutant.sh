#!/bin/sh
# usage: tools/try_mutant.sh <patch.diff> <prop> [<prop>...]   — applies the patch to /repo, runs the quick checks, reverts.
export VERIF_EVIDENCE_DIR=/verif/work/evidence-scratch   # keep the committed evidence (unchanged tree, seed 1) intact
patch="$1"; shift
cd /verif
git -C /repo apply "$patch" || { echo "patch does not apply"; exit 9; }
for p in "$@"; do
  echo "=== $p"
  ./check "$p" --tier quick 2>&1 | tail -4
done
git -C /repo checkout -- .
(cd /verif/harness && CARGO_NET_OFFLINE=true cargo build --offline --release 2>&1 | tail -1)
python3 /verif/tools/codegen.py >/dev/null
git -C /repo status --short | head
