#!/bin/bash
# usage: tools/benign.sh  — applies every behaviour-preserving rewrite under /verif/benign, runs all quick checks, reverts.
export VERIF_EVIDENCE_DIR=/verif/work/evidence-scratch   # keep the committed evidence (unchanged tree, seed 1) intact
cd /verif
props="C01 C02 C03 C04 C05 C06 C07 C08 C09 C10 C11 C12 C13 C14 C15 C16 C17 C18 C19 C20"
files="${@:-benign/*.diff}"
for f in $files; do
  git -C /repo apply "/verif/$f" || { echo "$f does not apply"; continue; }
  (cd harness && CARGO_NET_OFFLINE=true cargo build --offline --release 2>&1 | tail -1) > /dev/null
  for p in $props; do
    r=$(./check $p --skip-build 2>&1 | tail -1)
    case "$r" in *holds*) ;; *) echo "ALARM $f $p: $r";; esac
  done
  echo "done $f"
  git -C /repo checkout -- .
done
(cd harness && CARGO_NET_OFFLINE=true cargo build --offline --release 2>&1 | tail -1) > /dev/null
python3 /verif/tools/codegen.py >/dev/null
git -C /repo status --short | head -3
