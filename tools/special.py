"""Properties whose check is not a plain model-vs-implementation stream (C09, C17, C19)."""
SPECIAL = {}
