"""Properties whose check is not a plain model-vs-implementation stream (C09, C17)."""
import os, random, re, subprocess
import gen, runner, props, facts
from gen import Profile

K_TYPES = {0, 2, 4}


def _offset_ids(line, off):
    t = line.split(" ")
    if t[0] in ("amod", "acond", "imod", "icond", "emod", "econd"):
        t[1] = str(int(t[1]) + off)
    return " ".join(t)


def c17_pair(rng, name):
    """(A, B, C): A = contexts K plus input-disjoint contexts D; B = K alone with the same input script (D's inputs become activity
    on inputs nobody binds); C = K alone without that activity"""
    # half of the kept contexts are not tied to a gamepad (they read their buttons / axes on every gamepad); the deleted contexts are
    # tied to the second gamepad and bind *other* buttons / axes, so the two sides stay input-disjoint (seeded change C17r4: the
    # reader's gamepad selection leaking from a tied context into an untied one evaluated after it)
    # (the other half of the pairs ties every context to its own gamepad and lets both sides use the same buttons / axes: seeded
    # change C17, a held-at-creation test that looks at every gamepad)
    untied = rng.random() < 0.5
    kprof = Profile(ctx_pool=[0, 2, 4], n_ctx=(1, 2), keys=[0, 1], mask_choices=[1, 2, 3], mbtns=[0], pads=(1, 1),
                    pad_ctx_p=0.5 if untied else 1.0,
                    padbtn_pool=[0, 1] if untied else [0, 1, 4], padaxis_pool=[0] if untied else [0, 1],
                    input_kinds=["key"] * 5 + ["mbtn", "motion", "padbtn", "padaxis"], actions=list(range(16)),
                    lifecycle_p=0.08, noise_keys=[4, 5], modmask_p=0.3, n_entities=(1, 2))
    dprof = Profile(ctx_pool=[1, 3, 5], n_ctx=(1, 2), keys=[2, 3], mask_choices=[4, 8, 12], mbtns=[1], pads=(1, 1), pad_ctx_p=1.0,
                    padbtn_pool=[4] if untied else [0, 1, 4], padaxis_pool=[1] if untied else [0, 1],
                    input_kinds=["key"] * 5 + ["mbtn", "wheel", "padbtn", "padaxis"], actions=list(range(16, 32)),
                    modmask_p=0.3)
    kg = gen.AppGen(rng, kprof)
    ksc = kg.scenario(name)
    dg = gen.AppGen(rng, dprof)
    dcfg = [_offset_ids(l.replace(" pad 0", " pad 1"), 1000) for l in dg.config([0])]
    dg.bound_inputs = list(dg.bound_inputs)
    kcfg = [l for l in ksc[1:-1] if l.split()[0] in ("ctx", "act", "route", "amod", "acond", "emod", "econd", "in", "imod", "icond", "preset")]
    kops = [l for l in ksc[1:-1] if l.split()[0] not in ("ctx", "act", "route", "amod", "acond", "emod", "econd", "in", "imod", "icond", "preset")]
    ents = [int(l.split()[1]) for l in kops if l.startswith("spawn ")]
    dinserts = []
    for e in ents:
        for c in sorted(dg.ctx_variants):
            if rng.random() < 0.8:
                dinserts.append(f"insert {e} {c} {rng.choice(dg.ctx_variants[c])}")
    state = {"keys": {}, "mb": {}, "padbtn": {}}
    opsA, opsB = ["pad+ 1"], ["pad+ 1"]
    first = True
    for l in kops:
        if l == "frame":
            noise = dg.input_changes(state, [1])
            if first:
                opsA += dinserts
                first = False
            opsA += noise
            opsB += noise
        opsA.append(l)
        opsB.append(l)
    A = [f"scenario {name}A"] + kcfg + dcfg + opsA + ["endscenario"]
    B = [f"scenario {name}B"] + kcfg + opsB + ["endscenario"]
    # C: B without the activity on inputs nobody binds (the second gamepad still exists, but is never touched)
    C = [f"scenario {name}C"] + kcfg + ["pad+ 1"] + kops + ["endscenario"]
    return A, B, C


def k_projection(trace):
    """what the kept contexts K can observe: their polls, deliveries, invocations and registry membership per frame, and the
    closing deliveries of their actions between frames"""
    out = []
    in_frame = False
    for l in trace:
        t = l.split(" ")
        k = t[0]
        if k == "frame":
            in_frame = True
            out.append(l)
        elif k == "endframe":
            in_frame = False
            out.append(l)
        elif k == "panic":
            out.append(l)
        elif k == "dlv" and int(t[2]) < 16:
            out.append(l)
        elif not in_frame:
            continue
        elif k == "poll" and int(t[2]) in K_TYPES:
            out.append(l)
        elif k == "inv" and int(t[1]) < 1000:
            out.append(l)
        elif k == "has" and int(t[2]) in K_TYPES:
            out.append(l)
        elif k == "groups":
            gs = [g for g in (t[1].split(";") if len(t) > 1 else []) if int(g.split(":")[0]) in K_TYPES]
            out.append("groups " + ";".join(gs))
    return out


def c17_run(prop, cfg, seed, tier, workdir):
    rng = random.Random(seed)
    n = 150 if tier == "quick" else 5000
    pairs = [c17_pair(rng, f"c17p{i}") for i in range(n)]
    corpus = runner.load_corpus(prop)
    # corpus files named pair-*.txt hold two scenarios that must agree on the kept contexts (earlier oracle violations)
    cpairs = []
    by_file = {}
    for sc in corpus:
        stem = sc[0].split()[1].rsplit("-", 1)[0]
        by_file.setdefault(stem, []).append(sc)
    for stem, scs in by_file.items():
        if stem.startswith("corpus-pair-") and len(scs) == 2:
            cpairs.append((scs[0], scs[1]))
    scenarios = corpus + [s for p in pairs for s in p]
    impl, model = runner.run_pair(scenarios, workdir, "s")
    # determinism: a second, separate run of the real crate on the same batch
    impl2, _ = runner.run_pair(scenarios, workdir, "s2", impl_only=True)
    mismatches, violations, outside = [], [], 0
    nontriv = 0
    stats = {"pairs": len(pairs), "pair_projection_lines": 0}
    for sc in scenarios:
        nm = sc[0].split()[1]
        ti = runner.canonicalise(sc, impl[nm]); tm = runner.canonicalise(sc, model[nm])
        # against the model every fact counts (as upstream), but orders no property fixes are normalised (tools/facts.py)
        v, d = facts.compare(prop, sc, ti, tm)
        if v != "same":
            mismatches.append((sc, d))
        if impl[nm] != impl2[nm] and not violations:
            violations.append(("nondeterministic-" + nm, "# two runs of the real crate on the same scenario differ\n" + "\n".join(sc) + "\n"))
        if any(l.startswith("dlv ") for l in impl[nm]):
            nontriv += 1
    for X, Y in cpairs:
        x, y = X[0].split()[1], Y[0].split()[1]
        d = runner.first_diff(k_projection(runner.canonicalise(X, impl[x])), k_projection(runner.canonicalise(Y, impl[y])))
        if d is not None and len(violations) < 3:
            violations.append((f"corpus-pair-{x}", "# the kept contexts behave differently in the two scenarios of a committed pair\n"
                               f"# first difference: {d!r}\n" + "\n".join(X) + "\n" + "\n".join(Y) + "\n"))
    for A, B, C in pairs:
        a, b, c = A[0].split()[1], B[0].split()[1], C[0].split()[1]
        pa, pb = k_projection(runner.canonicalise(A, impl[a])), k_projection(runner.canonicalise(B, impl[b]))
        pc = k_projection(runner.canonicalise(C, impl[c]))
        stats["pair_projection_lines"] += len(pa)
        d = runner.first_diff(pa, pb)
        if d is not None and len(violations) < 3:
            violations.append((f"interference-{a}", "# the kept contexts behave differently with / without input-disjoint contexts\n"
                               f"# first difference (index, with D, without D): {d!r}\n" + "\n".join(A) + "\n" + "\n".join(B) + "\n"))
        d = runner.first_diff(pb, pc)
        if d is not None and len(violations) < 3:
            violations.append((f"unbound-activity-{b}", "# the contexts behave differently with / without activity on inputs nobody binds\n"
                               f"# first difference (index, with the activity, without): {d!r}\n" + "\n".join(B) + "\n" + "\n".join(C) + "\n"))
    # a difference from the model is not by itself a failing input for C17 (that is what the pair / re-run oracles find)
    return dict(scenarios=scenarios, impl=impl, model=model, mismatches=[], upstream=mismatches, outside=outside, evaluations=len(scenarios) * 2,
                distinct=len(scenarios), nontrivial=nontriv, stats=stats, n_corpus=len(corpus), violations=violations,
                extra_coverage={"pairs_compared": len(pairs), "determinism_reruns": len(scenarios)})


SPECIAL = {
    "C17": dict(run=c17_run, proj=props.P_ALL),
}
