#!/bin/sh
# usage: confirm_mutant.sh <ID> [<propid>]  — confirms a seeded change in its scratch worktree /tmp/mut/<ID>, stores it under
# /verif/seeded/<ID>/ and removes the worktree.
ID="$1"; PROP="${2:-$1}"
W=/tmp/mut/$ID; O=/tmp/mut/$ID.out; S=/verif/seeded/$ID
export CARGO_NET_OFFLINE=true
cd "$W" || exit 9
git diff -- src > /tmp/mut/$ID.cur.diff
if ! cmp -s /tmp/mut/$ID.cur.diff "$O/patch.diff"; then echo "NOTE: worktree diff differs from patch.diff; using worktree diff"; cp /tmp/mut/$ID.cur.diff "$O/patch.diff"; fi
cp "$O"/demo_*.rs tests/ 2>/dev/null
DEMO=$(basename $(ls "$O"/demo_*.rs | head -1) .rs)
echo "--- suite with the change"
cargo test --workspace --no-fail-fast --offline 2>&1 | grep -E "^test result|^test .*FAILED|panicked" > /tmp/mut/$ID.with.txt
PASSED=$(grep "^test result" /tmp/mut/$ID.with.txt | awk '{s+=$4} END{print s}')
FAILED=$(grep "^test result" /tmp/mut/$ID.with.txt | awk '{s+=$6} END{print s}')
FAILNAMES=$(grep "FAILED" /tmp/mut/$ID.with.txt | grep "^test " | awk '{print $2}' | tr '\n' ' ')
echo "with change: passed=$PASSED failed=$FAILED failing: $FAILNAMES"
git checkout -- src
echo "--- demo without the change"
cargo test --offline --test "$DEMO" 2>&1 | grep -E "^test result" > /tmp/mut/$ID.without.txt
cat /tmp/mut/$ID.without.txt
WO=$(cat /tmp/mut/$ID.without.txt | tr '\n' ' ')
mkdir -p "$S"
cp "$O/patch.diff" "$S/patch.diff"; cp "$O"/demo_*.rs "$S/"
python3 - "$ID" "$PROP" "$PASSED" "$FAILED" "$FAILNAMES" "$WO" <<'PY'
import json,sys
ID,PROP,passed,failed,failnames,wo=sys.argv[1:7]
m=json.load(open(f"/tmp/mut/{ID}.out/meta.json"))
m["property"]=PROP
m["confirmed_by_main_session"]={
  "suite_with_change":f"cargo test --workspace --no-fail-fast --offline in the scratch worktree (demo file present): passed={passed} failed={failed}; failing tests: {failnames.strip()}",
  "demo_without_change":f"git checkout -- src; cargo test --offline --test demo: {wo.strip()}",
}
json.dump(m,open(f"/verif/seeded/{ID}/meta.json","w"),indent=1)
PY
cd /; git -C /repo worktree remove --force "$W"; rm -rf /tmp/mut/$ID.out /tmp/mut/$ID.cur.diff /tmp/mut/$ID.with.txt /tmp/mut/$ID.without.txt /tmp/mut/$ID.prompt
echo "stored $S"
